#!/usr/bin/env python3
import json, sys, glob, jsonschema
sch = json.load(open('/root/.vp/EVIDENCE.schema.json'))
ok = True
for p in sorted(glob.glob('/verif/evidence/*.json')):
    try:
        jsonschema.validate(json.load(open(p)), sch); print('ok ', p)
    except Exception as e:
        ok = False; print('BAD', p, str(e)[:300])
sys.exit(0 if ok else 1)
