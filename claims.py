"""What is claimed, per property.  MANIFEST.json is generated from this by tools_manifest.py."""

PENDING = "contracts for this property are not completed yet in this build (see DESIGN.md §13); not claimed on bounded evidence"

CLAIMS = {}

NOT_APPLICABLE = {f"C{i:02d}": PENDING for i in range(1, 19)}

NOTES = ("Contract-based deductive verification of the real source; see DESIGN.md. A property is claimed only when its "
         "core obligations are discharged deductively; bounded stand-ins are labelled and never counted as proved.")
