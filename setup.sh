#!/bin/sh
# Builds /verif/.venv offline: python 3.12 of /venv + z3-solver, cvc5, deal, icontract, jsonschema from the
# local wheelhouse, plus a .pth that exposes /venv's site-packages (numpy, scipy, pandas, astropy, h5py,
# the editable install of yaw pointing at /repo/src).
set -e
cd "$(dirname "$0")"
export PIP_NO_INDEX=1
if [ -x .venv/bin/python ] && .venv/bin/python -c "import z3, cvc5, deal, jsonschema, numpy, mpmath" 2>/dev/null; then
    echo "setup: .venv already usable"
    exit 0
fi
rm -rf .venv
/venv/bin/python -m venv .venv
.venv/bin/pip install -q --no-index --find-links /opt/veriftools/wheels z3-solver cvc5 deal icontract jsonschema mpmath
echo "import site; site.addsitedir('/venv/lib/python3.12/site-packages')" \
    > .venv/lib/python3.12/site-packages/repo_overlay.pth
.venv/bin/python -c "import z3, cvc5, deal, jsonschema, numpy, scipy; print('setup: ok', z3.get_version_string())"
