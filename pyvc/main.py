"""Driver: ./check <Cxx> [--tier quick|thorough] [--replay file]

exit 0  every obligation discharged, all guards fine, no violation beyond the listed known findings
exit 1  VIOLATION property=<id> replay=<path> [no-failing-input-found]
exit 2  UNDECIDED (extraction impossible, primitive without contract, solver unknown after both back ends)
exit 3  CHECKER-ERROR (guard failed, crash in the checker)
"""
from __future__ import annotations

import argparse
import hashlib
import importlib
import json
import os
import sys
import time
import traceback

HERE = os.path.dirname(os.path.dirname(os.path.abspath(__file__)))
sys.path.insert(0, HERE)
os.environ.setdefault("YAW_NUM_THREADS", "1")
OUT = os.environ.get("VERIF_OUT", HERE)   # mutant/self-test runs write their evidence and replays elsewhere
_repo_src = os.path.join(os.environ.get("VERIF_REPO", "/repo"), "src")
if os.path.isdir(_repo_src):
    sys.path.insert(0, _repo_src)          # replays import the real package from the tree under test

from pyvc import shadow, unit as U, solve  # noqa: E402


def load_known(prop):
    p = os.path.join(HERE, "known_findings.json")
    if not os.path.exists(p):
        return []
    data = json.load(open(p))
    return [k for k in data.get("findings", []) if k["property"] == prop]


def main():
    ap = argparse.ArgumentParser()
    ap.add_argument("prop")
    ap.add_argument("--tier", default=os.environ.get("VERIF_TIER", "quick"))
    ap.add_argument("--replay")
    ap.add_argument("--only")
    ap.add_argument("--jobs", type=int)
    ap.add_argument("--verbose", "-v", action="store_true")
    args = ap.parse_args()
    prop = args.prop
    seed = int(os.environ.get("VERIF_SEED", "0"))
    t0 = time.time()
    try:
        cmod = importlib.import_module(f"contracts.{prop}")
        # units on functions that several properties depend on are registered under each of them: done here, after the module
        # is fully imported, so that contract modules can refer to each other without import cycles
        for _name in sorted(dir(cmod)):
            if _name.startswith("_register_shared") and callable(getattr(cmod, _name)):
                getattr(cmod, _name)()
    except ModuleNotFoundError as e:
        print(f"CHECKER-ERROR no contracts for {prop}: {e}")
        return 3
    if args.replay:
        return cmod.replay(args.replay) if hasattr(cmod, "replay") else _generic_replay(prop, args.replay)
    try:
        shadow.install()
        shadow.module("yaw")
    except Exception:  # noqa: BLE001
        print(f"UNDECIDED property={prop} reason=the repository package cannot be loaded as shadow package")
        traceback.print_exc()
        _write_evidence(prop, args.tier, seed, t0, [], cmod, extra={"undecided": "shadow package load failed"})
        return 2
    opts = {"tier": args.tier, "seed": seed}
    if hasattr(cmod, "prepare"):
        cmod.prepare(opts)
    results = U.run_property(prop, opts, jobs=args.jobs, only=args.only)
    results = _confirm_candidates(prop, opts, results)
    bounded = None
    if hasattr(cmod, "bounded") and not args.only:
        try:
            bounded = cmod.bounded(opts)
        except Exception:  # noqa: BLE001
            bounded = {"error": traceback.format_exc(limit=8)}
    return report(prop, args, seed, t0, results, cmod, bounded)


def _confirm_candidates(prop, opts, results):
    """An obligation that the solver could neither prove nor refute on the full query, and for which only the weakened
    (ground-instantiated) query gave a candidate counter-model, is discharged a second time - alone, after everything else has
    finished - before it is reported: on a busy machine the first attempt may simply have run out of its wall-clock budget.  It is
    reported only if it fails again; if it is proved the second time, the proof counts."""
    cand = {}
    for r in results:
        names = {ob["name"] for ob in r["obligations"] if ob["status"] == "refuted-candidate"}
        if names:
            cand[r["instance"]] = names
    if not cand or len(cand) > 8:
        return results
    again = {r["instance"]: r for r in U.run_property(prop, opts, jobs=1, instances=set(cand))}
    out = []
    for r in results:
        r2 = again.get(r["instance"])
        if r["instance"] not in cand or r2 is None or r2["error"]:
            out.append(r)
            continue
        second = {}
        for ob in r2["obligations"]:
            second.setdefault(ob["name"], []).append(ob["status"])
        obs = []
        for ob in r["obligations"]:
            if ob["status"] == "refuted-candidate" and second.get(ob["name"]) and all(st == "discharged" for st in second[ob["name"]]):
                ob = dict(ob, status="discharged", backend="z3 (confirmation run)", detail=(ob.get("detail", "") + " proved on the confirmation run").strip())
            obs.append(ob)
        out.append(dict(r, obligations=obs))
    return out


def _generic_replay(prop, path):
    d = json.load(open(path))
    print(json.dumps({k: d.get(k) for k in ("property", "obligation", "status", "detail", "witness", "replay")},
                     indent=1, default=str))
    return 0


def report(prop, args, seed, t0, results, cmod, bounded):
    known = load_known(prop)
    n_ob = n_dis = 0
    failed, undecided, errors, vacuous = [], [], [], []
    covers = canaries = 0
    samples = []
    trusted = set()
    solver_ms = 0.0
    per_unit = []
    for r in results:
        if r["error"]:
            kind, text = r["error"]
            (undecided if kind == "unsupported" else errors).append((r["instance"], text))
        trusted |= set(r["trusted"])
        u_ob = u_dis = 0
        cover_seen = {}
        for ob in r["obligations"]:
            k = ob["kind"]
            if k == "cover":
                covers += 1
                cover_seen.setdefault(ob["name"], set()).add(ob["status"])
                continue
            if k == "canary":
                canaries += 1
                if ob["status"] == "canary-passed-vacuous":
                    vacuous.append(ob["name"])
                continue
            n_ob += 1
            u_ob += 1
            solver_ms += ob["ms"]
            if ob["status"] == "discharged":
                n_dis += 1
                u_dis += 1
                if len(samples) < 4 and ob.get("smt2"):
                    samples.append({"obligation": ob["name"], "backend": ob["backend"], "ms": ob["ms"],
                                    "smt2_tail": ob["smt2"][-1500:]})
            elif ob["status"] == "unknown":
                undecided.append((ob["name"], ob.get("detail", "solver unknown")))
            else:
                failed.append((r, ob))
        # a cover point must be reachable on at least one explored path (paths found infeasible later are fine)
        for cname, sts in cover_seen.items():
            if "covered" not in sts and "cover-unknown" not in sts:
                vacuous.append(cname)
        per_unit.append({"unit": r["instance"], "name": r["unit"], "paths": r["paths"], "obligations": u_ob, "discharged": u_dis,
                         "wall_s": r["wall_s"]})
    # known findings: a failed obligation listed in known_findings.json (by obligation-name prefix) is reported as
    # KNOWN-FINDING; everything else is a violation
    violations, known_hits = [], []
    for r, ob in failed:
        kf = next((k for k in known if _match_known(k, ob)), None)
        if kf is not None:
            known_hits.append((kf, ob))
        else:
            violations.append((r, ob))
    bounded_viol = []
    if bounded and bounded.get("violations"):
        for v in bounded["violations"]:
            kf = next((k for k in known if k.get("bounded_id") and k["bounded_id"] == v.get("id")
                       and k.get("bounded_detail", "") in (v.get("detail") or "")), None)
            if kf is not None:
                known_hits.append((kf, {"name": v.get("id"), "status": "bounded-fail"}))
            else:
                bounded_viol.append(v)
    exit_code = 0
    os.makedirs(os.path.join(OUT, "replays", prop), exist_ok=True)
    printed = set()
    for kf, ob in known_hits:
        key = kf["id"]
        if key in printed:
            continue
        printed.add(key)
        print(f"KNOWN-FINDING: property={prop} {kf['id']} {kf['what']}")
    lines = []
    for r, ob in violations:
        rp = _write_replay(prop, r, ob, cmod)
        tail = "" if rp[1] else " no-failing-input-found"
        lines.append(f"VIOLATION property={prop} replay={rp[0]}{tail}")
    for v in bounded_viol:
        p = os.path.join("replays", prop, f"bounded_{_slug(v.get('id', 'x'))}.json")
        json.dump(v, open(os.path.join(OUT, p), "w"), indent=1, default=str)
        lines.append(f"VIOLATION property={prop} replay={p}")
    if lines:
        exit_code = 1
    if not lines and (undecided or (bounded and bounded.get("error"))):
        exit_code = 2
    if errors or vacuous or (n_ob == 0 and not undecided):
        exit_code = 3 if not lines else exit_code
    by_backend = {}
    for r in results:
        for ob in r["obligations"]:
            if ob["kind"] in ("cover", "canary") or ob["status"] != "discharged":
                continue
            by_backend[ob["backend"]] = by_backend.get(ob["backend"], 0) + 1
    kinds = {u.name: u.kind for u in U.REGISTRY.get(prop, [])}
    for pu in per_unit:
        pu["kind"] = kinds.get(pu.pop("name"), "function")
    extra = {"discharged_by_backend": by_backend,
             "bounded_units": sorted({pu["unit"] for pu in per_unit if pu["kind"] == "bounded"}),
             "units": per_unit, "undecided": [f"{a}: {b}" for a, b in undecided][:20],
             "checker_errors": [f"{a}: {b}" for a, b in errors][:5], "vacuous": vacuous[:10],
             "covers": covers, "canaries": canaries, "solver_s": round(solver_ms / 1000, 3),
             "known_findings_hit": sorted(printed), "bounded": bounded}
    _write_evidence(prop, args.tier, seed, t0, results, cmod, n_ob=n_ob, n_dis=n_dis, samples=samples,
                    trusted=trusted, extra=extra, violations=len(lines))
    for ln in dict.fromkeys(lines):
        print(ln)
    for a, b in undecided[:10]:
        print(f"UNDECIDED property={prop} reason={a}: {b}")
    for a, b in errors[:5]:
        print(f"CHECKER-ERROR {a}: {b}")
    for v in vacuous[:5]:
        print(f"CHECKER-ERROR vacuous assumption set: {v}")
    if n_ob == 0 and not undecided and not errors:
        print("CHECKER-ERROR zero obligations generated")
    print(f"[{prop}] tier={args.tier} units={len(results)} obligations={n_ob} discharged={n_dis} "
          f"failed={len(failed)} known={len(printed)} undecided={len(undecided)} covers={covers} "
          f"wall={time.time() - t0:.1f}s exit={exit_code}")
    if args.verbose:
        for r, ob in failed:
            print("  FAILED", ob["name"], ob["status"], ob.get("detail", ""), json.dumps(ob.get("witness"), default=str)[:600])
    return exit_code


def _match_known(k, ob):
    pat = k.get("obligation")
    if not pat:
        return False
    if isinstance(pat, str):
        pat = [pat]
    if not any(p in ob["name"] for p in pat):
        return False
    det = k.get("detail_contains")
    if det and det not in (ob.get("detail") or ""):
        return False
    return True


def _slug(s):
    return "".join(c if c.isalnum() or c in "-_." else "_" for c in s)[:120]


def _write_replay(prop, r, ob, cmod):
    """replay the verifier's counterexample on the real code where the contract module knows how"""
    base = _slug(ob["name"].split("/", 1)[-1] if ob["name"].startswith(r["instance"]) else ob["name"])
    rel = os.path.join("replays", prop, _slug(r["instance"])[:70] + "__" + base[-80:] + "_" + ob.get("path", "")[:24] + ".json")
    doc = {"property": prop, "obligation": ob["name"], "unit": r["instance"], "case": r["case"],
           "status": ob["status"], "backend": ob["backend"], "detail": ob.get("detail", ""),
           "witness": ob.get("witness"), "path": ob.get("path"),
           "solver_output": (ob.get("smt2") or "")[:6000],
           "repo": shadow.repo_root(), "rerun": f"./check {prop} --replay {rel}"}
    confirmed = False
    if hasattr(cmod, "replay_witness"):
        try:
            rr = cmod.replay_witness(r["unit"], r["case"], ob)
            doc["replay"] = rr
            confirmed = bool(rr and rr.get("reproduced"))
        except Exception:  # noqa: BLE001
            doc["replay"] = {"reproduced": False, "error": traceback.format_exc(limit=6)}
    else:
        doc["replay"] = {"reproduced": False, "note": "no concrete replay harness for this obligation"}
    json.dump(doc, open(os.path.join(OUT, rel), "w"), indent=1, default=str)
    return rel, confirmed


def _write_evidence(prop, tier, seed, t0, results, cmod, n_ob=0, n_dis=0, samples=(), trusted=(), extra=None,
                    violations=0):
    from claims import CLAIMS
    level = CLAIMS.get(prop, {}).get("category", "other")
    fuc = {}
    for u in U.REGISTRY.get(prop, []):
        for q in u.fuc:
            try:
                h, line, path = shadow.function_source_hash(q)
                fuc[q] = {"sha256_16": h, "line": line}
            except Exception as e:  # noqa: BLE001
                fuc[q] = {"error": str(e)}
    files = {k[len(shadow.PKG):] or "/": v[1][:16] for k, v in sorted(shadow.SOURCES.items())}
    cov = {
        "obligations": n_ob, "discharged": n_dis,
        "checker_cmd": f"./check {prop} --tier {tier}",
        "trusted_base": sorted(trusted) + list(getattr(cmod, "TRUSTED", [])),
        "functions_under_contract": fuc,
        "explanation": getattr(cmod, "EXPLANATION", ""),
        "samples": list(samples) or [{"note": "no discharged obligation carried an SMT-LIB dump in this run"}],
        "source_files_sha256_16": files,
        "dropped_by_extraction": ["logging calls (null logger)", "annotations and docstrings (not evaluated)",
                                   "termination (not proved)"],
        "encoding": ["python int = mathematical integer", "float64 = mathematical real (no rounding, NaN, inf)",
                     "basic slices are views for stores and in-place operations made through them (write-through); a store into the array after a slice was taken is not seen by the slice", "z3 5.1 primary, cvc5 1.0.3 for z3's unknowns"],
        "not_decided": list(getattr(cmod, "NOT_DECIDED", [])),
        "evaluations": n_ob, "distinct_nontrivial": n_dis,
        "rule": "one evaluation = one named proof obligation generated from the current source; distinct_nontrivial = "
                "obligations discharged (unsat) by a back end; covers and canaries are not counted",
    }
    if extra:
        cov.update(extra)
    ev = {"property_id": prop, "tier": tier if tier in ("quick", "thorough") else "quick", "seed": seed, "level": level,
          "coverage": cov,
          "assumptions": sorted(set(sorted(trusted) + list(getattr(cmod, "TRUSTED", [])) + list(getattr(cmod, "ASSUMPTIONS", []))
                                    + ["float64 treated as mathematical reals", "python int treated as mathematical integers", "termination not proved"])),
          "wall_s": round(time.time() - t0, 2), "violations": violations}
    os.makedirs(os.path.join(OUT, "evidence"), exist_ok=True)
    with open(os.path.join(OUT, "evidence", f"{prop}.json"), "w") as f:
        json.dump(ev, f, indent=1, default=str)


if __name__ == "__main__":
    try:
        rc = main()
    except SystemExit:
        raise
    except Exception:  # noqa: BLE001
        traceback.print_exc()
        print("CHECKER-ERROR crash in the driver")
        rc = 3
    sys.exit(rc)
