"""Array proxies: symbolic shape (concrete rank), lazy element function over z3 index terms.

Semantics assumed: float64 = mathematical real, integer dtypes = mathematical int; basic slices are *copies*
(value semantics at slicing time) except for the explicit write-through views defined here; indexing out of
bounds raises IndexError on a forked path exactly like numpy does.
"""
from __future__ import annotations

import z3

from . import core
from .core import SArrBase, SBool, SNum, Ctx, Unsupported, to_term, tob, const_value, num


# --------------------------------------------------------------------------------------------------------
# helpers
# --------------------------------------------------------------------------------------------------------

def dim_term(d):
    return d.t if isinstance(d, SNum) else z3.IntVal(int(d))


def dim_const(d):
    if isinstance(d, SNum):
        v = const_value(d.t)
        return v if isinstance(v, int) and not isinstance(v, bool) else None
    return int(d)


def same_dim(a, b, what="operands could not be broadcast together"):
    """True iff equal; raises ValueError on the path where they differ (numpy behaviour)"""
    ca, cb = dim_const(a), dim_const(b)
    if ca is not None and cb is not None:
        if ca != cb:
            raise ValueError(what)
        return True
    ta, tb = dim_term(a), dim_term(b)
    if ta.eq(tb):
        return True
    if not Ctx.cur.branch(ta == tb):
        raise ValueError(what)
    return True


def norm_dim(d):
    c = dim_const(d)
    return c if c is not None else d


def ival(i):
    return z3.IntVal(i)


def as_sort(term, kind):
    if kind == "f":
        return core.to_real(term) if term.sort().kind() in (z3.Z3_INT_SORT, z3.Z3_REAL_SORT) else term
    return term


def fresh_elem_fn(ctx, hint, rank, kind):
    rng = {"f": z3.RealSort(), "i": z3.IntSort(), "b": z3.BoolSort()}[kind]
    f = ctx.fresh_fn(hint, *([z3.IntSort()] * rank + [rng]))
    return f


def bound_vars(names):
    return [z3.Int(n) for n in names]


def in_range(i, n):
    return z3.And(i >= 0, i < dim_term(n))


def forall(vars_, body, patterns=()):
    vars_ = list(vars_)
    if not vars_:
        return body
    if patterns:
        return z3.ForAll(vars_, body, patterns=list(patterns))
    return z3.ForAll(vars_, body)


_bv_counter = [0]


def bv(hint="i"):
    """a fresh bound-variable constant (unique name so nested quantifiers never capture)"""
    _bv_counter[0] += 1
    return z3.Int(f"{hint}?{_bv_counter[0]}")


# --------------------------------------------------------------------------------------------------------
# SArr
# --------------------------------------------------------------------------------------------------------

class SArr(SArrBase):
    __slots__ = ("shape", "_elem", "kind", "origin", "mask_of", "dtype_name", "_sorted_meta", "meta", "_view_of")
    __array_priority__ = 2000

    def __init__(self, shape, elem, kind="f", origin=None, dtype_name=None):
        self.shape = tuple(norm_dim(s) for s in shape)
        self._elem = elem
        self.kind = kind
        self.origin = origin
        self.mask_of = None  # (base, mask) when produced by boolean-mask indexing
        self.dtype_name = dtype_name or {"f": "float64", "i": "int64", "b": "bool"}[kind]
        self.meta = {}
        self._view_of = None

    # -- constructors ----------------------------------------------------------------------------------
    @classmethod
    def fresh(cls, ctx, hint, shape, kind="f", register=False):
        shape = tuple(shape)
        f = fresh_elem_fn(ctx, hint, len(shape), kind)
        a = cls(shape, lambda *idx: f(*idx), kind, origin=hint)
        a.meta["fn"] = f
        if register:
            ctx.inputs[hint] = ("arr", a)
        return a

    @classmethod
    def const(cls, shape, value, kind=None):
        t = tob(value) if isinstance(value, (bool, SBool)) else to_term(value)
        if kind is None:
            kind = "b" if t.sort().kind() == z3.Z3_BOOL_SORT else ("i" if core._is_int(t) else "f")
        if kind == "f":
            t = core.to_real(t)
        return cls(shape, lambda *idx: t, kind)

    @classmethod
    def from_concrete(cls, arr):
        import numpy as np
        arr = np.asarray(arr)
        if arr.dtype.kind == "b":
            kind = "b"
        elif arr.dtype.kind in "iu":
            kind = "i"
        elif arr.dtype.kind == "f":
            kind = "f"
        else:
            raise Unsupported(f"concrete array of dtype {arr.dtype} mixed with symbolic values")
        if arr.size > 64:
            raise Unsupported("large concrete array mixed with symbolic values")
        shape = arr.shape
        flat = [tob(bool(v)) if kind == "b" else to_term(v.item()) for v in arr.reshape(-1)]
        if kind == "f":
            flat = [core.to_real(t) for t in flat]

        def elem(*idx):
            if not flat:
                return {"f": z3.RealVal(0), "i": z3.IntVal(0), "b": z3.BoolVal(False)}[kind]
            # row-major linear index
            lin = z3.IntVal(0)
            for i, s in zip(idx, shape):
                lin = lin * s + i
            lin = z3.simplify(lin)
            if z3.is_int_value(lin):
                k = lin.as_long()
                return flat[k] if 0 <= k < len(flat) else flat[0]
            e = flat[-1]
            for k in range(len(flat) - 2, -1, -1):
                e = z3.If(lin == k, flat[k], e)
            return e
        return cls(shape, elem, kind)

    # -- basics ----------------------------------------------------------------------------------------
    @property
    def ndim(self):
        return len(self.shape)

    @property
    def size(self):
        r = 1
        for s in self.shape:
            r = r * s
        return r

    @property
    def dtype(self):
        import numpy as np
        return np.dtype(self.dtype_name)

    def elem(self, *idx):
        idx = [i.t if isinstance(i, SNum) else (z3.IntVal(i) if isinstance(i, int) else i) for i in idx]
        if len(idx) != len(self.shape):
            raise Unsupported("element access with wrong number of indices")
        return self._elem(*idx)

    def at(self, *idx):
        """proxy scalar of an element (no bounds check; for specifications)"""
        t = self.elem(*idx)
        return SBool(t) if self.kind == "b" else SNum(t)

    def __len__(self):
        # CPython's len() needs a real int; the shadow transform rebinds len() to vc_len
        if not self.shape:
            raise TypeError("len() of unsized object")
        c = dim_const(self.shape[0])
        if c is None:
            raise Unsupported("len() of a symbolic array reached CPython (len must be rebound)")
        return c

    def vc_len(self):
        if not self.shape:
            raise TypeError("len() of unsized object")
        return self.shape[0] if isinstance(self.shape[0], int) else self.shape[0]

    def __iter__(self):
        n = dim_const(self.shape[0]) if self.shape else None
        if n is None and self.shape and Ctx.cur is not None:
            # the length may be fixed by the path condition (e.g. inside `if a.shape[0] == 3:`): ask for a value and prove it
            ctx = Ctx.cur
            try:
                s = ctx.solver
                s.push()
                s.set("timeout", core.FEAS_TIMEOUT_MS)
                cand = None
                if s.check() == z3.sat:
                    v = s.model().eval(dim_term(self.shape[0]), model_completion=True)
                    cand = v.as_long() if z3.is_int_value(v) else None
                s.pop()
            except Exception:  # noqa: BLE001
                cand = None
            if cand is not None and 0 <= cand <= 64 and ctx.probe(SBool(dim_term(self.shape[0]) == cand)):
                n = cand
        if n is None:
            raise Unsupported("iteration over an array of symbolic length outside a cut loop")
        return iter([self[i] for i in range(n)])

    def __bool__(self):
        if self.ndim == 0:
            return bool(self.item())
        raise ValueError("The truth value of an array with more than one element is ambiguous")

    def item(self):
        if self.ndim != 0:
            raise Unsupported(".item() on non-scalar array")
        t = self._elem()
        return SBool(t) if self.kind == "b" else SNum(t)

    def copy(self):
        old = self._elem
        r = SArr(self.shape, old, self.kind, self.origin, self.dtype_name)
        r.meta = dict(self.meta)
        return r

    def astype(self, dtype, copy=True):
        import numpy as np
        from .builtins_shim import REAL_TYPES, _hashable
        if _hashable(dtype):
            dtype = REAL_TYPES.get(dtype, dtype)
        k = np.dtype(dtype).kind
        kind = {"f": "f", "i": "i", "u": "i", "b": "b"}.get(k)
        if kind is None:
            raise Unsupported(f"astype({dtype})")
        if kind == self.kind and not copy and np.dtype(dtype).name == self.dtype_name:
            return self         # numpy: astype(copy=False) of an array that already has the dtype returns the array itself
        if kind == self.kind:
            r = self.copy()
            r.dtype_name = np.dtype(dtype).name
            bits = {"int8": 8, "int16": 16, "int32": 32}.get(r.dtype_name)
            if bits is not None and kind == "i" and self.dtype_name != r.dtype_name:
                half, full, old0 = 2 ** (bits - 1), 2 ** bits, self._elem
                r._elem = lambda *i: ((old0(*i) + half) % full) - half     # numpy integer casts wrap around
            return r
        old = self._elem
        if self.kind == "i" and kind == "f":
            r = SArr(self.shape, lambda *i: z3.ToReal(old(*i)), "f", dtype_name=np.dtype(dtype).name)
            r.meta = dict(self.meta)
            return r
        if self.kind == "b" and kind in "fi":
            one, zero = (z3.RealVal(1), z3.RealVal(0)) if kind == "f" else (z3.IntVal(1), z3.IntVal(0))
            return SArr(self.shape, lambda *i: z3.If(old(*i), one, zero), kind, dtype_name=np.dtype(dtype).name)
        if self.kind == "f" and kind == "i":
            # truncation toward zero
            def el(*i):
                v = old(*i)
                return z3.If(v >= 0, z3.ToInt(v), -z3.ToInt(-v))
            return SArr(self.shape, el, "i", dtype_name=np.dtype(dtype).name)
        raise Unsupported(f"astype {self.kind}->{kind}")

    def view(self, *a, **k):
        raise Unsupported("ndarray.view on symbolic array")

    def tolist(self):
        if self.ndim == 0:
            return self.item()
        return SList.from_array(self)

    def flatten(self):
        if self.ndim == 1:
            return self.copy()
        if self.ndim == 2:
            r, c = self.shape
            cc = dim_const(c)
            if cc is None:
                raise Unsupported("flatten with symbolic inner dimension")
            old = self._elem
            return SArr((r * cc,), lambda t: old(t / cc, t % cc), self.kind)
        raise Unsupported("flatten rank>2")

    ravel = flatten

    def squeeze(self):
        keep = [k for k, s in enumerate(self.shape) if dim_const(s) != 1]
        for k, s in enumerate(self.shape):
            if dim_const(s) is None and k not in keep:
                keep.append(k)
        # symbolic dims are kept (cannot know whether they are 1)
        if any(dim_const(self.shape[k]) is None for k in keep):
            # numpy squeezes dims equal to 1: fork on each symbolic dim
            for k in list(keep):
                s = self.shape[k]
                if dim_const(s) is None and Ctx.cur.branch(dim_term(s) == 1):
                    keep.remove(k)
        old = self._elem
        shape = self.shape

        def el(*idx):
            full, it = [], iter(idx)
            for k in range(len(shape)):
                full.append(next(it) if k in keep else z3.IntVal(0))
            return old(*full)
        return SArr(tuple(shape[k] for k in sorted(keep)), el, self.kind)

    @property
    def T(self):
        if self.ndim < 2:
            return self
        old = self._elem
        return SArr(tuple(reversed(self.shape)), lambda *i: old(*reversed(i)), self.kind)

    def transpose(self):
        return self.T

    def reshape(self, *shape):
        from . import npshim
        return npshim.reshape(self, *shape)

    # -- indexing --------------------------------------------------------------------------------------
    def _norm_index(self, i, n):
        """normalise one integer index against extent n; raises IndexError on the out-of-bounds path"""
        if isinstance(i, (int,)) and not isinstance(i, bool) and dim_const(n) is not None:
            nn = dim_const(n)
            j = i + nn if i < 0 else i
            if not 0 <= j < nn:
                raise IndexError("index out of bounds")
            return z3.IntVal(j)
        it = to_term(i)
        nt = dim_term(n)
        ci = const_value(it)
        if isinstance(ci, int):
            j = it + nt if ci < 0 else it
        else:
            j = z3.If(it < 0, it + nt, it)
        j = z3.simplify(j)
        if not Ctx.cur.branch(z3.And(j >= 0, j < nt)):
            raise IndexError("index out of bounds")
        return j

    @staticmethod
    def _slice_bounds(sl, n):
        if sl.step not in (None, 1):
            raise Unsupported("slice with step")
        nt = dim_term(n)

        def clip(v, default):
            if v is None:
                return default
            vt = to_term(v)
            c = const_value(vt)
            if isinstance(c, int):
                vt = vt + nt if c < 0 else vt
            else:
                vt = z3.If(vt < 0, vt + nt, vt)
            return z3.If(vt < 0, z3.IntVal(0), z3.If(vt > nt, nt, vt))
        lo = clip(sl.start, z3.IntVal(0))
        hi = clip(sl.stop, nt)
        length = z3.simplify(z3.If(hi > lo, hi - lo, z3.IntVal(0)))
        return z3.simplify(lo), length

    def __getitem__(self, key):
        if isinstance(key, str):
            raise ValueError(f"no field of name {key}")
        if not isinstance(key, tuple):
            key = (key,)
        if any(k is Ellipsis for k in key):
            raise Unsupported("Ellipsis index")
        n_real = sum(1 for k in key if k is not None)
        if n_real > self.ndim:
            raise IndexError("too many indices for array")
        key = tuple(key) + (slice(None),) * (self.ndim - n_real)
        fancy = [k for k in key if isinstance(k, (list, SArr, SList)) or _is_np_array(k)]
        if fancy:
            return self._fancy(key)
        # basic indexing
        out_shape, plan, axis = [], [], 0
        for k in key:
            if k is None:
                out_shape.append(1)
                plan.append(("new",))
                continue
            n = self.shape[axis]
            if isinstance(k, slice):
                if k == slice(None):
                    out_shape.append(n)
                    plan.append(("all",))
                else:
                    lo, ln = self._slice_bounds(k, n)
                    c = const_value(ln)
                    out_shape.append(c if isinstance(c, int) else SNum(ln))
                    plan.append(("off", lo))
            else:
                plan.append(("fix", self._norm_index(k, n)))
            axis += 1
        old = self._elem

        def el(*idx):
            it = iter(idx)
            full = []
            for p in plan:
                if p[0] == "new":
                    next(it)
                elif p[0] == "all":
                    full.append(next(it))
                elif p[0] == "off":
                    full.append(p[1] + next(it))
                else:
                    full.append(p[1])
            return old(*full)
        if not out_shape:
            t = el()
            return SBool(t) if self.kind == "b" else SNum(t)
        r = SArr(tuple(out_shape), el, self.kind, dtype_name=self.dtype_name)
        # numpy: basic indexing returns a *view* - a later store or in-place operation on it changes this array as well
        # (write-through is modelled; a later store into this array is not seen by the view: views are read at slicing time)
        r._view_of = (self, key)
        return r

    def _write_through(self):
        v = getattr(self, "_view_of", None)
        if v is not None:
            base, key = v
            snap = SArr(self.shape, self._elem, self.kind, dtype_name=self.dtype_name)
            base[key] = snap

    def _fancy(self, key):
        # supported shapes of advanced indexing (all that the repository uses):
        #  (1) a[mask]            boolean mask over axis 0
        #  (2) a[idx]             integer array (any rank) over axis 0
        #  (3) a[:, idx] / a[idx] with list/1-d int array on one axis, slices elsewhere
        #  (4) a[:, i1, i2]       two 1-d integer index arrays of equal length on adjacent axes
        conv = []
        for k in key:
            if isinstance(k, list):
                k = SArr.from_list(k)
            elif isinstance(k, SList):
                k = k.to_array()
            elif _is_np_array(k):
                k = SArr.from_concrete(k)
            conv.append(k)
        adv = [(ax, k) for ax, k in enumerate(conv) if isinstance(k, SArr)]
        if any(k is None for k in conv):
            raise Unsupported("newaxis mixed with advanced indexing")
        for ax, k in enumerate(conv):
            if not isinstance(k, SArr) and k != slice(None):
                raise Unsupported("advanced indexing mixed with integer or partial slice")
        old = self._elem
        if len(adv) == 1:
            ax, idx = adv[0]
            if idx.kind == "b":
                if ax == 0 and idx.ndim == 2 and self.ndim >= 2:
                    # a[mask2d] = a[i1, i2] with (i1, i2) = np.nonzero(mask2d): the selected cells in C order
                    from . import npshim
                    r1, r2 = npshim.nonzero(idx)
                    return self[(r1, r2) + (slice(None),) * (self.ndim - 2)]
                if ax != 0 or idx.ndim != 1:
                    raise Unsupported("boolean mask on axis != 0")
                return mask_select(self, idx)
            if idx.kind != "i":
                raise IndexError("arrays used as indices must be of integer (or boolean) type")
            n = self.shape[ax]
            nt = dim_term(n)
            # bounds: every index must be valid, otherwise IndexError
            _check_index_array(idx, n)
            ie = idx._elem
            k = idx.ndim
            shape = self.shape[:ax] + idx.shape + self.shape[ax + 1:]

            def el(*i):
                pre, mid, post = i[:ax], i[ax:ax + k], i[ax + k:]
                j = ie(*mid)
                j = z3.If(j < 0, j + nt, j)
                return old(*pre, j, *post)
            return SArr(shape, el, self.kind, dtype_name=self.dtype_name)
        if len(adv) == 2 and adv[1][0] == adv[0][0] + 1:
            (ax, i1), (_, i2) = adv
            if i1.ndim != 1 or i2.ndim != 1 or i1.kind != "i" or i2.kind != "i":
                raise Unsupported("pair of advanced indices that are not 1-d integer arrays")
            # numpy broadcasts the two index arrays against each other
            l1, l2 = i1.shape[0], i2.shape[0]
            if dim_const(l1) == 1 and dim_const(l2) != 1:
                l = l2
            elif dim_const(l2) == 1 and dim_const(l1) != 1:
                l = l1
            else:
                same_dim(l1, l2, "shape mismatch: indexing arrays could not be broadcast together")
                l = l1
            _check_index_array(i1, self.shape[ax])
            _check_index_array(i2, self.shape[ax + 1])
            e1, e2 = i1._elem, i2._elem
            b1 = dim_const(l1) == 1 and dim_const(l) != 1
            b2 = dim_const(l2) == 1 and dim_const(l) != 1
            shape = self.shape[:ax] + (l,) + self.shape[ax + 2:]

            def el(*i):
                pre, t, post = i[:ax], i[ax], i[ax + 1:]
                return old(*pre, e1(z3.IntVal(0) if b1 else t), e2(z3.IntVal(0) if b2 else t), *post)
            return SArr(shape, el, self.kind, dtype_name=self.dtype_name)
        raise Unsupported("this combination of advanced indices")

    @classmethod
    def from_list(cls, items):
        items = list(items)
        if not items:
            return cls((0,), lambda t: z3.RealVal(0), "f")
        if all(isinstance(x, (list, tuple)) for x in items):
            rows = [cls.from_list(r) for r in items]
            return stack_rows(rows)
        terms = [tob(x) if isinstance(x, (bool, SBool)) else to_term(x) for x in items]
        if all(t.sort().kind() == z3.Z3_BOOL_SORT for t in terms):
            kind = "b"
        elif all(core._is_int(t) for t in terms):
            kind = "i"
        else:
            kind = "f"
            terms = [core.to_real(to_term(x)) for x in items]

        def el(t):
            t = z3.simplify(t)
            if z3.is_int_value(t):
                k = t.as_long()
                return terms[k] if 0 <= k < len(terms) else terms[0]
            e = terms[-1]
            for k in range(len(terms) - 2, -1, -1):
                e = z3.If(t == k, terms[k], e)
            return e
        return cls((len(terms),), el, kind)

    def __setitem__(self, key, value):
        if not isinstance(key, tuple):
            key = (key,)
        if any(k is Ellipsis or k is None for k in key):
            raise Unsupported("Ellipsis/newaxis in assignment")
        if len(key) > self.ndim:
            raise IndexError("too many indices for array")
        key = tuple(key) + (slice(None),) * (self.ndim - len(key))
        if any(isinstance(k, (list, SArr)) or _is_np_array(k) for k in key):
            if len(key) == 1 and isinstance(key[0], SArr) and key[0].kind == "b" and self.ndim == 1:
                m = key[0]
                same_dim(m.shape[0], self.shape[0], "boolean index did not match")
                old, me = self._elem, m._elem
                if isinstance(value, SArrBase):
                    raise Unsupported("masked assignment of an array")
                vt = as_sort(to_term(value), self.kind)
                self._elem = lambda t: z3.If(me(t), vt, old(t))
                self._write_through()
                return
            raise Unsupported("advanced-index assignment")
        conds, free_axes, axis = [], [], 0
        plan = []
        for k in key:
            n = self.shape[axis]
            if isinstance(k, slice):
                if k == slice(None):
                    plan.append(("all", axis))
                    free_axes.append((axis, n, None))
                else:
                    lo, ln = self._slice_bounds(k, n)
                    plan.append(("off", axis, lo, ln))
                    c = const_value(ln)
                    free_axes.append((axis, c if isinstance(c, int) else SNum(ln), lo))
            else:
                plan.append(("fix", axis, self._norm_index(k, n)))
            axis += 1
        sub_shape = tuple(n for _, n, _ in free_axes)
        # value: scalar or array broadcastable to sub_shape
        if isinstance(value, SArrBase) or _is_np_array(value) or isinstance(value, (list, tuple)):
            if not isinstance(value, SArr):
                value = SArr.from_concrete(value) if _is_np_array(value) else SArr.from_list(value)
            v = broadcast_to(value, sub_shape, what="could not broadcast input array")
            ve = v._elem
            vkind = v.kind
        else:
            vt = tob(value) if self.kind == "b" else to_term(value)
            ve = lambda *i: vt  # noqa: E731
            vkind = "b" if self.kind == "b" else ("i" if core._is_int(vt) else "f")
        if self.kind == "i" and vkind == "f":
            # numpy casts silently on assignment (same_kind is not enforced for item assignment): the fraction is cut off
            # towards zero
            vf = ve

            def ve(*i, _vf=vf):  # noqa: E731
                x = core.to_real(_vf(*i))
                return z3.If(x >= 0, z3.ToInt(x), -z3.ToInt(-x))
        old = self._elem
        kind = self.kind
        bits = {"int8": 8, "int16": 16, "int32": 32}.get(self.dtype_name)
        if bits is not None and kind == "i":
            # numpy casts silently on assignment: values wrap around modulo 2**bits
            half, full, ve0 = 2 ** (bits - 1), 2 ** bits, ve
            ve = lambda *i: ((ve0(*i) + half) % full) - half  # noqa: E731

        def el(*idx):
            cs, sub = [], []
            for p in plan:
                a = p[1]
                if p[0] == "all":
                    sub.append(idx[a])
                elif p[0] == "off":
                    cs.append(z3.And(idx[a] >= p[2], idx[a] < p[2] + p[3]))
                    sub.append(idx[a] - p[2])
                else:
                    cs.append(idx[a] == p[2])
            newv = as_sort(ve(*sub), kind)
            if kind == "f" and vkind == "b":
                raise Unsupported("bool into float array")
            return z3.If(z3.And(cs), newv, old(*idx)) if cs else newv
        self._elem = el
        self._write_through()

    # -- arithmetic ------------------------------------------------------------------------------------
    def _ew(self, o, f, kind=None, swap=False):
        """element-wise binary op with numpy broadcasting"""
        if isinstance(o, (list, tuple)):
            o = SArr.from_list(o)
        elif _is_np_array(o):
            o = SArr.from_concrete(o) if o.ndim else o.item()
        elif hasattr(o, "materialise") and not isinstance(o, SArr):
            o = o.materialise()          # a view object of the numpy shim: use its current values
        if isinstance(o, SArr):
            shape = broadcast_shapes(self.shape, o.shape)
            a = broadcast_to(self, shape)
            b = broadcast_to(o, shape)
            ae, be = a._elem, b._elem
            rk = kind or _join_kind(self.kind, o.kind)
            if swap:
                ae, be = be, ae
            return SArr(shape, lambda *i: f(*_co(ae(*i), be(*i))), rk)
        if isinstance(o, SArrBase):
            return NotImplemented
        if o is None or isinstance(o, str):
            return NotImplemented
        ot = tob(o) if (self.kind == "b" and isinstance(o, (bool, SBool))) else to_term(o)
        ae = self._elem
        okind = "b" if ot.sort().kind() == z3.Z3_BOOL_SORT else ("i" if core._is_int(ot) else "f")
        rk = kind or _join_kind(self.kind, okind)
        if swap:
            r = SArr(self.shape, lambda *i: f(*_co(ot, ae(*i))), rk)
        else:
            r = SArr(self.shape, lambda *i: f(*_co(ae(*i), ot)), rk)
        if self.mask_of is not None:
            # an element-wise operation with a scalar commutes with boolean-mask selection
            base, mask, sel, inv = self.mask_of
            be = base._elem
            if swap:
                nb_ = SArr(base.shape, lambda *i: f(*_co(ot, be(*i))), rk)
            else:
                nb_ = SArr(base.shape, lambda *i: f(*_co(be(*i), ot)), rk)
            r.mask_of = (nb_, mask, sel, inv)
        return r

    def __add__(self, o):
        return self._ew(o, lambda a, b: a + b)

    def __radd__(self, o):
        return self._ew(o, lambda a, b: a + b, swap=True)

    def __sub__(self, o):
        return self._ew(o, lambda a, b: a - b)

    def __rsub__(self, o):
        return self._ew(o, lambda a, b: a - b, swap=True)

    def __mul__(self, o):
        return self._ew(o, lambda a, b: a * b)

    def __rmul__(self, o):
        return self._ew(o, lambda a, b: a * b, swap=True)

    def __truediv__(self, o):
        return self._ew(o, lambda a, b: core.to_real(a) / core.to_real(b), kind="f")

    def __rtruediv__(self, o):
        return self._ew(o, lambda a, b: core.to_real(a) / core.to_real(b), kind="f", swap=True)

    def __mod__(self, o):
        return self._ew(o, lambda a, b: core._mod(a, b).t)

    def __pow__(self, o):
        e = const_value(to_term(o)) if not isinstance(o, SArrBase) else None
        if isinstance(e, int) and 0 <= e <= 4:
            old = self._elem

            def el(*i):
                v = old(*i)
                r = z3.RealVal(1) if self.kind == "f" else z3.IntVal(1)
                for _ in range(e):
                    r = r * v
                return r
            return SArr(self.shape, el, self.kind)
        from . import realfn
        return realfn.power(self, o)

    def __rpow__(self, o):
        from . import realfn
        return realfn.power(o, self)

    def __neg__(self):
        old = self._elem
        return SArr(self.shape, lambda *i: -old(*i), self.kind)

    def __abs__(self):
        old = self._elem

        def el(*i):
            v = old(*i)
            return z3.If(v >= 0, v, -v)
        return SArr(self.shape, el, self.kind)

    def _inplace(self, r):
        if r is NotImplemented:
            return r
        same_shape(self.shape, r.shape)
        if self.kind == "i" and r.kind == "f":
            raise TypeError("Cannot cast ufunc output from float64 to int64")
        e = r._elem
        self._elem = (lambda *i: core.to_real(e(*i))) if (self.kind == "f" and r.kind == "i") else e
        self._write_through()
        return self

    def __iadd__(self, o):
        return self._inplace(self + o)

    def __isub__(self, o):
        return self._inplace(self - o)

    def __imul__(self, o):
        return self._inplace(self * o)

    def __itruediv__(self, o):
        before = self.copy()
        r = self._inplace(self / o)
        if r is not NotImplemented and not isinstance(o, SArrBase):
            # ghost provenance for specifications: this array is `before / o`
            self.meta["before_division"] = before
            self.meta["divided_by"] = core.to_real(to_term(o))
        return r

    def _cmp(self, o, f):
        return self._ew(o, f, kind="b")

    def __lt__(self, o):
        return self._cmp(o, lambda a, b: a < b)

    def __le__(self, o):
        return self._cmp(o, lambda a, b: a <= b)

    def __gt__(self, o):
        return self._cmp(o, lambda a, b: a > b)

    def __ge__(self, o):
        return self._cmp(o, lambda a, b: a >= b)

    def __eq__(self, o):
        if o is None or isinstance(o, str):
            return False
        return self._cmp(o, lambda a, b: a == b)

    def __ne__(self, o):
        if o is None or isinstance(o, str):
            return True
        return self._cmp(o, lambda a, b: a != b)

    __hash__ = None

    def __and__(self, o):
        return self._ew(o, lambda a, b: z3.And(a, b), kind="b")

    __rand__ = __and__

    def __or__(self, o):
        return self._ew(o, lambda a, b: z3.Or(a, b), kind="b")

    __ror__ = __or__

    def __invert__(self):
        if self.kind != "b":
            raise Unsupported("~ on non-boolean array")
        old = self._elem
        return SArr(self.shape, lambda *i: z3.Not(old(*i)), "b")

    # -- reductions (delegated) ------------------------------------------------------------------------
    def sum(self, axis=None, **kw):
        from . import npshim
        return npshim.sum_(self, axis=axis)

    def min(self, axis=None):
        from . import npshim
        return npshim.amin(self, axis=axis)

    def max(self, axis=None):
        from . import npshim
        return npshim.amax(self, axis=axis)

    def any(self, axis=None):
        from . import npshim
        return npshim.any_(self, axis=axis)

    def all(self, axis=None):
        from . import npshim
        return npshim.all_(self, axis=axis)

    def tofile(self, f, *a, **k):
        from . import fsmodel
        return fsmodel.array_tofile(self, f)

    def __repr__(self):
        return f"SArr(shape={self.shape}, kind={self.kind})"

    def __vc_concretise__(self, model):
        from . import solve
        return solve.concretise(self, model)


def _is_np_array(x):
    try:
        import numpy as np
        return isinstance(x, np.ndarray)
    except ImportError:  # pragma: no cover
        return False


def _co(a, b):
    ka, kb = a.sort().kind(), b.sort().kind()
    if ka == z3.Z3_BOOL_SORT and kb != z3.Z3_BOOL_SORT:
        a = z3.If(a, z3.IntVal(1), z3.IntVal(0))
    if kb == z3.Z3_BOOL_SORT and ka != z3.Z3_BOOL_SORT:
        b = z3.If(b, z3.IntVal(1), z3.IntVal(0))
    if a.sort().kind() == z3.Z3_BOOL_SORT:
        return a, b
    return core._coerce(a, b)


def _join_kind(a, b):
    if a == "f" or b == "f":
        return "f"
    if a == "i" or b == "i":
        return "i"
    return "i"  # bool (+) bool -> int


def same_shape(a, b, what="operands could not be broadcast together"):
    if len(a) != len(b):
        raise ValueError(what)
    for x, y in zip(a, b):
        same_dim(x, y, what)


def broadcast_shapes(a, b):
    la, lb = len(a), len(b)
    n = max(la, lb)
    a = (1,) * (n - la) + tuple(a)
    b = (1,) * (n - lb) + tuple(b)
    out = []
    for x, y in zip(a, b):
        cx, cy = dim_const(x), dim_const(y)
        if cx == 1 and cy != 1:
            out.append(y)
        elif cy == 1 and cx != 1:
            out.append(x)
        elif (cx is None or cy is None) and not dim_term(x).eq(dim_term(y)):
            # symbolic extents: equal, or one of them is 1 (numpy stretches it), otherwise numpy raises
            ctx = Ctx.cur
            tx, ty = dim_term(x), dim_term(y)
            if ctx.branch(tx == ty):
                out.append(x)
            elif ctx.branch(tx == 1):
                out.append(y)
            elif ctx.branch(ty == 1):
                out.append(x)
            else:
                raise ValueError("operands could not be broadcast together")
        else:
            same_dim(x, y)
            out.append(x if cx is None else (x if cy is None else x))
    return tuple(out)


def broadcast_to(arr, shape, what="operands could not be broadcast together"):
    shape = tuple(shape)
    if len(arr.shape) > len(shape):
        raise ValueError(what)
    pad = len(shape) - len(arr.shape)
    ashape = (1,) * pad + tuple(arr.shape)
    stretch = []
    for x, y in zip(ashape, shape):
        if dim_const(x) == 1 and dim_const(y) != 1:
            stretch.append(True)
        elif dim_const(x) is None and not dim_term(x).eq(dim_term(y)) and not Ctx.cur.branch(dim_term(x) == dim_term(y)):
            # a symbolic extent that differs from the target: it is stretched iff it is 1
            if not Ctx.cur.branch(dim_term(x) == 1):
                raise ValueError(what)
            stretch.append(True)
        else:
            same_dim(x, y, what)
            stretch.append(False)
    if pad == 0 and not any(stretch):
        return arr
    old = arr._elem

    def el(*idx):
        sub = [z3.IntVal(0) if st else i for i, st in zip(idx, stretch)][pad:]
        return old(*sub)
    return SArr(shape, el, arr.kind, dtype_name=arr.dtype_name)


def stack_rows(rows):
    """list of equal-length 1-d arrays -> 2-d array (row k = rows[k])"""
    n = rows[0].shape[0]
    for r in rows[1:]:
        same_dim(r.shape[0], n, "setting an array element with a sequence (inhomogeneous shape)")
    kind = "f" if any(r.kind == "f" for r in rows) else rows[0].kind
    els = [r._elem for r in rows]

    def el(k, t):
        k = z3.simplify(k)
        if z3.is_int_value(k):
            kk = k.as_long()
            return as_sort(els[kk if 0 <= kk < len(els) else 0](t), kind)   # out of range: unspecified (reads are bounds-checked)
        e = as_sort(els[-1](t), kind)
        for j in range(len(els) - 2, -1, -1):
            e = z3.If(k == j, as_sort(els[j](t), kind), e)
        return e
    return SArr((len(rows), n), el, kind)


def _check_index_array(idx, n):
    """every entry of an integer index array must address [−n, n); otherwise numpy raises IndexError"""
    nt = dim_term(n)
    vs = [bv("q") for _ in range(idx.ndim)]
    rng = z3.And([in_range(v, s) for v, s in zip(vs, idx.shape)])
    e = idx._elem(*vs)
    ok = forall(vs, z3.Implies(rng, z3.And(e >= -nt, e < nt)))
    c = idx.meta.get("values_in")
    if c is not None and (c[1] is n or (c[1] is not None and z3.simplify(dim_term(c[1])).eq(z3.simplify(nt)))):
        return
    if not Ctx.cur.branch(ok):
        raise IndexError("index out of bounds")


def mask_select(base, mask):
    """a[mask]: order preserving selection.  New length m, selection function sel:[0,m)->[0,n) strictly
    increasing, hits exactly the True positions."""
    ctx = Ctx.cur
    n = base.shape[0]
    same_dim(mask.shape[0], n, "boolean index did not match indexed array along axis 0")
    key = ("masksel", id(mask))
    cache = ctx.ghost.setdefault("mask_cache", {})
    if key in cache:
        m, sel, inv = cache[key][:3]
    else:
        m = ctx.fresh_int("m_sel", lo=0)
        ctx.assume(m.t <= dim_term(n), "numpy:mask_select")
        sel = ctx.fresh_fn("sel", z3.IntSort(), z3.IntSort())
        inv = ctx.fresh_fn("sel_inv", z3.IntSort(), z3.IntSort())
        t, u, i = bv("t"), bv("u"), bv("i")
        me = mask._elem
        ctx.assume(forall([t], z3.Implies(z3.And(t >= 0, t < m.t),
                                          z3.And(sel(t) >= 0, sel(t) < dim_term(n), me(sel(t)), inv(sel(t)) == t)),
                          patterns=[sel(t)]), "numpy:mask_select")
        ctx.assume(forall([t, u], z3.Implies(z3.And(t >= 0, t < u, u < m.t), sel(t) < sel(u)),
                          patterns=[z3.MultiPattern(sel(t), sel(u))]), "numpy:mask_select")
        ctx.assume(forall([i], z3.Implies(z3.And(i >= 0, i < dim_term(n), me(i)),
                                          z3.And(inv(i) >= 0, inv(i) < m.t, sel(inv(i)) == i)),
                          patterns=[inv(i)]), "numpy:mask_select")
        ctx.trust("numpy:boolean-mask indexing (order preserving selection)")
        cache[key] = (m, sel, inv, mask)  # keep mask alive so id() stays unique
    old = base._elem
    r = SArr((m,) + tuple(base.shape[1:]), lambda t, *rest: old(sel(t), *rest), base.kind, dtype_name=base.dtype_name)
    r.mask_of = (base, mask, sel, inv)
    return r


# --------------------------------------------------------------------------------------------------------
# SRec: structured array (named float fields sharing one length) = a chunk of catalog data
# --------------------------------------------------------------------------------------------------------

class _FieldsView(dict):
    pass


class _RecDtype:
    def __init__(self, rec):
        self._rec = rec

    @property
    def fields(self):
        import numpy as np
        off = 0
        d = _FieldsView()
        for k, v in self._rec.fields.items():
            dt = np.dtype(v.dtype_name)
            d[k] = (dt, off)
            off += dt.itemsize
        return d

    @property
    def names(self):
        return tuple(self._rec.fields)

    def __eq__(self, o):
        if isinstance(o, _RecDtype):
            return [(k, v.dtype_name) for k, v in self._rec.fields.items()] == \
                   [(k, v.dtype_name) for k, v in o._rec.fields.items()]
        return NotImplemented

    def __hash__(self):
        return hash(tuple(self._rec.fields))


class SRec(SArrBase):
    """numpy structured array with 1 axis; fields are SArr of equal length"""
    __slots__ = ("n", "fields", "meta")

    def __init__(self, n, fields):
        self.n = norm_dim(n)
        self.fields = dict(fields)
        self.meta = {}

    @property
    def shape(self):
        return (self.n,)

    @property
    def ndim(self):
        return 1

    @property
    def dtype(self):
        return _RecDtype(self)

    def vc_len(self):
        return self.n

    def __len__(self):
        c = dim_const(self.n)
        if c is None:
            raise Unsupported("len() of a symbolic chunk reached CPython")
        return c

    def __getitem__(self, key):
        if isinstance(key, str):
            if key not in self.fields:
                raise ValueError(f"no field of name {key}")
            return self.fields[key]
        out = {k: v[key] for k, v in self.fields.items()}
        first = next(iter(out.values()))
        if not isinstance(first, SArr):
            raise Unsupported("scalar record access")
        r = SRec(first.shape[0], out)
        return r

    def __setitem__(self, key, value):
        if isinstance(key, str):
            if key not in self.fields:
                raise ValueError(f"no field of name {key}")
            tgt = self.fields[key]
            tgt[:] = value
            return
        raise Unsupported("record assignment by index")

    def copy(self):
        return SRec(self.n, {k: v.copy() for k, v in self.fields.items()})

    def view(self, dtype=None, *a, **k):
        """reinterpretation of the same bytes with another record dtype: all fields are float64, so the k-th new field is
        the k-th old field whatever it is called (numpy raises if the record sizes differ and the byte length does not divide)"""
        names = getattr(dtype, "names", None)
        if not names:
            raise Unsupported("view of a symbolic chunk as a non-record dtype")
        import numpy as np
        if any(np.dtype(dtype.fields[n][0]).name != "float64" for n in names) or any(v.dtype_name not in (None, "float64") for v in self.fields.values()):
            raise Unsupported("view of a chunk with fields that are not float64")
        if len(names) != len(self.fields):
            raise Unsupported("view of a symbolic chunk with a different number of fields (length changes / ValueError)")
        return SRec(self.n, {new: v for new, v in zip(names, self.fields.values())})

    def tofile(self, f, *a, **k):
        from . import fsmodel
        return fsmodel.array_tofile(self, f)

    def __iter__(self):
        raise Unsupported("iteration over a symbolic chunk")

    def __repr__(self):
        return f"SRec(n={self.n}, fields={list(self.fields)})"

    def __vc_concretise__(self, model):
        from . import solve
        return {k: solve.concretise(v, model) for k, v in self.fields.items()}


# --------------------------------------------------------------------------------------------------------
# SList: python list/tuple of symbolic length holding numbers (result of tolist / list(...))
# --------------------------------------------------------------------------------------------------------

class SList:
    __slots__ = ("arr",)

    def __init__(self, arr):
        self.arr = arr

    @classmethod
    def from_array(cls, arr):
        return cls(arr)

    def to_array(self):
        return self.arr

    def vc_len(self):
        return self.arr.shape[0]

    def __len__(self):
        return len(self.arr)

    def __bool__(self):
        # truth value of a list: not empty
        n = self.arr.shape[0]
        c = dim_const(n)
        if c is not None:
            return c > 0
        return bool(SBool(dim_term(n) > 0))

    def __getitem__(self, k):
        r = self.arr[k]
        return SList(r) if isinstance(r, SArr) else r

    def __iter__(self):
        return iter(self.arr)

    def __eq__(self, o):
        if isinstance(o, SList):
            o = o.arr
        if isinstance(o, (list, tuple)):
            o = SArr.from_list(o)
        if not isinstance(o, SArr):
            from . import npshim
            try:
                o = npshim._arr(o)          # symbolic sequences of numbers (e.g. list(range(n)))
            except Unsupported:
                return False
        from . import npshim
        return npshim.array_equal(self.arr, o)

    def __ne__(self, o):
        r = self.__eq__(o)
        return (not r) if isinstance(r, bool) else ~r

    __hash__ = None

    def __repr__(self):
        return f"SList({self.arr!r})"

    def __vc_concretise__(self, model):
        from . import solve
        return solve.concretise(self.arr, model)
