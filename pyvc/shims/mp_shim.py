"""multiprocessing shim: real module attributes; Pool/Process/Manager replaced by contract objects when a
harness installs them in ctx.ghost['mp']."""
import multiprocessing as _m
from ..core import Ctx, Unsupported


def _mp():
    c = Ctx.cur
    return None if c is None else c.ghost.get("mp")


def Pool(*a, **k):
    m = _mp()
    if m is not None:
        return m.Pool(*a, **k)
    if Ctx.cur is not None:
        raise Unsupported("multiprocessing.Pool reached without a contract")
    return _m.Pool(*a, **k)


def Process(*a, **k):
    m = _mp()
    if m is not None:
        return m.Process(*a, **k)
    if Ctx.cur is not None:
        raise Unsupported("multiprocessing.Process reached without a contract")
    return _m.Process(*a, **k)


def Manager(*a, **k):
    m = _mp()
    if m is not None:
        return m.Manager(*a, **k)
    if Ctx.cur is not None:
        raise Unsupported("multiprocessing.Manager reached without a contract")
    return _m.Manager(*a, **k)


cpu_count = _m.cpu_count
Queue = _m.Queue
