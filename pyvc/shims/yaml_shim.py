"""yaml shim: ASSUMED round trip safe_load(safe_dump_all([obj])) == obj for native python data; real PyYAML on
concrete data without a symbolic FS."""
import yaml as _y
from ..core import Ctx, Unsupported


def _fs():
    c = Ctx.cur
    return None if c is None else c.ghost.get("fs")


def safe_load(f):
    fs = _fs()
    if fs is not None and hasattr(f, "vc_file"):
        return fs.yaml_load(f)
    return _y.safe_load(f)


class _YamlDoc(str):
    """a dumped document that remembers the object it encodes (abstract content `yaml(obj)`)"""
    obj = None

    def _keep(self, other):
        other.obj = self.obj
        return other


def safe_dump_all(objs, *a, **k):
    from ..npshim import _sym
    if _sym(objs):
        d = _YamlDoc("<yaml>")
        d.obj = list(objs)[0]
        return d
    return _y.safe_dump_all(objs, *a, **k)


safe_dump = _y.safe_dump
YAMLError = _y.YAMLError
