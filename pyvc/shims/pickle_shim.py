"""pickle shim: ASSUMED identity round trip through the symbolic file system; real pickle otherwise."""
import pickle as _p
from ..core import Ctx, Unsupported


def _fs():
    c = Ctx.cur
    return None if c is None else c.ghost.get("fs")


def dump(obj, f, *a, **k):
    fs = _fs()
    if fs is not None and hasattr(f, "vc_file"):
        return fs.pickle_dump(obj, f)
    return _p.dump(obj, f, *a, **k)


def load(f, *a, **k):
    fs = _fs()
    if fs is not None and hasattr(f, "vc_file"):
        return fs.pickle_load(f)
    return _p.load(f, *a, **k)


dumps, loads = _p.dumps, _p.loads
