from ..core import Unsupported


def Catalog(*a, **k):
    raise Unsupported("treecorr.Catalog (k-means patch centres) is outside the model")
