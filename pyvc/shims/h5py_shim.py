"""h5py shim: real h5py unless a symbolic store is active (abstract store in contracts/C11)."""
import h5py as _h
from ..core import Ctx


def File(path, mode="r", **k):
    c = Ctx.cur
    st = None if c is None else c.ghost.get("h5store")
    if st is not None:
        return st.open(path, mode)
    return _h.File(path, mode=mode, **k)


Group = _h.Group
