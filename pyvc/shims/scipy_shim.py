"""scipy shims: KDTree and vq are trusted externals; their contracts live in contracts/C01 and C02/C12."""
from ..core import Ctx, Unsupported


class KDTree:
    def __init__(self, data, leafsize=16, copy_data=False, **k):
        self.data = data
        self.leafsize = leafsize
        c = Ctx.cur
        hook = None if c is None else c.ghost.get("kdtree_init")
        if hook:
            hook(self)

    def count_neighbors(self, other, r, weights=None, cumulative=True, **k):
        c = Ctx.cur
        hook = None if c is None else c.ghost.get("kdtree_count")
        if hook is None:
            raise Unsupported("KDTree.count_neighbors reached without a contract")
        return hook(self, other, r, weights, cumulative)


class _VQ:
    @staticmethod
    def vq(obs, code_book, **k):
        c = Ctx.cur
        hook = None if c is None else c.ghost.get("vq")
        if hook is None:
            raise Unsupported("scipy.cluster.vq.vq reached without a contract")
        return hook(obs, code_book)


vq = _VQ()
