"""Σ-library: finite sums over symbolic ranges as specification functions (DESIGN §5.3).

A sum  Σ_{t<n} T[t]  is the term  S_T(params..., n)  where S_T is an uninterpreted function obtained by
hash-consing the summand: T is evaluated at a canonical bound variable, every integer constant occurring in it
becomes a parameter (in order of first occurrence), and two summands with the same canonical text share one
symbol.  Nothing is assumed about S_T except what explicit *instances* add:

  unfold(S, n)          S(p,0) = 0   and   n >= 0  ->  S(p,n+1) = S(p,n) + T[p,n]        (definition)
  lemma instances       remove_one, linear2, congruence, nonneg, scale                   (proved schemas)

Every lemma schema is proved once per run by generated base/step verification conditions over uninterpreted
summands (`prove_schemas`), so an instance is a consequence of the definition, not an axiom.
"""
from __future__ import annotations

import z3

from . import core
from .core import Ctx, SNum, to_term, to_real
from .arrays import bv, dim_term

_REG = {}       # canonical key -> SumFn
_T0 = [z3.Int(f"t?sigma{d}") for d in range(6)]
_TC = z3.Int("t?sigma")
_depth = [0]


class SumFn:
    def __init__(self, key, fn, nparams, summand_canon, pvars, tvar):
        self.key, self.fn, self.nparams = key, fn, nparams
        self.summand_canon, self.pvars, self.tvar = summand_canon, pvars, tvar

    def summand_at(self, params, t):
        return z3.substitute(self.summand_canon, *list(zip(self.pvars, params)), (self.tvar, t))

    def value(self, params, n):
        return self.fn(*params, n)


def reset():
    _REG.clear()


def _contains(term, targets, cache):
    i = term.get_id()
    if i in cache:
        return cache[i]
    r = any(term.eq(t) for t in targets) or any(_contains(c, targets, cache) for c in term.children())
    cache[i] = r
    return r


def _abstract_params(T, t0):
    """parameters of a summand: the maximal integer-sorted subterms that do not contain the bound variable (index
    expressions such as `lo + b`, sizes, skolem constants), in order of first occurrence.  Returns (params, canon)
    where canon is T with the parameters replaced by canonical variables."""
    params, pvars, cache, memo = [], [], {}, {}

    def rec(e):
        i = e.get_id()
        if i in memo:
            return memo[i]
        if z3.is_quantifier(e):
            raise core.Unsupported("quantifier inside a summand")
        if e.sort().kind() == z3.Z3_INT_SORT and not z3.is_int_value(e) and not _contains(e, [t0], cache):
            for k, p in enumerate(params):
                if p.eq(e):
                    memo[i] = pvars[k]
                    return pvars[k]
            v = z3.Int(f"p?sigma_{len(params)}")
            params.append(e)
            pvars.append(v)
            memo[i] = v
            return v
        if z3.is_app(e) and e.num_args() > 0:
            new_args = [rec(c) for c in e.children()]
            r = e.decl()(*new_args) if any(not a.eq(b) for a, b in zip(new_args, e.children())) else e
        else:
            r = e
        memo[i] = r
        return r
    canon = rec(T)
    return params, pvars, canon


class Sum:
    """a concrete sum term: S(params, n) plus the data needed to instantiate lemmas"""

    def __init__(self, sf, params, n):
        self.sf, self.params, self.n = sf, list(params), n

    @property
    def t(self):
        return self.sf.value(self.params, self.n)

    def at(self, m):
        return self.sf.value(self.params, m)

    def summand(self, t):
        return self.sf.summand_at(self.params, t)


_AC_KINDS = (z3.Z3_OP_AND, z3.Z3_OP_OR, z3.Z3_OP_ADD, z3.Z3_OP_MUL, z3.Z3_OP_EQ, z3.Z3_OP_DISTINCT, z3.Z3_OP_IFF)


def _ac_sort(e, cache=None):
    """rebuild the term with the arguments of commutative operators in a canonical (textual) order: z3's simplifier orders
    them by AST id, which depends on the history of the process - two structurally equal summands must get the same key"""
    cache = {} if cache is None else cache
    k = e.get_id()
    if k in cache:
        return cache[k]
    if z3.is_quantifier(e) or not z3.is_app(e) or e.num_args() == 0:
        cache[k] = e
        return e
    args = [_ac_sort(c, cache) for c in e.children()]
    kind = e.decl().kind()
    if kind in _AC_KINDS:
        args = sorted(args, key=lambda a: a.sexpr())
    try:
        r = e.decl()(*args)
    except Exception:  # noqa: BLE001
        r = e
    cache[k] = r
    return r


def make(summand, n, hint="S"):
    """summand: python callable z3-Int-term -> z3 Real/Int term.  Returns Sum."""
    d = _depth[0]
    if d >= len(_T0):
        raise core.Unsupported("sum nesting too deep")
    t0 = _T0[d]
    _depth[0] += 1
    try:
        T = to_real(to_term(summand(t0)))
    finally:
        _depth[0] -= 1
    T = _ac_sort(z3.simplify(T))
    params, pvars, canon = _abstract_params(T, t0)
    canon = z3.substitute(canon, (t0, _TC))
    key = canon.sexpr()
    sf = _REG.get(key)
    if sf is None:
        name = f"{hint}_{len(_REG)}"
        fn = z3.Function(name, *([z3.IntSort()] * (len(params) + 1) + [z3.RealSort()]))
        sf = SumFn(key, fn, len(params), canon, pvars, _TC)
        _REG[key] = sf
    nt = to_term(n)
    return Sum(sf, params, nt)


def total(summand, n, hint="S"):
    return make(summand, n, hint).t


def sums_in(term):
    """the Σ-terms occurring in a z3 term: list of Sum objects (so a harness can state lemma instances about the sums the *code*
    built, whatever expression it built them with)"""
    by_decl = {sf.fn.get_id(): sf for sf in _REG.values()}
    out, seen = [], set()

    def rec(e):
        if e.get_id() in seen:
            return
        seen.add(e.get_id())
        if z3.is_quantifier(e):
            return rec(e.body())
        if z3.is_app(e):
            sf = by_decl.get(e.decl().get_id())
            if sf is not None:
                args = e.children()
                out.append(Sum(sf, args[:-1], args[-1]))
            for c in e.children():
                rec(c)
    rec(term)
    return out


def congruent_sums(ctx, term, spec, n, name="congruence"):
    """for every Σ-term over [0, n) inside `term` whose summand provably equals spec(t) for all t < n (quick proof attempt, no
    obligation recorded): assume it equals Σ spec (instance of the proved congruence schema).  Returns how many were linked."""
    nt = to_term(n)
    sg = make(spec, nt)
    t = bv("t")
    k = 0
    for s in sums_in(term):
        if not (s.n.eq(nt) or z3.simplify(s.n == nt).eq(z3.BoolVal(True))):
            continue
        if s.t.eq(sg.t):
            k += 1
            continue
        prem = z3.ForAll([t], z3.Implies(z3.And(t >= 0, t < nt), to_real(s.summand(t)) == to_real(to_term(spec(t)))))
        if ctx.probe(core.SBool(prem)):
            ctx.assume(z3.Implies(nt >= 0, s.t == sg.t), "lemma:congruence")
            k += 1
    return k


# -- definition instances -------------------------------------------------------------------------------

def unfold(ctx, s: Sum, m):
    """S(p,0)=0 and (m>=0 -> S(p,m+1) = S(p,m) + T[p,m])"""
    m = to_term(m)
    ctx.assume(s.at(z3.IntVal(0)) == 0, "sigma:definition")
    ctx.assume(z3.Implies(m >= 0, s.at(m + 1) == s.at(m) + s.summand(m)), "sigma:definition")


def define_zero(ctx, s: Sum):
    ctx.assume(s.at(z3.IntVal(0)) == 0, "sigma:definition")


# -- lemma instances (each schema is proved in prove_schemas) --------------------------------------------------

def _gen(vars_, body, patterns=None):
    """generalise a lemma instance over outer (bound) variables: sound because every schema is proved for an
    arbitrary summand, which may depend on any parameters"""
    if not vars_:
        return body
    if patterns:
        return z3.ForAll(list(vars_), body, patterns=patterns)
    return z3.ForAll(list(vars_), body)


def remove_one(ctx, f, n, k, hint="S", forall=()):
    """0<=k<n  ->  Σ_{t<n} [t != k] f(t)  =  Σ_{t<n} f(t) - f(k).   Returns (S_excl, S_full).
    forall: outer z3 Int variables occurring in f/k over which the instance is generalised."""
    kt, nt = to_term(k), to_term(n)
    full = make(f, nt, hint)
    excl = make(lambda t: z3.If(t == kt, z3.RealVal(0), to_real(to_term(f(t)))), nt, hint + "x")
    pats = [excl.t] if forall else None
    ctx.assume(_gen(forall, z3.Implies(z3.And(kt >= 0, kt < nt), excl.t == full.t - to_real(to_term(f(kt)))), pats),
               "lemma:remove_one")
    ctx.assume(_gen(forall, z3.Implies(z3.Or(kt < 0, kt >= nt), excl.t == full.t), pats), "lemma:remove_one")
    return excl, full


def linear2(ctx, f, g, a, b, n, hint="S"):
    """Σ (a f + b g) = a Σ f + b Σ g   (a, b terms not depending on t)"""
    at, bt, nt = to_real(to_term(a)), to_real(to_term(b)), to_term(n)
    sf, sg = make(f, nt, hint), make(g, nt, hint)
    comb = make(lambda t: at * to_real(to_term(f(t))) + bt * to_real(to_term(g(t))), nt, hint + "l")
    ctx.assume(z3.Implies(nt >= 0, comb.t == at * sf.t + bt * sg.t), "lemma:linear2")
    return comb, sf, sg


def scale(ctx, f, a, n, hint="S", forall=()):
    """Σ a f = a Σ f;  forall: outer z3 Int variables occurring in f over which the instance is generalised"""
    at, nt = to_real(to_term(a)), to_term(n)
    sf = make(f, nt, hint)
    sc = make(lambda t: at * to_real(to_term(f(t))), nt, hint + "s")
    ctx.assume(_gen(forall, z3.Implies(nt >= 0, sc.t == at * sf.t), [sc.t] if forall else None), "lemma:scale")
    return sc, sf


def congruence(ctx, f, g, n, hint="S", premise_checked=True, name="congruence", forall=(), where=None):
    """(forall t. 0<=t<n -> f(t)=g(t)) -> Σ f = Σ g.  The premise is *checked* as an obligation first.
    forall: outer z3 Int variables occurring in f/g over which premise and conclusion are generalised (restricted to `where`)."""
    nt = to_term(n)
    sf, sg = make(f, nt, hint), make(g, nt, hint)
    t = bv("t")
    guard = where if where is not None else z3.BoolVal(True)
    prem = z3.ForAll([t] + list(forall), z3.Implies(z3.And(t >= 0, t < nt, guard), to_real(to_term(f(t))) == to_real(to_term(g(t)))))
    concl = z3.Implies(z3.And(nt >= 0, guard), sf.t == sg.t)
    if premise_checked:
        ob = ctx.check(f"{ctx.unit_name}/lemma_premise:{name}", prem, kind="lemma_premise")
        if ob is not None and ob.status != "discharged":
            raise core.EndPath()   # reported through the premise; nothing downstream is checked on this path
        ctx.assume(_gen(forall, concl, [sf.t] if forall else None), "lemma:congruence")
    else:
        ctx.assume(z3.Implies(prem, _gen(forall, concl, [sf.t] if forall else None)), "lemma:congruence")
    return sf, sg


def nonneg(ctx, f, n, hint="S", name="nonneg"):
    nt = to_term(n)
    sf = make(f, nt, hint)
    t = bv("t")
    prem = z3.ForAll([t], z3.Implies(z3.And(t >= 0, t < nt), to_real(to_term(f(t))) >= 0))
    ob = ctx.check(f"{ctx.unit_name}/lemma_premise:{name}", prem, kind="lemma_premise")
    if ob is None or ob.status == "discharged":
        ctx.assume(z3.Implies(nt >= 0, sf.t >= 0), "lemma:nonneg")
    return sf


def zero(ctx, f, n, hint="S", name="zero"):
    """(forall t<n. f(t)=0) -> Σ f = 0"""
    nt = to_term(n)
    sf = make(f, nt, hint)
    t = bv("t")
    prem = z3.ForAll([t], z3.Implies(z3.And(t >= 0, t < nt), to_real(to_term(f(t))) == 0))
    ob = ctx.check(f"{ctx.unit_name}/lemma_premise:{name}", prem, kind="lemma_premise")
    if ob is None or ob.status == "discharged":
        ctx.assume(z3.Implies(nt >= 0, sf.t == 0), "lemma:zero")
    return sf


def split_at(ctx, f, n, k, hint="S"):
    """0<=k<=n -> Σ_{t<n} f = Σ_{t<k} f + Σ_{k<=t<n} f  where the tail is Σ_{u<n-k} f(k+u)"""
    nt, kt = to_term(n), to_term(k)
    whole, head = make(f, nt, hint), make(f, kt, hint)
    tail = make(lambda u: f(kt + u), nt - kt, hint + "t")
    ctx.assume(z3.Implies(z3.And(kt >= 0, kt <= nt), whole.t == head.t + tail.t), "lemma:split_at")
    return whole, head, tail


def point_update(ctx, f, g, n, k, hint="S", name="point_update"):
    """(forall t in [0,n), t != k: f(t) = g(t)) and 0 <= k < n  ->  Σ g = Σ f - f(k) + g(k).  The premise is checked first."""
    nt, kt = to_term(n), to_term(k)
    sf, sg = make(f, nt, hint), make(g, nt, hint)
    t = bv("t")
    prem = z3.ForAll([t], z3.Implies(z3.And(t >= 0, t < nt, t != kt), to_real(to_term(f(t))) == to_real(to_term(g(t)))))
    ob = ctx.check(f"{ctx.unit_name}/lemma_premise:{name}", prem, kind="lemma_premise")
    if ob is not None and ob.status != "discharged":
        raise core.EndPath()
    ctx.assume(z3.Implies(z3.And(kt >= 0, kt < nt), sg.t == sf.t - to_real(to_term(f(kt))) + to_real(to_term(g(kt)))), "lemma:point_update")
    return sf, sg


def const_sum(ctx, c, n, hint="S"):
    """n >= 0 -> Σ_{t<n} c = n c   (c does not depend on t)"""
    ct, nt = to_real(to_term(c)), to_term(n)
    sc = make(lambda t: ct, nt, hint)
    ctx.assume(z3.Implies(nt >= 0, sc.t == z3.ToReal(nt) * ct), "lemma:const_sum")
    return sc


def member_le_sum(ctx, f, n, hint="S", name="member_le_sum"):
    """(forall t in [0,n): f(t) >= 0)  ->  forall k in [0,n): f(k) <= Σ f.  The premise is checked first."""
    nt = to_term(n)
    sf = make(f, nt, hint)
    t, k = bv("t"), bv("k")
    prem = z3.ForAll([t], z3.Implies(z3.And(t >= 0, t < nt), to_real(to_term(f(t))) >= 0))
    ob = ctx.check(f"{ctx.unit_name}/lemma_premise:{name}", prem, kind="lemma_premise")
    if ob is not None and ob.status != "discharged":
        raise core.EndPath()
    ctx.assume(z3.ForAll([k], z3.Implies(z3.And(k >= 0, k < nt), to_real(to_term(f(k))) <= sf.t)), "lemma:member_le_sum")
    return sf


def permute(ctx, f, perm, perm_inv, n, hint="S", name="permute", forall=(), bijection_checked=True):
    """perm is a bijection of [0, n) with inverse perm_inv  ->  Σ_{t<n} f(perm(t)) = Σ_{t<n} f(t).
    The bijection premise is checked as an obligation first (unless the caller has it as an axiom); forall: outer variables."""
    nt = to_term(n)
    t = bv("t")
    if bijection_checked:
        prem = z3.ForAll([t], z3.Implies(z3.And(t >= 0, t < nt), z3.And(perm(t) >= 0, perm(t) < nt, perm_inv(perm(t)) == t,
                                                                       perm_inv(t) >= 0, perm_inv(t) < nt, perm(perm_inv(t)) == t)))
        ob = ctx.check(f"{ctx.unit_name}/lemma_premise:{name}", prem, kind="lemma_premise")
        if ob is not None and ob.status != "discharged":
            raise core.EndPath()
    s_perm = make(lambda u: f(perm(u)), nt, hint + "p")
    s_id = make(f, nt, hint)
    ctx.assume(_gen(forall, z3.Implies(nt >= 0, s_perm.t == s_id.t), [s_perm.t] if forall else None), "lemma:permute")
    return s_perm, s_id


def prove_permute(ctx):
    """Σ_{t<n} f(σ t) = Σ_{t<n} f(t) for every bijection σ of [0, n), by induction on n over *all* bijections: the step for σ on
    [0, n+1) uses the hypothesis for the bijection τ of [0, n) that agrees with σ except at k = σ⁻¹(n), where τ(k) = σ(n)."""
    R, I = z3.RealSort(), z3.IntSort()
    f = z3.Function("f?perm", I, R)
    sg, si = z3.Function("sigma?perm", I, I), z3.Function("sigma_inv?perm", I, I)
    n = z3.Int("n_perm")
    t = z3.Int("t?perm")
    pre = "lemma/permute"
    ctx.solver.push()
    try:
        ctx.solver.add(n >= 0)
        N1 = n + 1
        ctx.solver.add(z3.ForAll([t], z3.Implies(z3.And(t >= 0, t < N1), z3.And(sg(t) >= 0, sg(t) < N1, si(sg(t)) == t, si(t) >= 0, si(t) < N1, sg(si(t)) == t))))
        k = si(n)
        tau = lambda u: z3.If(u == k, sg(n), sg(u))            # noqa: E731
        tau_inv = lambda v: z3.If(si(v) == n, k, si(v))        # noqa: E731
        # base
        s0p, s0 = make(lambda u: f(sg(u)), z3.IntVal(0), "P"), make(lambda u: f(u), z3.IntVal(0), "P")
        ctx.assume(z3.And(s0p.at(z3.IntVal(0)) == 0, s0.at(z3.IntVal(0)) == 0), "sigma:definition")
        ctx.check(f"{pre}/base", s0p.at(z3.IntVal(0)) == s0.at(z3.IntVal(0)), kind="lemma")
        # the bijection used in the hypothesis
        ctx.check(f"{pre}/step:tau_is_a_bijection_of_[0,n)",
                  z3.ForAll([t], z3.Implies(z3.And(t >= 0, t < n), z3.And(tau(t) >= 0, tau(t) < n, tau_inv(tau(t)) == t,
                                                                          tau_inv(t) >= 0, tau_inv(t) < n, tau(tau_inv(t)) == t))), kind="lemma")
        s_sig, s_tau, s_id = make(lambda u: f(sg(u)), n, "P"), make(lambda u: f(tau(u)), n, "P"), make(lambda u: f(u), n, "P")
        ctx.solver.add(s_tau.t == s_id.t)                                                        # induction hypothesis at (n, tau)
        ctx.solver.add(s_sig.at(n + 1) == s_sig.at(n) + f(sg(n)), s_id.at(n + 1) == s_id.at(n) + f(n))   # definition of the sums
        # sigma and tau differ only at k (if k < n): instance of the proved schema point_update
        ctx.check(f"{pre}/step:sigma_and_tau_differ_only_at_k",
                  z3.ForAll([t], z3.Implies(z3.And(t >= 0, t < n, t != k), f(sg(t)) == f(tau(t)))), kind="lemma")
        ctx.solver.add(z3.Implies(z3.And(k >= 0, k < n), s_tau.t == s_sig.t - f(sg(k)) + f(tau(k))))
        # if k == n then tau = sigma on [0, n): instance of the proved schema congruence
        ctx.check(f"{pre}/step:tau_equals_sigma_if_k_is_n", z3.ForAll([t], z3.Implies(z3.And(t >= 0, t < n, k == n), f(sg(t)) == f(tau(t)))), kind="lemma")
        ctx.solver.add(z3.Implies(k == n, s_tau.t == s_sig.t))
        ctx.check(f"{pre}/step", s_sig.at(n + 1) == s_id.at(n + 1), kind="lemma")
    finally:
        ctx.solver.pop()


def telescope(ctx, G, a, L, hint="S"):
    """L >= 0  ->  Σ_{u<L} (G(a+u+1) - G(a+u)) = G(a+L) - G(a)     (G: python callable Int term -> Real term)"""
    at, Lt = to_term(a), to_term(L)
    s = make(lambda u: to_real(to_term(G(at + u + 1))) - to_real(to_term(G(at + u))), Lt, hint)
    ctx.assume(z3.Implies(Lt >= 0, s.t == to_real(to_term(G(at + Lt))) - to_real(to_term(G(at)))), "lemma:telescope")
    return s


def sum_iterable(x, start=0):
    from .builtins_shim import vc_len, item_of
    n = vc_len(x)
    s = total(lambda t: to_term(item_of(x, SNum(t))), dim_term(n))
    r = SNum(s)
    return r + start if (core.is_sym(start) or start != 0) else r


# ---------------------------------------------------------------------------------------------------------
# proofs of the schemas (induction VCs, z3)
# ---------------------------------------------------------------------------------------------------------

def prove_schemas(ctx):
    """Generates and checks base/step obligations of every lemma schema over uninterpreted summands."""
    R, I = z3.RealSort(), z3.IntSort()
    f = z3.Function("f?gen", I, R)
    g = z3.Function("g?gen", I, R)
    n = z3.Int("n_gen")
    k = z3.Int("k_gen")
    a, b = z3.Real("a_gen"), z3.Real("b_gen")
    pre = "lemma"

    def ind(name, sums, P, extra=None, hyp_at=None):
        """P(m) by induction on m>=0; sums: list of Sum objects to unfold at m"""
        m = z3.Int("m_gen")
        for s in sums:
            ctx.assume(s.at(z3.IntVal(0)) == 0, "sigma:definition")
        ctx.check(f"{pre}/{name}/base", P(z3.IntVal(0)), kind="lemma")
        s2 = z3.Solver()
        # step: fresh solver state through push/pop on ctx.solver
        ctx.solver.push()
        try:
            ctx.solver.add(m >= 0)
            for s in sums:
                ctx.solver.add(s.at(m + 1) == s.at(m) + s.summand(m))
            ctx.solver.add(P(m))
            if extra is not None:
                ctx.solver.add(extra(m))
            ob = ctx.check(f"{pre}/{name}/step", P(m + 1), kind="lemma")
        finally:
            # ctx.check adds the clause after success; pop removes step-local facts again
            ctx.solver.pop()
        return ob

    # remove_one
    fk = lambda t: f(t)  # noqa: E731
    full = make(fk, n, "G")
    excl = make(lambda t: z3.If(t == k, z3.RealVal(0), f(t)), n, "Gx")
    ind("remove_one", [full, excl],
        lambda m: z3.And(z3.Implies(m <= k, excl.at(m) == full.at(m)),
                         z3.Implies(z3.And(m > k, k >= 0), excl.at(m) == full.at(m) - f(k)),
                         z3.Implies(k < 0, excl.at(m) == full.at(m))))
    # linear2
    sf_, sg_ = make(lambda t: f(t), n, "G"), make(lambda t: g(t), n, "G")
    comb = make(lambda t: a * f(t) + b * g(t), n, "Gl")
    ind("linear2", [sf_, sg_, comb], lambda m: comb.at(m) == a * sf_.at(m) + b * sg_.at(m))
    # scale
    sc = make(lambda t: a * f(t), n, "Gs")
    ind("scale", [sf_, sc], lambda m: sc.at(m) == a * sf_.at(m))
    # congruence: premise forall t<n f=g ; P(m): m<=n -> Sf(m)=Sg(m)
    t = z3.Int("t?gen")
    ctx.solver.push()
    try:
        ctx.solver.add(z3.ForAll([t], z3.Implies(z3.And(t >= 0, t < n), f(t) == g(t))))
        ind("congruence", [sf_, sg_], lambda m: z3.Implies(m <= n, sf_.at(m) == sg_.at(m)))
    finally:
        ctx.solver.pop()
    # nonneg
    ctx.solver.push()
    try:
        ctx.solver.add(z3.ForAll([t], z3.Implies(z3.And(t >= 0, t < n), f(t) >= 0)))
        ind("nonneg", [sf_], lambda m: z3.Implies(m <= n, sf_.at(m) >= 0))
    finally:
        ctx.solver.pop()
    # zero
    ctx.solver.push()
    try:
        ctx.solver.add(z3.ForAll([t], z3.Implies(z3.And(t >= 0, t < n), f(t) == 0)))
        ind("zero", [sf_], lambda m: z3.Implies(m <= n, sf_.at(m) == 0))
    finally:
        ctx.solver.pop()
    # const_sum
    cs = make(lambda t: a, n, "Gc")
    ind("const_sum", [cs], lambda m: cs.at(m) == z3.ToReal(m) * a)
    # member_le_sum: f >= 0 -> f(k) <= Σ f
    ctx.solver.push()
    try:
        ctx.solver.add(z3.ForAll([t], z3.Implies(z3.And(t >= 0, t < n), f(t) >= 0)), k >= 0, k < n)
        ind("member_le_sum", [sf_], lambda m: z3.Implies(m <= n, z3.And(sf_.at(m) >= 0, z3.Implies(k < m, f(k) <= sf_.at(m)))))
    finally:
        ctx.solver.pop()
    # point_update: f = g except at k
    ctx.solver.push()
    try:
        ctx.solver.add(z3.ForAll([t], z3.Implies(z3.And(t >= 0, t < n, t != k), f(t) == g(t))), k >= 0, k < n)
        ind("point_update", [sf_, sg_], lambda m: z3.Implies(m <= n, z3.If(m <= k, sg_.at(m) == sf_.at(m), sg_.at(m) == sf_.at(m) - f(k) + g(k))))
    finally:
        ctx.solver.pop()
    # telescope: Σ_{u<m} (f(k+u+1) - f(k+u)) = f(k+m) - f(k)
    tel = make(lambda u: f(k + u + 1) - f(k + u), n, "Gtel")
    ind("telescope", [tel], lambda m: tel.at(m) == f(k + m) - f(k))
    # split_at: whole(n) = head(k) + tail(n-k), induction on d = n-k:  P(d): whole.at(k+d) = head.at(k) + tail_k.at(d)
    tail = make(lambda u: f(k + u), n - k, "Gt")
    ctx.solver.push()
    try:
        ctx.solver.add(k >= 0)
        m = z3.Int("m_gen")
        ctx.solver.add(tail.at(z3.IntVal(0)) == 0)
        ctx.check(f"{pre}/split_at/base", sf_.at(k + 0) == sf_.at(k) + tail.at(z3.IntVal(0)), kind="lemma")
        ctx.solver.push()
        ctx.solver.add(m >= 0, tail.at(m + 1) == tail.at(m) + tail.summand(m),
                       sf_.at(k + m + 1) == sf_.at(k + m) + f(k + m),
                       sf_.at(k + m) == sf_.at(k) + tail.at(m))
        ctx.check(f"{pre}/split_at/step", sf_.at(k + m + 1) == sf_.at(k) + tail.at(m + 1), kind="lemma")
        ctx.solver.pop()
    finally:
        ctx.solver.pop()
