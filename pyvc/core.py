"""pyvc core: symbolic scalars, path exploration by re-execution, obligations.

The transformed *real* source (see shadow.py) is executed by CPython on the proxy values defined here.
`bool(SBool)` forks the path; every obligation is `pc /\\ not clause` sent to z3 (cvc5 takes z3's unknowns).
"""
from __future__ import annotations

import time
from collections import Counter
from fractions import Fraction

import os

import z3

SOLVER_TIMEOUT_MS = 60_000
FEAS_TIMEOUT_MS = 2_000
MAX_DECISIONS = 400


class VCSignal(BaseException):
    """Base of engine control-flow signals; BaseException so repository `except Exception` cannot swallow it."""


class Unsupported(VCSignal):
    """The code needs something the encoding does not model -> verdict UNDECIDED, never a silent pass."""


class EndPath(VCSignal):
    """The current path ends here (after a loop-body check, or because the pc became infeasible)."""


class Infeasible(EndPath):
    pass


# --------------------------------------------------------------------------------------------------------
# terms
# --------------------------------------------------------------------------------------------------------

def is_sym(x) -> bool:
    return isinstance(x, (SNum, SBool))


def to_term(x):
    """python/numpy scalar or proxy -> z3 arithmetic term"""
    if isinstance(x, SNum):
        return x.t
    if isinstance(x, SBool):
        return z3.If(x.t, z3.IntVal(1), z3.IntVal(0))
    if isinstance(x, bool):
        return z3.IntVal(int(x))
    if isinstance(x, int):
        return z3.IntVal(x)
    if isinstance(x, float):
        if type(x).__name__ == "_Pi":      # k*pi constants of the numpy shim: symbolic, never a rounded literal
            return x._sym().t
        if x != x or x in (float("inf"), float("-inf")):
            raise Unsupported(f"non-finite float constant {x!r} in real-arithmetic encoding")
        fr = Fraction(x)
        return z3.RealVal(f"{fr.numerator}/{fr.denominator}")
    if isinstance(x, Fraction):
        return z3.RealVal(f"{x.numerator}/{x.denominator}")
    if isinstance(x, z3.ExprRef):
        return x
    try:
        import numpy as _np
        if isinstance(x, _np.bool_):
            return z3.IntVal(int(x))
        if isinstance(x, _np.integer):
            return z3.IntVal(int(x))
        if isinstance(x, _np.floating):
            return to_term(float(x))
        if isinstance(x, _np.ndarray) and x.ndim == 0:
            return to_term(x.item())
    except ImportError:  # pragma: no cover
        pass
    raise Unsupported(f"cannot turn {type(x).__name__} into an arithmetic term")


def tob(x):
    """python bool or proxy -> z3 Bool term"""
    if isinstance(x, SBool):
        return x.t
    if isinstance(x, bool):
        return z3.BoolVal(x)
    if isinstance(x, z3.BoolRef):
        return x
    if isinstance(x, SNum):
        return x.t != 0
    try:
        import numpy as _np
        if isinstance(x, _np.bool_):
            return z3.BoolVal(bool(x))
    except ImportError:  # pragma: no cover
        pass
    if isinstance(x, int):
        return z3.BoolVal(bool(x))
    raise Unsupported(f"cannot turn {type(x).__name__} into a boolean term")


def _is_int(t) -> bool:
    return t.sort().kind() == z3.Z3_INT_SORT


def _coerce(a, b):
    if _is_int(a) and not _is_int(b):
        a = z3.ToReal(a)
    elif _is_int(b) and not _is_int(a):
        b = z3.ToReal(b)
    return a, b


def to_real(t):
    return z3.ToReal(t) if _is_int(t) else t


def const_value(t):
    """concrete python value of a term if it simplifies to a numeral, else None"""
    s = z3.simplify(t)
    if z3.is_int_value(s):
        return s.as_long()
    if z3.is_rational_value(s):
        return Fraction(s.numerator_as_long(), s.denominator_as_long())
    if z3.is_true(s):
        return True
    if z3.is_false(s):
        return False
    return None


class SBool:
    __slots__ = ("t",)

    def __init__(self, t):
        self.t = t if isinstance(t, z3.BoolRef) else tob(t)

    def __bool__(self):
        return Ctx.cur.branch(self.t)

    def __and__(self, o):
        return SBool(z3.And(self.t, tob(o)))

    __rand__ = __and__

    def __or__(self, o):
        return SBool(z3.Or(self.t, tob(o)))

    __ror__ = __or__

    def __invert__(self):
        return SBool(z3.Not(self.t))

    def __xor__(self, o):
        return SBool(z3.Xor(self.t, tob(o)))

    __rxor__ = __xor__

    def __eq__(self, o):
        if isinstance(o, (SBool, bool)):
            return SBool(self.t == tob(o))
        return SBool(to_term(self) == to_term(o))

    def __ne__(self, o):
        return ~(self == o)

    def __hash__(self):
        v = const_value(self.t)
        if v is None:
            raise Unsupported("hash of a symbolic boolean")
        return hash(v)

    # arithmetic on booleans (True << 2, has_weights + 1): go through ints
    def __add__(self, o):
        return SNum(to_term(self)) + o

    __radd__ = __add__

    def __mul__(self, o):
        return SNum(to_term(self)) * o

    __rmul__ = __mul__

    def __repr__(self):
        return f"SBool({z3.simplify(self.t)})"


class SNum:
    """Integer- or real-sorted symbolic number.  Python int = Int, float = Real (mathematical)."""
    __slots__ = ("t",)
    __array_priority__ = 1000  # numpy scalars defer to us

    def __init__(self, t):
        self.t = t if isinstance(t, z3.ExprRef) else to_term(t)

    @property
    def is_int(self):
        return _is_int(self.t)

    # -- arithmetic
    def _bin(self, o, f, swap=False):
        if isinstance(o, SArrBase):
            return NotImplemented
        a, b = self.t, to_term(o)
        if swap:
            a, b = b, a
        a, b = _coerce(a, b)
        return SNum(f(a, b))

    def __add__(self, o):
        return self._bin(o, lambda a, b: a + b)

    def __radd__(self, o):
        return self._bin(o, lambda a, b: a + b, True)

    def __sub__(self, o):
        return self._bin(o, lambda a, b: a - b)

    def __rsub__(self, o):
        return self._bin(o, lambda a, b: a - b, True)

    def __mul__(self, o):
        return self._bin(o, lambda a, b: a * b)

    def __rmul__(self, o):
        return self._bin(o, lambda a, b: a * b, True)

    def __truediv__(self, o):
        if isinstance(o, SArrBase):
            return NotImplemented
        return _div(self.t, to_term(o))

    def __rtruediv__(self, o):
        return _div(to_term(o), self.t)

    def __floordiv__(self, o):
        return _floordiv(self.t, to_term(o))

    def __rfloordiv__(self, o):
        return _floordiv(to_term(o), self.t)

    def __mod__(self, o):
        return _mod(self.t, to_term(o))

    def __rmod__(self, o):
        return _mod(to_term(o), self.t)

    def __pow__(self, o):
        return _pow(self, o)

    def __rpow__(self, o):
        return _pow(o, self)

    def __neg__(self):
        return SNum(-self.t)

    def __pos__(self):
        return self

    def __abs__(self):
        return SNum(z3.If(self.t >= 0, self.t, -self.t))

    # -- comparisons
    def _cmp(self, o, f):
        if isinstance(o, SArrBase):
            return NotImplemented
        a, b = _coerce(self.t, to_term(o))
        return SBool(f(a, b))

    def __lt__(self, o):
        return self._cmp(o, lambda a, b: a < b)

    def __le__(self, o):
        return self._cmp(o, lambda a, b: a <= b)

    def __gt__(self, o):
        return self._cmp(o, lambda a, b: a > b)

    def __ge__(self, o):
        return self._cmp(o, lambda a, b: a >= b)

    def __eq__(self, o):
        if o is None or isinstance(o, (str, type)):
            return False
        if isinstance(o, SArrBase):
            return NotImplemented
        try:
            return self._cmp(o, lambda a, b: a == b)
        except Unsupported:
            return False

    def __ne__(self, o):
        r = self.__eq__(o)
        if r is NotImplemented:
            return r
        if isinstance(r, bool):
            return not r
        return ~r

    def __bool__(self):
        return Ctx.cur.branch(self.t != 0)

    def __hash__(self):
        v = const_value(self.t)
        if v is None:
            raise Unsupported("hash of a symbolic number (symbolic dict/set key)")
        return hash(v)

    def __index__(self):
        v = const_value(self.t)
        if isinstance(v, bool) or not isinstance(v, int):
            raise Unsupported("a symbolic number is used where CPython needs a concrete integer")
        return v

    def __int__(self):
        return self.__index__()

    def __float__(self):
        v = const_value(self.t)
        if v is None:
            raise Unsupported("float() of a symbolic number reached CPython (rebind float)")
        return float(v)

    def __round__(self, n=None):
        raise Unsupported("round() of symbolic number")

    # bit ops used by DataChunkInfo.to_bytes / from_bytes on small ints
    def __lshift__(self, o):
        k = const_value(to_term(o))
        if not isinstance(k, int):
            raise Unsupported("symbolic shift amount")
        return SNum(self.t * (2 ** k))

    def __rlshift__(self, o):
        raise Unsupported("symbolic shift amount")

    def __or__(self, o):
        raise Unsupported("bit-or on symbolic integers (model flags as booleans)")

    __ror__ = __or__
    __and__ = __or__
    __rand__ = __or__

    def __repr__(self):
        return f"SNum({z3.simplify(self.t)})"

    def __format__(self, spec):
        """formatting a symbolic number into a string gives an opaque token that int() turns back into the term
        (used for paths like 'patch_{:d}')"""
        c = const_value(self.t)
        if c is not None:
            return format(c if not isinstance(c, Fraction) else float(c), spec)
        if spec not in ("", "d"):
            raise Unsupported(f"format spec '{spec}' on a symbolic number")
        return token_for(self)

    def to_bytes(self, length=1, byteorder="big", **k):
        if length != 1:
            raise Unsupported("to_bytes of a symbolic integer with length != 1")
        from .fsmodel_sym import BytePart
        return BytePart(self)

    # numpy-scalar compatible helpers
    def item(self):
        return self

    def astype(self, *_a, **_k):
        return self

    @property
    def value(self):  # astropy Quantity compat
        return self


class SArrBase:
    """marker base class of array proxies (defined in arrays.py)"""
    __slots__ = ()


def _div(a, b):
    a, b = to_real(a), to_real(b)
    ctx = Ctx.cur
    if ctx is not None:
        ctx.side_condition("division_by_zero", b != 0)
    return SNum(a / b)


def _floordiv(a, b):
    if not (_is_int(a) and _is_int(b)):
        raise Unsupported("floor division of reals")
    ctx = Ctx.cur
    if ctx is not None:
        ctx.side_condition("division_by_zero", b != 0)
    # python floor semantics; z3 int division is euclidean (equal for b > 0)
    return SNum(z3.If(b > 0, a / b, z3.If(a % b == 0, a / b, a / b - 1)))


def _mod(a, b):
    if _is_int(a) and _is_int(b):
        ctx = Ctx.cur
        if ctx is not None:
            ctx.side_condition("division_by_zero", b != 0)
        vb = const_value(b)
        if isinstance(vb, int) and vb > 0:
            return SNum(a % b)
        # python: result has the sign of the divisor; z3: euclidean remainder in [0, |b|)
        r = a % b
        return SNum(z3.If(b > 0, r, z3.If(r == 0, r, r + b)))
    # real modulo by a positive modulus m: ASSUMED contract  x % m = x - m*k(x) with k integer and 0 <= x % m < m
    a, b = to_real(a), to_real(b)
    ctx = Ctx.cur
    K = z3.Function("mod_quotient", z3.RealSort(), z3.RealSort(), z3.IntSort())
    if ctx is not None and not ctx.ghost.get("realmod_axiom"):
        ctx.ghost["realmod_axiom"] = True
        x, m = z3.Real("x?mod"), z3.Real("m?mod")
        ctx.assume(z3.ForAll([x, m], z3.Implies(m > 0, z3.And(x - m * z3.ToReal(K(x, m)) >= 0, x - m * z3.ToReal(K(x, m)) < m)),
                             patterns=[K(x, m)]), "python:real modulo (result in [0, m) for m > 0)")
        ctx.assume(z3.ForAll([x, m], z3.Implies(z3.And(m > 0, x >= 0, x < m), K(x, m) == 0), patterns=[K(x, m)]),
                   "python:real modulo (identity on [0, m))")
        ctx.assume(z3.ForAll([x, m], z3.Implies(z3.And(m > 0, x >= -m, x < 0), K(x, m) == -1), patterns=[K(x, m)]),
                   "python:real modulo (one wrap for [-m, 0))")
        ctx.trust("python/numpy real modulo: x % m = x - m*floor(x/m) in [0, m) for m > 0")
    if ctx is not None:
        ctx.side_condition("modulus_positive", b > 0)
    return SNum(a - b * z3.ToReal(K(a, b)))


def _pow(base, exp):
    e = const_value(to_term(exp))
    if isinstance(e, int) and not isinstance(e, bool) and 0 <= e <= 4:
        bt = to_term(base)
        r = z3.IntVal(1) if _is_int(bt) else z3.RealVal(1)
        for _ in range(e):
            r = r * bt
        return SNum(r)
    from . import realfn
    return realfn.power(base, exp)


TOKENS = []
_TOK_OPEN, _TOK_CLOSE = "\u27e6", "\u27e7"


def token_for(v):
    for k, t in enumerate(TOKENS):
        if t.t.eq(v.t):
            return f"{_TOK_OPEN}{k}{_TOK_CLOSE}"
    TOKENS.append(v)
    return f"{_TOK_OPEN}{len(TOKENS) - 1}{_TOK_CLOSE}"


def parse_token(s):
    """the symbolic number a token string stands for, or None"""
    if isinstance(s, str) and s.startswith(_TOK_OPEN) and s.endswith(_TOK_CLOSE):
        try:
            return TOKENS[int(s[1:-1])]
        except (ValueError, IndexError):
            return None
    return None


def num(x):
    """wrap python numbers as SNum (identity on SNum)"""
    return x if isinstance(x, SNum) else SNum(to_term(x))


# --------------------------------------------------------------------------------------------------------
# obligations and paths
# --------------------------------------------------------------------------------------------------------

class Obligation:
    __slots__ = ("name", "status", "ms", "backend", "model", "path", "detail", "smt2", "kind", "witness")

    def __init__(self, name, status, ms, backend, model=None, path=(), detail="", smt2=None, kind="check",
                 witness=None):
        self.name, self.status, self.ms, self.backend = name, status, ms, backend
        self.model, self.path, self.detail, self.smt2, self.kind = model, tuple(path), detail, smt2, kind
        self.witness = witness

    def to_json(self):
        d = {"name": self.name, "status": self.status, "ms": round(self.ms, 2), "backend": self.backend,
             "kind": self.kind, "path": "".join("T" if x else "F" for x in self.path)}
        if self.detail:
            d["detail"] = self.detail
        if self.witness is not None:
            d["witness"] = self.witness
        return d


class Ctx:
    """One execution of a unit along one decision vector."""
    cur: "Ctx | None" = None

    def __init__(self, decisions=(), unit_name="", opts=None):
        from . import arrays as _arrays
        _arrays._bv_counter[0] = 0      # deterministic bound-variable names per path: solver behaviour must not depend
        self.unit_name = unit_name      # on which units ran earlier in the same worker process
        self.opts = opts or {}
        self.solver = z3.Solver()
        self.solver.set("timeout", FEAS_TIMEOUT_MS)
        # quantifier-free relaxation of the path condition: used for feasibility of branches, covers and the canary
        # (satisfiability *with* quantified axioms is what SMT solvers are slow at; dropping them over-approximates
        # feasibility, which is sound for pruning: an explored path that is infeasible only adds vacuous obligations)
        self.fsolver = z3.Solver()
        self.fsolver.set("timeout", FEAS_TIMEOUT_MS)
        self.initial = list(decisions)
        self.decisions = list(decisions)
        self.pos = 0
        self.forks = []
        self.results: list[Obligation] = []
        self.assumptions = []  # (origin, text)
        self.counts = Counter()
        self.inputs = {}  # name -> proxy, for model concretisation
        self.ghost = {}
        self.trusted = set()  # names of assumed contracts used on this path
        self.covers = 0
        self.side_seen = set()
        self.size_terms = []  # integer terms that denote sizes; bounded first when searching for models
        self.quantified_assumptions = []
        self.ended = None
        self.binders = []   # [(z3 Int var, guard term)]: inside `binding`, fresh symbols are functions of the bound variables

    # -- naming -------------------------------------------------------------------------------------
    def fresh_name(self, hint):
        self.counts[hint] += 1
        c = self.counts[hint]
        return hint if c == 1 else f"{hint}!{c}"

    # -- binder scopes: evaluating the body of a quantifier / comprehension for an arbitrary bound variable -------------
    def binding(self, var, guard):
        """context manager: every symbol created inside is a (Skolem) function of `var` (and of the enclosing bound
        variables), every assumption made inside is generalised:  forall var. guard -> assumption.  Sound because the
        contracts that create symbols hold for every value of the bound variable."""
        ctx = self

        class _B:
            def __enter__(s):
                ctx.binders.append((var, tob(guard)))

            def __exit__(s, *e):
                ctx.binders.pop()
                return False
        return _B()

    def _bound_apply(self, hint, sort):
        vars_ = [v for v, _ in self.binders]
        f = z3.Function(self.fresh_name(hint), *([v.sort() for v in vars_] + [sort]))
        return f(*vars_)

    def fresh_int(self, hint, lo=None, hi=None, size=False):
        v = SNum(self._bound_apply(hint, z3.IntSort()) if self.binders else z3.Int(self.fresh_name(hint)))
        if lo is not None:
            self.assume(v.t >= to_term(lo), "type")
        if hi is not None:
            self.assume(v.t <= to_term(hi), "type")
        if size:
            self.size_terms.append(v.t)
        return v

    def fresh_real(self, hint):
        if self.binders:
            return SNum(self._bound_apply(hint, z3.RealSort()))
        return SNum(z3.Real(self.fresh_name(hint)))

    def fresh_bool(self, hint):
        if self.binders:
            return SBool(self._bound_apply(hint, z3.BoolSort()))
        return SBool(z3.Bool(self.fresh_name(hint)))

    def fresh_fn(self, hint, *sorts):
        if self.binders:
            vars_ = [v for v, _ in self.binders]
            f = z3.Function(self.fresh_name(hint), *([v.sort() for v in vars_] + list(sorts)))
            return lambda *a: f(*vars_, *a)
        return z3.Function(self.fresh_name(hint), *sorts)

    # -- path condition ----------------------------------------------------------------------------
    def replaying(self):
        return self.pos < len(self.initial)

    def assume(self, term, origin="assume", text=None):
        term = tob(term)
        if z3.is_true(term):
            return
        if self.binders:
            vars_ = [v for v, _ in self.binders]
            term = z3.ForAll(vars_, z3.Implies(z3.And([g for _, g in self.binders]), term))
        self.solver.add(term)
        if has_quantifier(term):
            self.quantified_assumptions.append(term)
        else:
            self.fsolver.add(term)
        self.assumptions.append((origin, text or _short(term)))

    def _feasible(self, cond):
        if has_quantifier(cond):
            # quantified branch condition (np.any / np.all / array_equal): satisfiability with quantifiers is rarely
            # decided quickly, refutation usually is; a short budget keeps exploration fast (unknown = feasible)
            self.solver.set("timeout", 300)
            try:
                r = self.solver.check(cond)
            finally:
                self.solver.set("timeout", FEAS_TIMEOUT_MS)
        else:
            r = self.fsolver.check(cond)
        return r != z3.unsat  # unknown counts as feasible (only adds obligations)

    def branch(self, cond):
        cond = z3.simplify(cond)
        if z3.is_true(cond):
            return True
        if z3.is_false(cond):
            return False
        if self.binders and _mentions(cond, [v for v, _ in self.binders]):
            raise Unsupported("control flow depends on a bound variable (inside a comprehension / quantifier body)")
        if self.pos >= MAX_DECISIONS:
            raise Unsupported(f"more than {MAX_DECISIONS} symbolic decisions on one path (a loop without contract that does not terminate "
                              "on symbolic data?)")
        if self.pos < len(self.decisions):
            d = self.decisions[self.pos]
        else:
            t = self._feasible(cond)
            f = self._feasible(z3.Not(cond))
            if t and f:
                d = True
                self.forks.append(len(self.decisions))
            elif t or f:
                d = ("forced", t)
            else:
                raise Infeasible()
            self.decisions.append(d)
        self.pos += 1
        val = d[1] if isinstance(d, tuple) else d
        lit = cond if val else z3.Not(cond)
        self.solver.add(lit)
        if not has_quantifier(lit):
            self.fsolver.add(lit)
        return val

    def path(self):
        return [d[1] if isinstance(d, tuple) else d for d in self.decisions[: self.pos]]

    # -- obligations -------------------------------------------------------------------------------
    def check(self, name, clause, kind="check", detail=""):
        """prove pc => clause"""
        if self.replaying():
            return None
        from . import solve
        clause = tob(clause)
        ob = solve.discharge(self, name, clause, kind=kind, detail=detail)
        self.results.append(ob)
        # after a checked clause we may assume it (standard): keeps later obligations independent
        if ob.status == "discharged":
            self.solver.add(clause)
            if not has_quantifier(clause):
                self.fsolver.add(clause)
        return ob

    def probe(self, clause, timeout_ms=3000):
        """quick attempt to prove pc => clause (used to choose between contract variants); False also on unknown.
        Nothing is recorded: a failed probe is not an obligation."""
        clause = tob(clause)
        s = self.solver
        try:
            lf = max(1.0, min(6.0, os.getloadavg()[0] / (os.cpu_count() or 1)))     # wall-clock budget on a busy machine
        except OSError:
            lf = 1.0
        s.push()
        try:
            s.set("timeout", int(timeout_ms * lf))
            s.add(z3.Not(clause))
            r = s.check()
        finally:
            s.pop()
            s.set("timeout", FEAS_TIMEOUT_MS)
        if r == z3.unsat:
            self.solver.add(clause)
            return True
        return False

    def lemma_nra(self, name, formula, detail=""):
        """validity of a closed, quantifier-free-after-skolemisation statement of pure polynomial real arithmetic,
        decided by z3's nlsat on a fresh solver (independent of the path condition).  Returns the Obligation."""
        if self.replaying():
            return None
        t0 = time.time()
        s = z3.SolverFor("QF_NRA")
        s.set("timeout", SOLVER_TIMEOUT_MS)
        s.add(z3.Not(formula))
        r = s.check()
        ms = (time.time() - t0) * 1000
        st = "discharged" if r == z3.unsat else ("refuted" if r == z3.sat else "unknown")
        ob = Obligation(name, st, ms, "z3-nlsat", path=self.path(), kind="lemma", detail=detail,
                        smt2=s.to_smt2() if st != "discharged" else None,
                        witness={str(d): str(s.model()[d]) for d in s.model().decls()} if r == z3.sat else None)
        self.results.append(ob)
        return ob

    def side_condition(self, name, clause):
        """implicit safety conditions (division by zero, index in bounds): obligation once per site+term"""
        if self.opts.get("no_side_conditions"):
            return
        key = (name, clause.sexpr() if hasattr(clause, "sexpr") else str(clause))
        if key in self.side_seen:
            return
        self.side_seen.add(key)
        if self.opts.get("side_conditions_assumed"):
            self.assume(clause, "encoding:" + name)
            return
        self.check(f"{self.unit_name}/safe:{name}#{len(self.side_seen)}", clause, kind="safety")

    def cover(self, name):
        """reachability witness: the current pc must be satisfiable"""
        if self.replaying():
            return
        t0 = time.time()
        r = self.fsolver.check()
        ms = (time.time() - t0) * 1000
        st = "covered" if r == z3.sat else ("cover-unknown" if r == z3.unknown else "vacuous")
        self.covers += 1
        self.results.append(Obligation(f"{self.unit_name}/cover:{name}", st, ms, "z3", path=self.path(), kind="cover"))

    def canary(self, name="canary"):
        """check(False) must be refuted: guards against contradictory assumptions"""
        if self.replaying():
            return
        t0 = time.time()
        r = self.fsolver.check()
        ms = (time.time() - t0) * 1000
        st = "canary-ok" if r == z3.sat else ("canary-unknown" if r == z3.unknown else "canary-passed-vacuous")
        self.results.append(Obligation(f"{self.unit_name}/{name}", st, ms, "z3", path=self.path(), kind="canary"))

    def trust(self, name):
        self.trusted.add(name)


_HQ = {}


def _mentions(term, vars_):
    ids = {v.get_id() for v in vars_}
    seen = set()
    stack = [term]
    while stack:
        e = stack.pop()
        if e.get_id() in seen:
            continue
        seen.add(e.get_id())
        if e.get_id() in ids:
            return True
        if z3.is_quantifier(e):
            stack.append(e.body())
        elif z3.is_app(e):
            stack.extend(e.children())
    return False


def has_quantifier(term):
    k = term.get_id()
    v = _HQ.get(k)
    if v is not None and v[0].eq(term):
        return v[1]
    seen, stack, found = set(), [term], False
    while stack:
        e = stack.pop()
        i = e.get_id()
        if i in seen:
            continue
        seen.add(i)
        if z3.is_quantifier(e):
            found = True
            break
        stack.extend(e.children())
    if len(_HQ) > 50000:
        _HQ.clear()
    _HQ[k] = (term, found)     # keeping the term alive keeps its id from being recycled
    return found


def _short(term, n=160):
    s = str(z3.simplify(term) if not z3.is_quantifier(term) else term).replace("\n", " ")
    return s if len(s) <= n else s[: n - 3] + "..."


class UnitResult:
    def __init__(self, name):
        self.name = name
        self.obligations: list[Obligation] = []
        self.paths = 0
        self.trusted = set()
        self.assumption_origins = Counter()
        self.error = None  # ("unsupported"|"crash", text)
        self.wall = 0.0
        self.exceptions = []
        self.meta = {}


def explore(unit_fn, name, opts=None, max_paths=4000):
    """DFS over decision vectors; unit_fn(ctx) runs the transformed real code on proxies."""
    res = UnitResult(name)
    t0 = time.time()
    stack = [[]]
    while stack:
        dec = stack.pop()
        ctx = Ctx(dec, name, opts)
        Ctx.cur = ctx
        try:
            unit_fn(ctx)
        except EndPath:
            pass
        except Unsupported as e:
            res.error = ("unsupported", f"{e} [path {''.join('T' if x else 'F' for x in ctx.path())}]")
        except Exception as e:  # noqa: BLE001 - a crash of harness or shim is a checker error, reported as such
            import traceback
            tb = e.__traceback__
            last = None
            while tb is not None:
                last = tb
                tb = tb.tb_next
            where = last.tb_frame.f_code.co_filename if last is not None else ""
            if isinstance(e, (KeyError, IndexError, AttributeError, TypeError)) and "/contracts/" in where.replace("\\", "/"):
                # the sidecar contract itself tripped over state the changed code no longer produces (a log entry that was never
                # made, a result of another type): the contract has to be restated - undecided, neither a violation nor a crash
                res.error = ("unsupported", f"the contract harness could not follow the code ({type(e).__name__}: {e} at "
                                            f"{where.rsplit('/', 1)[-1]}:{last.tb_lineno}) [path {''.join('T' if x else 'F' for x in ctx.path())}]")
            else:
                res.error = ("crash", traceback.format_exc(limit=12))
        finally:
            Ctx.cur = None
        res.paths += 1
        res.obligations.extend(ctx.results)
        res.trusted |= ctx.trusted
        for o, _ in ctx.assumptions:
            res.assumption_origins[o.split(":")[0]] += 1
        if res.error:
            break
        for idx in ctx.forks:
            if idx >= len(dec):
                stack.append([(d if not isinstance(d, tuple) else d) for d in ctx.decisions[:idx]] + [False])
        if res.paths > max_paths:
            res.error = ("unsupported", f"more than {max_paths} paths")
            break
    res.wall = time.time() - t0
    return res
