"""Run-time support for the transformed code: the `__vc` namespace (loop cutting, emit, comprehensions)."""
from __future__ import annotations

import types

import z3

from . import core, builtins_shim as B
from .core import Ctx, SNum, SBool, Unsupported, EndPath, tob, to_term, is_sym
from .arrays import SArr, SRec, SList, dim_const, dim_term


class _Unbound:
    def __repr__(self):
        return "<UNBOUND>"


UNBOUND = _Unbound()


class Poison:
    """value of a variable that was first bound inside a cut loop and whose value the loop contract does not
    describe: harmless if overwritten before use, Unsupported (UNDECIDED) if used"""

    def __init__(self, name, site):
        object.__setattr__(self, "_n", (name, site))

    def _boom(self, *a, **k):
        n, s = object.__getattribute__(self, "_n")
        raise Unsupported(f"{s}: variable '{n}' is first bound inside the loop and its value is used later; "
                          f"the loop contract must give fresh['{n}']")

    __getattr__ = __bool__ = __len__ = __iter__ = __call__ = __getitem__ = __setitem__ = _boom
    __add__ = __radd__ = __sub__ = __rsub__ = __mul__ = __rmul__ = __truediv__ = __rtruediv__ = _boom
    __lt__ = __le__ = __gt__ = __ge__ = __eq__ = __ne__ = __hash__ = __index__ = _boom

ACTIVE_LOOPS = {}   # site -> LoopSpec   (set by the unit being verified)


class LoopSpec:
    """Sidecar loop contract.

    inv(L) -> SBool/bool   L gives attribute access to the locals, L.j (iterations completed), L.n (length of
                           the iterable for `for` loops), L.it (the iterable), L.old.<name> (snapshot at entry),
                           L.bound('name')
    fresh: {name: fn(L) -> value}   how to havoc a variable when it cannot be derived from its entry value
    mutates: extra names whose objects are mutated in place (beyond the syntactic scan)
    keep: names found by the syntactic scan that the loop provably does not change (skips havoc; checked: the
          name must be identical after the body)
    """

    def __init__(self, inv, fresh=None, mutates=(), keep=(), variant=None, name=None):
        self.inv, self.fresh, self.mutates, self.keep = inv, dict(fresh or {}), tuple(mutates), tuple(keep)
        self.name = name


class _NS:
    def __init__(self, d, ctl):
        object.__setattr__(self, "_d", d)
        object.__setattr__(self, "_ctl", ctl)

    def __getattr__(self, k):
        d = object.__getattribute__(self, "_d")
        ctl = object.__getattribute__(self, "_ctl")
        if k == "j":
            return ctl.j_eval
        if k == "n":
            return ctl.n
        if k == "it":
            return ctl.it
        if k == "old":
            return ctl.old_ns
        if k == "ctx":
            return Ctx.cur
        if k in d:
            return d[k]
        raise AttributeError(f"loop invariant refers to local '{k}' which is not bound here")

    def bound(self, name):
        d = object.__getattribute__(self, "_d")
        ctl = object.__getattribute__(self, "_ctl")
        if name in ctl.bound_flags and ctl.phase == "assume":
            return ctl.bound_flags[name]
        return name in d and d[name] is not UNBOUND

    def has(self, name):
        return name in object.__getattribute__(self, "_d")


class _OldNS:
    def __init__(self, d):
        self._d = d

    def __getattr__(self, k):
        try:
            return self._d[k]
        except KeyError:
            raise AttributeError(k)


def snapshot(v):
    if isinstance(v, (SArr, SRec)):
        return v.copy()
    if hasattr(v, "vc_snapshot"):
        return v.vc_snapshot()
    return v


def fresh_like(ctx, name, v):
    if isinstance(v, SBool) or isinstance(v, bool):
        return ctx.fresh_bool(name)
    if isinstance(v, SNum):
        return ctx.fresh_int(name) if v.is_int else ctx.fresh_real(name)
    if isinstance(v, int):
        return ctx.fresh_int(name)
    if isinstance(v, float):
        return ctx.fresh_real(name)
    if isinstance(v, SArr):
        return SArr.fresh(ctx, name, v.shape, v.kind)
    if isinstance(v, SRec):
        return SRec(v.n, {k: SArr.fresh(ctx, f"{name}.{k}", a.shape, a.kind) for k, a in v.fields.items()})
    if hasattr(v, "vc_fresh_like"):
        return v.vc_fresh_like(ctx, name)
    raise Unsupported(f"no havoc rule for loop variable '{name}' of type {type(v).__name__}; "
                      f"the loop contract must give fresh['{name}']")


class LoopCtl:
    def __init__(self, site, iterable, locs, bound, mutated, targets=(), live=None):
        ctx = Ctx.cur
        self.target_names = tuple(targets)
        self.live_after = None if live is None else set(live)
        self.ctx, self.site = ctx, site
        self.spec = ACTIVE_LOOPS[site]
        self.is_for = iterable is not None
        self.it = B.indexable(iterable) if self.is_for else None
        self.n = B.vc_len(self.it) if self.is_for else None
        self.entry = dict(locs)
        self.bound_names = [b for b in bound if b not in self.spec.keep]
        self.mut_names = [m for m in list(mutated) + list(self.spec.mutates) if m not in self.spec.keep]
        self.old = {k: snapshot(v) for k, v in locs.items() if k in self.mut_names or k in self.bound_names}
        self.old_ns = _OldNS(self.old)
        self.bound_flags = {}
        self.phase = "entry"
        self.tag = f"{ctx.unit_name}/{site}"
        # entry: Inv(0)
        self.j_eval = 0
        self._check("inv_entry", locs)
        # havoc state
        self.j = ctx.fresh_int("j", lo=0)
        if self.is_for:
            ctx.assume(self.j.t <= dim_term(self.n), "loop")
        self.j_eval = self.j
        self.hv_values = {}
        # ghost objects registered by the harness for this site (mutated by stubs called from the body)
        for g_i, g in enumerate(ctx.ghost.get("loop_ghosts", {}).get(site, [])):
            g.vc_havoc(ctx, f"ghost{g_i}")
        # objects mutated in place
        for m in self.mut_names:
            if m in self.entry and m not in self.bound_names:
                self._havoc_object(m, self.entry[m])

    # -- invariant evaluation ------------------------------------------------------------------------------
    def _eval_inv(self, locs):
        d = {k: v for k, v in locs.items() if not k.startswith("_vc")}
        d.update(self.hv_values_view(locs))
        return self.spec.inv(_NS(d, self))

    def hv_values_view(self, locs):
        return {}

    def _check(self, kind, locs):
        try:
            clause = self._eval_inv(locs)
        except AttributeError as e:
            raise Unsupported(f"{self.site}: {e}")
        if isinstance(clause, (list, tuple)):
            for k, c in enumerate(clause):
                self.ctx.check(f"{self.tag}/{kind}[{k}]", c, kind=kind)
        elif isinstance(clause, dict):
            for k, c in clause.items():
                self.ctx.check(f"{self.tag}/{kind}[{k}]", c, kind=kind)
        else:
            self.ctx.check(f"{self.tag}/{kind}", clause, kind=kind)

    def _havoc_object(self, name, obj):
        if name in self.spec.fresh:
            return  # handled through hv (rebinding)
        if isinstance(obj, SArr):
            f = core.Ctx.cur.fresh_fn(name, *([z3.IntSort()] * obj.ndim + [
                {"f": z3.RealSort(), "i": z3.IntSort(), "b": z3.BoolSort()}[obj.kind]]))
            obj._elem = lambda *i: f(*i)
            return
        if isinstance(obj, SRec):
            for k, a in obj.fields.items():
                self._havoc_object(f"{name}.{k}", a)
            return
        if hasattr(obj, "vc_havoc"):
            obj.vc_havoc(self.ctx, name)
            return
        raise Unsupported(f"{self.site}: object '{name}' of type {type(obj).__name__} is mutated in the loop; "
                          f"the loop contract must give fresh['{name}']")

    # -- called from the transformed code ----------------------------------------------------------------
    def hv(self, name):
        if name in self.spec.keep:
            return self.entry.get(name, UNBOUND)
        if name not in self.bound_names and name not in self.spec.fresh:
            # only mutated in place: the object was havoc'd in place at loop entry
            return self.entry.get(name, UNBOUND)
        ctx = self.ctx
        pre = self.entry.get(name, UNBOUND)
        ns = _NS(dict(self.entry), self)
        if pre is UNBOUND:
            # first bound inside the loop: after the loop it is bound iff some iteration bound it
            if self.live_after is not None and name not in self.live_after and name not in self.spec.fresh:
                # never read after the loop: whether it is bound or not cannot matter; poison if it is read anyway
                return Poison(name, self.site)
            if name in self.target_names:
                flag = SBool(self.j.t > 0)      # a loop target is bound iff at least one iteration ran
            else:
                flag = ctx.fresh_bool(f"bound_{name}")
            self.bound_flags[name] = flag
            if name not in self.spec.fresh:
                if ctx.branch(flag.t):
                    return Poison(name, self.site)
                return UNBOUND
            if ctx.branch(flag.t):
                v = self.spec.fresh[name](ns)
                self.hv_values[name] = v
                return v
            return UNBOUND
        if name in self.spec.fresh:
            v = self.spec.fresh[name](ns)
        else:
            v = fresh_like(ctx, name, pre)
        self.hv_values[name] = v
        return v

    def assume_inv(self, locs):
        self.phase = "assume"
        try:
            clause = self._eval_inv(locs)
        except AttributeError as e:
            raise Unsupported(f"{self.site}: {e}")
        cs = clause.values() if isinstance(clause, dict) else (clause if isinstance(clause, (list, tuple)) else [clause])
        for c in cs:
            self.ctx.assume(tob(c), "loop_invariant")
        self.phase = "body"

    def take(self, test_fn):
        ctx = self.ctx
        if self.is_for:
            took = ctx.branch(self.j.t < dim_term(self.n))
        else:
            took = bool(test_fn())
        if took:
            ctx.cover(f"{self.site}/iteration")
        return took

    def element(self):
        return B.item_of(self.it, self.j)

    def preserved(self, locs):
        self.j_eval = self.j + 1
        self.phase = "preserved"
        self._check("inv_preserved", locs)
        raise EndPath()

    def after_break(self, locs):
        return None

    def exit(self, locs):
        # for-loops: `take` already asserted j == n on this path (not j < n, and j <= n assumed)
        self.ctx.cover(f"{self.site}/exit")
        return None


class _VC:
    UNBOUND = UNBOUND

    @staticmethod
    def cut(site):
        return Ctx.cur is not None and site in ACTIVE_LOOPS

    @staticmethod
    def loop(site, iterable, locs, bound, mutated, targets=(), live=None):
        return LoopCtl(site, iterable, locs, bound, mutated, targets, live)

    @staticmethod
    def emit(value):
        Ctx.cur.ghost.setdefault("emitted", []).append(value)
        hook = Ctx.cur.ghost.get("emit_hook")
        if hook:
            hook(value)
        return None

    @staticmethod
    def emit_from(it):
        hook = Ctx.cur.ghost.get("emit_from_hook")
        if hook:
            return hook(it)
        if B.is_symbolic_iterable(it) and B.has_symbolic_len(it):
            Ctx.cur.ghost.setdefault("emitted", []).append(("from", it))
            return None
        for v in it:
            _VC.emit(v)
        return None

    @staticmethod
    def new_dict():
        from .containers import SymDict
        return SymDict()

    @staticmethod
    def new_list():
        return []

    @staticmethod
    def unpack(e, shape):
        out = []

        def rec(v, sh):
            if sh is None:
                out.append(v)
                return
            vs = list(v)
            if len(vs) != len(sh):
                raise ValueError("not enough values to unpack")
            for a, b in zip(vs, sh):
                rec(a, b)
        rec(e, shape)
        return out

    @staticmethod
    def comp(kind, elt_fn, iterable, conds):
        sym = B.is_symbolic_iterable(iterable) and B.has_symbolic_len(iterable)
        if not sym:
            def gen():
                for e in iterable:
                    if all(c(e) for c in conds):
                        yield elt_fn(e)
            if kind == "list":
                return list(gen())
            if kind == "set":
                return B.vc_set(list(gen()))
            if kind == "dict":
                from .containers import SymDict
                d = SymDict()
                for k, v in gen():
                    d[k] = v
                return d if d.sym else dict(d)
            return gen()
        if conds:
            raise Unsupported("filtered comprehension over a symbolic iterable")
        elt_fn = _freeze_closure(elt_fn)   # a comprehension is evaluated *now*: later rebinding must not leak in
        it = B.indexable(iterable)
        n = B.vc_len(it)
        if kind in ("list", "gen"):
            return B.SSeq(n, lambda j: elt_fn(B.item_of(it, j)), kind="list")
        if kind == "dict":
            from .symmap import mapped_dict
            return mapped_dict(it, n, elt_fn)
        raise Unsupported(f"{kind} comprehension over a symbolic iterable")


def _freeze_closure(fn):
    if not getattr(fn, "__closure__", None):
        return fn
    cells = []
    for c in fn.__closure__:
        try:
            cells.append(types.CellType(c.cell_contents))
        except ValueError:      # empty cell (variable not yet bound)
            cells.append(c)
    return types.FunctionType(fn.__code__, fn.__globals__, fn.__name__, fn.__defaults__, tuple(cells))


VC = _VC()


class _NullLogger:
    def __getattr__(self, name):
        return lambda *a, **k: None


def install_builtins(ns):
    for k, v in B.TABLE.items():
        ns[k] = v


def post_import(module):
    import logging
    for k, v in list(module.__dict__.items()):
        if isinstance(v, logging.Logger):
            module.__dict__[k] = _NullLogger()


# ---------------------------------------------------------------------------------------------------------
# patching callees by contract stubs
# ---------------------------------------------------------------------------------------------------------

class Patches:
    """context manager that rebinds functions/methods of the shadow package and restores them"""

    def __init__(self):
        self.undo = []

    def set(self, owner, name, value):
        d = owner.__dict__
        had = name in d
        old = d.get(name)
        self.undo.append((owner, name, had, old))
        setattr(owner, name, value)

    def replace_function(self, qual, new):
        """rebind every binding of the function object named by qual in all loaded shadow modules"""
        import sys
        from . import shadow
        mod, owner, name, obj = shadow.resolve(qual)
        if isinstance(owner, type):
            raw = owner.__dict__[name]
            if isinstance(raw, staticmethod):
                new = staticmethod(new)
            elif isinstance(raw, classmethod):
                new = classmethod(new)
            self.set(owner, name, new)
            return
        target = obj
        for mname, m in list(sys.modules.items()):
            if (mname == shadow.PKG or mname.startswith(shadow.PKG + ".")) and m is not None:
                for k, v in list(m.__dict__.items()):
                    if v is target:
                        self.set(m, k, new)

    def __enter__(self):
        return self

    def __exit__(self, *exc):
        for owner, name, had, old in reversed(self.undo):
            if had:
                setattr(owner, name, old)
            else:
                try:
                    delattr(owner, name)
                except AttributeError:
                    pass
        self.undo.clear()
        return False
