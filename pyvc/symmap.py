"""dict built by a comprehension over a symbolic iterable: {key(e): value(e) for e in it}"""
from __future__ import annotations

import z3

from .core import SNum, SBool, Ctx, Unsupported, to_term
from .arrays import dim_term
from .builtins_shim import item_of, SSeq


class SymMap:
    """finite map given by n (key, value) pairs; order of insertion is irrelevant for dict equality.
    pair(t) -> (key, value) for 0 <= t < n"""

    def __init__(self, n, pair):
        self.n, self.pair = n, pair

    def vc_len(self):
        return self.n          # assumes distinct keys (checked by the units that rely on it)

    def items(self):
        return SSeq(self.n, self.pair)

    def keys(self):
        return SSeq(self.n, lambda t: self.pair(t)[0])

    def values(self):
        return SSeq(self.n, lambda t: self.pair(t)[1])

    def __iter__(self):
        raise Unsupported("iteration over a symbolic dict outside a cut loop")

    def __getitem__(self, k):
        raise Unsupported("lookup in a comprehension-built symbolic dict (needs a witness)")


def mapped_dict(it, n, elt_fn):
    def pair(t):
        k, v = elt_fn(item_of(it, t))
        return (k, v)
    return SymMap(n, pair)
