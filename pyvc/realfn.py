"""Transcendental / algebraic real functions as uninterpreted symbols with axioms (DESIGN §5.6).

Everything here is an *assumption about mathematics over the reals* (listed in the evidence as `realfn:<name>`),
added once per path when the function is first used.
"""
from __future__ import annotations

import z3

from . import core
from .core import Ctx, SNum, to_term, to_real

R = z3.RealSort()
PI = z3.Real("pi")
F = {name: z3.Function(name + "_", R, R) for name in
     ("sqrt", "sin", "cos", "arcsin", "arccos", "log", "log10", "exp", "exp10", "floor", "ceil")}
POW = z3.Function("pow_", R, R, R)


def _x():
    return z3.Real("x?rf")


def _axioms(name):
    x, y = z3.Real("x?rf"), z3.Real("y?rf")
    f = F.get(name)
    if name == "pi":
        return [z3.And(PI > z3.RealVal("3.14159"), PI < z3.RealVal("3.1416"))]
    if name == "sqrt":
        return [z3.ForAll([x], z3.Implies(x >= 0, z3.And(f(x) >= 0, f(x) * f(x) == x)), patterns=[f(x)]),
                z3.ForAll([x, y], z3.Implies(z3.And(x >= 0, y >= 0, x < y), f(x) < f(y)),
                          patterns=[z3.MultiPattern(f(x), f(y))])]
    if name == "sin":
        c = F["cos"]
        return [z3.ForAll([x], z3.And(f(x) >= -1, f(x) <= 1, f(x) * f(x) + c(x) * c(x) == 1), patterns=[f(x)]),
                z3.ForAll([x, y], z3.Implies(z3.And(x >= -PI / 2, y <= PI / 2, x < y), f(x) < f(y)),
                          patterns=[z3.MultiPattern(f(x), f(y))]),
                f(z3.RealVal(0)) == 0]
    if name == "cos":
        s = F["sin"]
        return [z3.ForAll([x], z3.And(f(x) >= -1, f(x) <= 1, f(x) * f(x) + s(x) * s(x) == 1), patterns=[f(x)]),
                z3.ForAll([x], z3.Implies(z3.And(x > -PI / 2, x < PI / 2), f(x) > 0), patterns=[f(x)]),
                f(z3.RealVal(0)) == 1]
    if name == "arcsin":
        s = F["sin"]
        return [z3.ForAll([x], z3.Implies(z3.And(x >= -1, x <= 1),
                                          z3.And(f(x) >= -PI / 2, f(x) <= PI / 2, s(f(x)) == x)), patterns=[f(x)]),
                z3.ForAll([x], z3.Implies(z3.And(x >= -PI / 2, x <= PI / 2), f(s(x)) == x), patterns=[f(s(x))]),
                z3.ForAll([x, y], z3.Implies(z3.And(x >= -1, y <= 1, x < y), f(x) < f(y)),
                          patterns=[z3.MultiPattern(f(x), f(y))])]
    if name == "arccos":
        c = F["cos"]
        return [z3.ForAll([x], z3.Implies(z3.And(x >= -1, x <= 1),
                                          z3.And(f(x) >= 0, f(x) <= PI, c(f(x)) == x)), patterns=[f(x)]),
                z3.ForAll([x], z3.Implies(z3.And(x >= 0, x <= PI), f(c(x)) == x), patterns=[f(c(x))])]
    if name == "log":
        e = F["exp"]
        return [z3.ForAll([x], z3.Implies(x > 0, e(f(x)) == x), patterns=[f(x)]),
                z3.ForAll([x], z3.And(e(x) > 0, f(e(x)) == x), patterns=[e(x)]),
                z3.ForAll([x, y], z3.Implies(z3.And(x > 0, x < y), f(x) < f(y)),
                          patterns=[z3.MultiPattern(f(x), f(y))])]
    if name == "exp":
        return [z3.ForAll([x], f(x) > 0, patterns=[f(x)]),
                z3.ForAll([x, y], z3.Implies(x < y, f(x) < f(y)), patterns=[z3.MultiPattern(f(x), f(y))])]
    if name == "log10":
        e = F["exp10"]
        return [z3.ForAll([x], z3.Implies(x > 0, e(f(x)) == x), patterns=[f(x)]),
                z3.ForAll([x], z3.And(e(x) > 0, f(e(x)) == x), patterns=[e(x)]),
                z3.ForAll([x, y], z3.Implies(z3.And(x > 0, x < y), f(x) < f(y)),
                          patterns=[z3.MultiPattern(f(x), f(y))])]
    if name == "exp10":
        return [z3.ForAll([x], f(x) > 0, patterns=[f(x)]),
                z3.ForAll([x, y], z3.Implies(x < y, f(x) < f(y)), patterns=[z3.MultiPattern(f(x), f(y))])]
    if name == "floor":
        return [z3.ForAll([x], z3.And(f(x) <= x, x < f(x) + 1, z3.IsInt(f(x))), patterns=[f(x)])]
    if name == "ceil":
        return [z3.ForAll([x], z3.And(f(x) >= x, x > f(x) - 1, z3.IsInt(f(x))), patterns=[f(x)])]
    if name == "pow":
        return [z3.ForAll([x, y], z3.Implies(x > 0, POW(x, y) > 0), patterns=[POW(x, y)])]
    return []


DEPENDS = {"sin": ("pi", "cos"), "cos": ("pi",), "arcsin": ("pi", "sin"), "arccos": ("pi", "cos"),
           "log": ("exp",), "log10": ("exp10",)}


def use(name):
    ctx = Ctx.cur
    used = ctx.ghost.setdefault("realfn_used", set())
    if name in used:
        return
    used.add(name)
    for d in DEPENDS.get(name, ()):
        use(d)
    for ax in _axioms(name):
        ctx.assume(ax, f"realfn:{name}")
    ctx.trust(f"realfn:{name} (axioms over the reals)")


def pi():
    use("pi")
    return SNum(PI)


def _factors(t, out, coeff):
    """flatten a product into its non-constant factors (with multiplicity) and a rational coefficient"""
    if z3.is_rational_value(t) or z3.is_int_value(t):
        coeff[0] *= t.as_fraction()
        return
    if z3.is_app(t):
        k = t.decl().kind()
        if k == z3.Z3_OP_MUL:
            for c in t.children():
                _factors(c, out, coeff)
            return
        if k == z3.Z3_OP_TO_REAL:
            inner = t.arg(0)
            if z3.is_int_value(inner) or (z3.is_app(inner) and inner.decl().kind() == z3.Z3_OP_MUL):
                _factors(inner, out, coeff)
                return
        if k == z3.Z3_OP_POWER and z3.is_int_value(t.arg(1)) and 0 <= t.arg(1).as_long() <= 8:
            for _ in range(t.arg(1).as_long()):
                _factors(t.arg(0), out, coeff)
            return
    out.append(t)


def _exact_sqrt(q):
    """exact square root of a non-negative Fraction or None"""
    import math
    if q < 0:
        return None
    a, b = math.isqrt(q.numerator), math.isqrt(q.denominator)
    if a * a == q.numerator and b * b == q.denominator:
        from fractions import Fraction
        return Fraction(a, b)
    return None


def sqrt_term(t):
    """sqrt over the reals with the product rule applied when the term is built:  sqrt(c^2 * a * a * r) = |c| * |a| * sqrt(r).
    True wherever the square root is defined; where it is not (negative argument: NaN in numpy, not modelled) it only fixes
    which unconstrained value stands for it.  Makes  sqrt(dz^2 w) = dz sqrt(w)  a syntactic identity instead of a nonlinear
    proof obligation."""
    from fractions import Fraction
    use("sqrt")
    f = F["sqrt"]
    t = to_real(t) if not z3.is_real(t) else t
    fs, coeff = [], [Fraction(1)]
    _factors(z3.simplify(t), fs, coeff)
    if coeff[0] == 0:
        return z3.RealVal(0)
    groups = {}
    for x in fs:
        groups.setdefault(x.sexpr(), [x, 0])[1] += 1
    outside, inside = [], []
    for key in sorted(groups):
        x, m = groups[key]
        x = to_real(x) if not z3.is_real(x) else x
        outside += [z3.If(x >= 0, x, -x)] * (m // 2)
        if m % 2:
            inside.append(x)
    c = coeff[0]
    r = _exact_sqrt(c)
    if r is not None:
        if r != 1:
            outside.insert(0, z3.RealVal(str(r)))
    else:
        inside.insert(0, z3.RealVal(str(c)))
    if inside:
        arg = inside[0]
        for x in inside[1:]:
            arg = arg * x
        outside.append(f(arg))
    if not outside:
        return z3.RealVal(1)
    res = outside[0]
    for x in outside[1:]:
        res = res * x
    return res


def apply(name, x):
    """apply to scalar or array proxy"""
    from .arrays import SArr
    use(name)
    f = F[name]
    if name == "sqrt":
        f = sqrt_term
    if isinstance(x, SArr):
        old = x._elem
        k = x.kind
        return SArr(x.shape, lambda *i: f(to_real(old(*i)) if k != "b" else old(*i)), "f")
    return SNum(f(to_real(to_term(x))))


def power(base, exp):
    from .arrays import SArr, broadcast_shapes, broadcast_to
    use("pow")
    if isinstance(base, SArr) or isinstance(exp, SArr):
        if isinstance(base, SArr) and isinstance(exp, SArr):
            shape = broadcast_shapes(base.shape, exp.shape)
            b, e = broadcast_to(base, shape), broadcast_to(exp, shape)
            be, ee = b._elem, e._elem
            return SArr(shape, lambda *i: POW(to_real(be(*i)), to_real(ee(*i))), "f")
        if isinstance(base, SArr):
            be, et = base._elem, to_real(to_term(exp))
            return SArr(base.shape, lambda *i: POW(to_real(be(*i)), et), "f")
        bt, ee = to_real(to_term(base)), exp._elem
        c = core.const_value(bt)
        if c == 10:
            use("exp10")
            f10 = F["exp10"]
            return SArr(exp.shape, lambda *i: f10(to_real(ee(*i))), "f")
        return SArr(exp.shape, lambda *i: POW(bt, to_real(ee(*i))), "f")
    bt, et = to_real(to_term(base)), to_real(to_term(exp))
    if core.const_value(bt) == 10:
        use("exp10")
        return SNum(F["exp10"](et))
    return SNum(POW(bt, et))
