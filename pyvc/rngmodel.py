"""Ghost model of numpy's random generators (DESIGN §8 C16).

A seeded generator is a *history term*: hist_0 = H0(seed), hist_{k+1} = H(hist_k, kind, size).  The k-th draw returns
values  Out(hist_k, kind, t)  (t = element index), mapped into the requested range.  Two generators with the same
seed that perform the same sequence of (kind, size) requests therefore return syntactically identical values -
reproducibility is decided by term identity.  Anything drawn from numpy's *global* generator (np.random.choice,
np.random.uniform, ...) gets a fresh, unconstrained history: it is not a function of any seed.

ASSUMED about numpy: default_rng(SeedSequence(s).spawn(1)[0]) is a deterministic function of s; uniform(lo, hi, n)
returns n values in [lo, hi) (requires lo <= hi); integers(lo, hi, n) returns n integers in [lo, hi).
"""
from __future__ import annotations

import numpy as _np
import z3

from . import core
from .core import Ctx, SNum, SBool, Unsupported, to_term, to_real
from .arrays import SArr, bv, forall, in_range, dim_term

HIST = z3.DeclareSort("RngHist")
H0 = z3.Function("rng_seeded", z3.IntSort(), HIST)
HCHILD = z3.Function("rng_seeded_child", z3.IntSort(), z3.IntSort(), HIST)
HN = z3.Function("rng_next", HIST, z3.IntSort(), z3.IntSort(), HIST)       # (hist, kind code, size) -> hist
OUT01 = z3.Function("rng_out01", HIST, z3.IntSort(), z3.RealSort())           # uniform variate in [0, 1)
OUTI = z3.Function("rng_outint", HIST, z3.IntSort(), z3.IntSort(), z3.IntSort(), z3.IntSort())  # (hist, t, lo, hi)
KINDS = {"uniform": 1, "integers": 2, "choice": 3}


def _sym(*xs):
    from .npshim import anysym
    return anysym(*xs)


class _SeedSeq:
    """numpy SeedSequence: spawn() is stateful - every call hands out the *next* children (n_children_spawned grows)"""

    def __init__(self, seed, child=0):
        self.seed, self.child = seed, child
        self.spawned = 0

    def spawn(self, n):
        kids = [_SeedSeq(self.seed, self.child * 1000 + self.spawned + 1 + k) for k in range(n)]
        self.spawned += n
        return kids


def SeedSequence(seed=None):
    return _SeedSeq(seed)


class SymGenerator:
    """numpy Generator with a ghost history; `log` records the requests made so far"""

    def __init__(self, hist, seeded_from):
        self.hist = hist
        self.seeded_from = seeded_from
        self.log = []

    def _advance(self, kind, size):
        ctx = Ctx.cur
        ctx.ghost.setdefault("rng_requests", []).append((self, kind, size))
        self.log.append((kind, size))
        h = self.hist
        self.hist = HN(h, z3.IntVal(KINDS[kind]), to_term(size))
        return h

    def uniform(self, low=0.0, high=1.0, size=None):
        ctx = Ctx.cur
        lo, hi = to_real(to_term(low)), to_real(to_term(high))
        if not ctx.branch(lo <= hi):
            raise ValueError("high - low < 0")      # numpy: OverflowError/ValueError for an inverted range
        if size is None:
            raise Unsupported("scalar uniform draw")
        h = self._advance("uniform", size)
        t = bv("t")
        ctx.assume(forall([t], z3.And(OUT01(h, t) >= 0, OUT01(h, t) < 1), patterns=[OUT01(h, t)]), "numpy:Generator.uniform in [0,1)")
        ctx.trust("numpy:Generator.uniform(lo, hi, n) returns n values in [lo, hi), a function of the generator state")
        # the range contract stated on the result itself (spares the solver the non-linear step d*u in [0, d))
        val = lambda t_: lo + (hi - lo) * OUT01(h, t_)  # noqa: E731
        ctx.assume(forall([t], z3.And(val(t) >= lo, z3.Implies(lo < hi, val(t) < hi), z3.Implies(lo == hi, val(t) == lo)),
                          patterns=[OUT01(h, t)]), "numpy:Generator.uniform in [lo,hi)")
        return SArr((size,), val, "f")

    def integers(self, low, high=None, size=None):
        ctx = Ctx.cur
        if high is None:
            low, high = 0, low
        lo, hi = to_term(low), to_term(high)
        if not ctx.branch(lo < hi):
            raise ValueError("low >= high")
        if size is None:
            raise Unsupported("scalar integer draw")
        h = self._advance("integers", size)
        t = bv("t")
        ctx.assume(forall([t], z3.And(OUTI(h, t, lo, hi) >= lo, OUTI(h, t, lo, hi) < hi), patterns=[OUTI(h, t, lo, hi)]),
                   "numpy:Generator.integers in [lo,hi)")
        ctx.trust("numpy:Generator.integers(lo, hi, n) returns n integers in [lo, hi), a function of the generator state")
        r = SArr((size,), lambda t_: OUTI(h, t_, lo, hi), "i")
        r.meta["values_in"] = (0, None)
        return r

    def choice(self, a, size=None, p=None, **k):
        ctx = Ctx.cur
        A = a if isinstance(a, SArr) else SArr.from_concrete(_np.asarray(a))
        n = A.shape[0]
        h = self._advance("choice", size)
        lo, hi = z3.IntVal(0), dim_term(n)
        t = bv("t")
        ctx.assume(forall([t], z3.And(OUTI(h, t, lo, hi) >= lo, OUTI(h, t, lo, hi) < hi), patterns=[OUTI(h, t, lo, hi)]),
                   "numpy:Generator.choice picks elements of a")
        old = A._elem
        return SArr((size,), lambda t_: old(OUTI(h, t_, lo, hi)), A.kind)


def default_rng(seed=None):
    ctx = Ctx.cur
    if isinstance(seed, _SeedSeq):
        s = seed.seed
        ctx.trust("numpy: default_rng(SeedSequence(s).spawn(1)[0]) is a deterministic function of s")
        if seed.child != 1:
            # not the first child of a fresh sequence: some other state (nothing is assumed to relate it to the first child's)
            return SymGenerator(HCHILD(to_term(s), z3.IntVal(seed.child)), ("seed-child", s, seed.child))
        return SymGenerator(H0(to_term(s)), ("seed", s))
    if seed is None:
        return SymGenerator(z3.Const(ctx.fresh_name("rng_unseeded"), HIST), None)
    return SymGenerator(H0(to_term(seed)), ("seed", seed))


def _global_generator():
    ctx = Ctx.cur
    g = ctx.ghost.get("rng_global")
    if g is None:
        g = SymGenerator(z3.Const(ctx.fresh_name("rng_global_state"), HIST), None)
        ctx.ghost["rng_global"] = g
    return g


def choice(a, size=None, p=None, **k):
    """np.random.choice: numpy's *global* generator - not a function of any seed given to the library"""
    return _global_generator().choice(a, size=size, p=p)


def uniform(low=0.0, high=1.0, size=None):
    return _global_generator().uniform(low, high, size)


def integers(*a, **k):
    return _global_generator().integers(*a, **k)
