"""Proxy-aware replacements of the builtins the repository uses (T3).  On concrete values: the real builtin."""
from __future__ import annotations

import builtins
import copy as _copy
import itertools as _it
from collections import deque as _deque

import z3

from . import core
from .core import SNum, SBool, Ctx, Unsupported, is_sym, to_term, tob, num
from .arrays import SArr, SRec, SList, SArrBase, dim_const, dim_term


class SymIterable:
    """An ordered finite sequence of symbolic length: item(j) for 0 <= j < vc_len()."""

    def vc_len(self):
        raise NotImplementedError

    def item(self, j):
        raise NotImplementedError

    def __iter__(self):
        n = self.vc_len()
        c = dim_const(n) if not isinstance(n, int) else n
        if c is None:
            raise Unsupported(f"{type(self).__name__} of symbolic length iterated outside a cut loop")
        return iter([self.item(k) for k in range(c)])

    def __len__(self):
        n = self.vc_len()
        c = dim_const(n) if not isinstance(n, int) else n
        if c is None:
            raise Unsupported("len() of symbolic iterable reached CPython")
        return c


class SRange(SymIterable):
    def __init__(self, start, stop):
        self.start, self.stop = num(start), num(stop)

    def vc_len(self):
        d = z3.simplify(z3.If(self.stop.t > self.start.t, self.stop.t - self.start.t, z3.IntVal(0)))
        c = core.const_value(d)
        return c if isinstance(c, int) else SNum(d)

    def item(self, j):
        return SNum(z3.simplify(self.start.t + to_term(j)))


class SEnum(SymIterable):
    def __init__(self, inner, start=0):
        self.inner, self.start = inner, start

    def vc_len(self):
        return vc_len(self.inner)

    def item(self, j):
        return (num(j) + self.start if (is_sym(j) or self.start) else j, item_of(self.inner, j))


class SZip(SymIterable):
    def __init__(self, inners):
        self.inners = inners

    def vc_len(self):
        ls = [vc_len(i) for i in self.inners if not isinstance(i, SRepeat)]
        if not ls:
            raise Unsupported("zip of only infinite iterables")
        n = ls[0]
        for m in ls[1:]:
            cn, cm = dim_const(n), dim_const(m)
            if cn is not None and cm is not None:
                n = builtins.min(cn, cm)
            elif dim_term(n).eq(dim_term(m)):
                pass
            else:
                n = SNum(z3.If(dim_term(n) <= dim_term(m), dim_term(n), dim_term(m)))
        return n

    def item(self, j):
        return tuple(item_of(i, j) for i in self.inners)


class SRepeat(SymIterable):
    def __init__(self, obj):
        self.obj = obj

    def item(self, j):
        return self.obj

    def __iter__(self):
        return _it.repeat(self.obj)


class SMapped(SymIterable):
    def __init__(self, fn, inner):
        self.fn, self.inner = fn, inner

    def vc_len(self):
        return vc_len(self.inner)

    def item(self, j):
        return self.fn(item_of(self.inner, j))


class SSeq(SymIterable):
    """generic symbolic sequence given by a length and an item function (items may be arbitrary proxies)"""

    def __init__(self, n, item_fn, kind="list", root=None, index_fn=None):
        self.n, self.item_fn, self.kind = n, item_fn, kind
        # provenance: this sequence is root[index_fn(t)] for t < n (root = itself for a primary sequence)
        self.root = root if root is not None else self
        self.index_fn = index_fn if index_fn is not None else (lambda t: to_term(t))

    def vc_len(self):
        return self.n

    def item(self, j):
        return self.item_fn(j)

    def append(self, x):
        """list.append on a summarised list: one more item on top (item access forks on the index)"""
        old_n, old_f = self.n, self.item_fn
        nt = dim_term(old_n)
        self.n = SNum(z3.simplify(nt + 1))

        def item(j):
            if bool(SBool(to_term(j) == nt)):
                return x
            return old_f(j)
        self.item_fn = item

    def __getitem__(self, k):
        if isinstance(k, slice):
            from .arrays import SArr as _S
            lo, ln = _S._slice_bounds(k, self.n)
            c = core.const_value(ln)
            f, ix = self.item_fn, self.index_fn
            return SSeq(c if isinstance(c, int) else SNum(ln), lambda j: f(SNum(z3.simplify(lo + to_term(j)))), self.kind,
                        root=self.root, index_fn=lambda t: ix(SNum(z3.simplify(lo + to_term(t)))))
        n = dim_term(self.n)
        kt = to_term(k)
        ck = core.const_value(kt)
        j = kt + n if (isinstance(ck, int) and ck < 0) else kt
        if not Ctx.cur.branch(z3.And(j >= 0, j < n)):
            raise IndexError("list index out of range")
        return self.item_fn(SNum(z3.simplify(j)))


def is_symbolic_iterable(x):
    if hasattr(type(x), "__len__") and hasattr(type(x), "__getitem__") and hasattr(x, "data") and isinstance(getattr(x, "data", None), SArr):
        return True   # repository array wrappers (CustomNumpyArray): sequence protocol over a symbolic array
    if isinstance(x, SymIterable):
        c = x.vc_len() if not isinstance(x, SRepeat) else 0
        return True
    if isinstance(x, (SArr, SRec, SList)):
        return True
    return hasattr(x, "vc_len") and hasattr(x, "item")


def has_symbolic_len(x):
    if isinstance(x, SRepeat):
        return False
    if hasattr(x, "data") and isinstance(getattr(x, "data", None), SArr) and not hasattr(x, "vc_len"):
        return dim_const(x.data.shape[0]) is None
    if isinstance(x, (SymIterable, SArr, SRec, SList)) or hasattr(x, "vc_len"):
        n = x.vc_len()
        return dim_const(n) is None
    return False


def item_of(x, j):
    if isinstance(x, SymIterable):
        return x.item(j)
    if isinstance(x, SArr):
        if x.ndim == 1:
            return x.at(j)
        old = x._elem
        jt = to_term(j)
        return SArr(x.shape[1:], lambda *i: old(jt, *i), x.kind, dtype_name=x.dtype_name)
    if isinstance(x, SList):
        return item_of(x.arr, j)
    if hasattr(x, "item") and hasattr(x, "vc_len"):
        return x.item(j)
    if isinstance(x, (list, tuple)):
        c = core.const_value(to_term(j))
        if isinstance(c, int):
            return x[c]
        raise Unsupported("symbolic index into a concrete python sequence")
    raise Unsupported(f"item_of({type(x).__name__})")


def indexable(x):
    """turn the iterable of a cut loop into something with vc_len()/item(j)"""
    if isinstance(x, (SymIterable, SArr, SList)) or (hasattr(x, "vc_len") and hasattr(x, "item")):
        return x
    if isinstance(x, (list, tuple)):
        return x
    if isinstance(x, builtins.range):
        if x.step != 1:
            raise Unsupported("range with step")
        return SRange(x.start, x.stop)
    if isinstance(x, dict):
        return list(x)
    if hasattr(type(x), "__len__") and hasattr(type(x), "__getitem__") and not isinstance(x, (str, bytes)):
        n = vc_len(x)
        if dim_const(n) is None:
            return SSeq(n, lambda j: x[j])
    try:
        return list(x)
    except VCTypeError:
        raise
    except TypeError:
        raise Unsupported(f"cannot index iterable of type {type(x).__name__}")


class VCTypeError(TypeError):
    pass


# ---------------------------------------------------------------------------------------------------------
# builtins
# ---------------------------------------------------------------------------------------------------------

def vc_len(x):
    if hasattr(x, "vc_len"):
        return x.vc_len()
    tl = getattr(type(x), "__len__", None)
    if tl is None:
        raise TypeError(f"object of type '{type(x).__name__}' has no len()")
    r = tl(x)  # call the type's __len__ directly: CPython's len() insists on a concrete int
    return r


def vc_range(*a):
    if builtins.any(is_sym(v) for v in a):
        if len(a) == 1:
            return SRange(0, a[0])
        if len(a) == 2:
            return SRange(a[0], a[1])
        raise Unsupported("range with symbolic step")
    return builtins.range(*[_idx(v) for v in a])


def _idx(v):
    return v.__index__() if hasattr(v, "__index__") else v


def vc_enumerate(x, start=0):
    if is_symbolic_iterable(x) and has_symbolic_len(x):
        return SEnum(x, start)
    return builtins.enumerate(x, start)


def vc_zip(*xs, strict=False):
    if builtins.any(is_symbolic_iterable(x) and has_symbolic_len(x) for x in xs):
        return SZip([indexable(x) for x in xs])
    return builtins.zip(*xs)


def vc_map(fn, *xs):
    if len(xs) == 1 and is_symbolic_iterable(xs[0]) and has_symbolic_len(xs[0]):
        return SMapped(fn, xs[0])
    return builtins.map(fn, *xs)


def vc_isinstance(x, t):
    import numpy as np
    ts = t if isinstance(t, tuple) else (t,)
    ts = tuple(REAL_TYPES.get(c, c) if _hashable(c) else c for c in ts)
    t = ts if isinstance(t, tuple) else ts[0]
    if isinstance(x, SNum):
        if x.is_int:
            return builtins.any(c in (int, np.integer, object) or c is np.int64 for c in ts)
        return builtins.any(c in (float, np.floating, np.float64, object) for c in ts)
    if isinstance(x, SBool):
        return builtins.any(c in (bool, np.bool_, int, object) for c in ts)
    if isinstance(x, (SArr, SRec)):
        return builtins.any(c in (np.ndarray, object) for c in ts) or builtins.isinstance(x, t)
    if isinstance(x, SList):
        return builtins.any(c in (list, object) for c in ts)
    return builtins.isinstance(x, t)


def _hashable(c):
    try:
        hash(c)
        return True
    except TypeError:
        return False


class _IntShim:
    """callable standing in for `int` (keeps int.from_bytes working)"""

    def __call__(self, x=0, *a):
        return _vc_int(x, *a)

    @staticmethod
    def from_bytes(b, byteorder="big", **k):
        if hasattr(b, "vc_int_from_bytes"):
            return b.vc_int_from_bytes(byteorder)
        return builtins.int.from_bytes(b, byteorder, **k)

    def __repr__(self):
        return "<class 'int'>"


def _vc_int(x=0, *a):
    if isinstance(x, SNum):
        if x.is_int:
            return x
        c = core.const_value(x.t)
        if c is not None:
            return builtins.int(c)
        return SNum(z3.If(x.t >= 0, z3.ToInt(x.t), -z3.ToInt(-x.t)))
    if isinstance(x, SBool):
        return SNum(to_term(x))
    if isinstance(x, SArr) and x.ndim == 0:
        return vc_int(x.item())
    if isinstance(x, str):
        tok = core.parse_token(x)
        if tok is not None:
            return tok
    return builtins.int(x, *a)


def vc_float(x=0.0):
    if isinstance(x, SNum):
        return SNum(core.to_real(x.t))
    if isinstance(x, SBool):
        return SNum(core.to_real(to_term(x)))
    if isinstance(x, SArr) and x.ndim == 0:
        return vc_float(x.item())
    return builtins.float(x)


def vc_bool(x=False):
    if isinstance(x, SBool):
        return x
    if isinstance(x, SNum):
        return SBool(x.t != 0)
    return builtins.bool(x)


def vc_str(x="", *a):
    if is_sym(x):
        c = core.const_value(x.t)
        if c is not None:
            return builtins.str(c)
        raise Unsupported("str() of a symbolic value")
    return builtins.str(x, *a)


def vc_abs(x):
    return abs(x)


def vc_round(x, n=None):
    if is_sym(x):
        raise Unsupported("round() of symbolic value")
    return builtins.round(x, n) if n is not None else builtins.round(x)


def _minmax(args, key, pick_less):
    if len(args) == 1:
        seq = args[0]
        if isinstance(seq, SArr):
            return seq.min() if pick_less else seq.max()
        if is_symbolic_iterable(seq) and has_symbolic_len(seq):
            # max/min of a sequence of symbolic length: an extreme element (ValueError when empty)
            from .arrays import bv, in_range
            ctx = Ctx.cur
            n = seq.vc_len()
            if not ctx.branch(dim_term(n) > 0):
                raise ValueError("max() iterable argument is empty" if not pick_less else "min() iterable argument is empty")
            w = ctx.fresh_int("arg_extreme", lo=0)
            ctx.assume(w.t < dim_term(n), "python:min/max of a sequence")
            i = bv("a")
            with ctx.binding(i, in_range(i, n)):
                other = to_term(item_of(seq, SNum(i)))
            # the extreme element is the item at position w: the same (Skolem) term instantiated at w
            r = z3.substitute(other, (i, w.t))
            ra, oa = core._coerce(r, other)
            ctx.assume(z3.ForAll([i], z3.Implies(in_range(i, n), (ra <= oa) if pick_less else (ra >= oa))), "python:min/max of a sequence")
            return SNum(r)
        args = list(seq)
    if key is not None or not builtins.any(is_sym(a) for a in args):
        return (builtins.min if pick_less else builtins.max)(args, key=key) if key else \
               (builtins.min if pick_less else builtins.max)(args)
    r = args[0]
    for a in args[1:]:
        ta, tr = core._coerce(to_term(a), to_term(r))
        cond = (ta < tr) if pick_less else (ta > tr)
        # python returns one of the operands: keep int-ness if both are ints
        r = SNum(z3.If(cond, ta, tr))
    return r


def vc_min(*args, key=None, default=None):
    return _minmax(args, key, True)


def vc_max(*args, key=None, default=None):
    return _minmax(args, key, False)


def vc_sum(x, start=0):
    if isinstance(x, SArr):
        return x.sum() + start if start != 0 else x.sum()
    if is_symbolic_iterable(x) and has_symbolic_len(x):
        from . import sigma
        return sigma.sum_iterable(x, start)
    return builtins.sum(x, start)


def vc_any(x):
    if isinstance(x, SArr):
        return x.any()
    if is_symbolic_iterable(x) and has_symbolic_len(x):
        n = x.vc_len()
        from .arrays import bv, in_range
        i = bv("a")
        body = x.item(SNum(i))
        return SBool(z3.Exists([i], z3.And(in_range(i, n), tob(body))))
    for v in x:
        if v:
            return True
    return False


def vc_all(x):
    if isinstance(x, SArr):
        return x.all()
    if is_symbolic_iterable(x) and has_symbolic_len(x):
        n = x.vc_len()
        from .arrays import bv, in_range
        i = bv("a")
        body = x.item(SNum(i))
        return SBool(z3.ForAll([i], z3.Implies(in_range(i, n), tob(body))))
    for v in x:
        if not v:
            return False
    return True


def vc_sorted(x, key=None, reverse=False):
    if is_symbolic_iterable(x) and has_symbolic_len(x):
        raise Unsupported("sorted() of a symbolic iterable (needs a contract)")
    x = list(x)
    if builtins.any(is_sym(v) for v in x) and key is None:
        raise Unsupported("sorted() of symbolic numbers")
    return builtins.sorted(x, key=key, reverse=reverse)


def vc_tuple(x=()):
    if is_symbolic_iterable(x) and has_symbolic_len(x):
        if isinstance(x, SSeq):
            return SSeq(x.n, x.item_fn, "tuple", root=x.root, index_fn=x.index_fn)
        if isinstance(x, SymIterable):
            return SSeq(x.vc_len(), x.item, kind="tuple")
        return x
    return builtins.tuple(x)


def vc_list(x=()):
    if isinstance(x, SArr) and dim_const(x.shape[0]) is None:
        return SList(x) if x.ndim == 1 else SSeq(x.shape[0], lambda j: item_of(x, j))
    if is_symbolic_iterable(x) and has_symbolic_len(x):
        if isinstance(x, SSeq):
            return SSeq(x.n, x.item_fn, "list", root=x.root, index_fn=x.index_fn)
        if isinstance(x, SymIterable):
            return SSeq(x.vc_len(), x.item, kind="list")
        return x
    return builtins.list(x)


def vc_dict(*a, **k):
    from .containers import SymDict
    if not a and not k:
        return SymDict()
    if len(a) == 1 and not k and is_symbolic_iterable(a[0]) and has_symbolic_len(a[0]):
        # dict(<sequence of (key, value) pairs of symbolic length>), e.g. dict(zip(keys, values))
        from .symmap import SymMap
        it = indexable(a[0])
        return SymMap(vc_len(it), lambda t: tuple(item_of(it, t)))
    return builtins.dict(*a, **k)


def vc_set(x=()):
    from .containers import Compressed as _Compressed
    if isinstance(x, _Compressed) or (is_symbolic_iterable(x) and has_symbolic_len(x)):
        from .containers import SymSet
        return SymSet.from_iterable(x)
    from .containers import SymSet
    if isinstance(x, SymSet):
        return x.copy()
    items = list(x)
    if builtins.any(is_sym(v) for v in items):
        s = SymSet.empty()
        for v in items:
            s.add(v)
        return s
    return builtins.set(items)


def vc_next(it, *default):
    if hasattr(it, "vc_next"):
        return it.vc_next(*default)
    return builtins.next(it, *default)


class SymIterator:
    """explicit iterator over a symbolic iterable: next() forks on exhaustion"""

    def __init__(self, src):
        self.src, self.pos = src, 0

    def vc_next(self, *default):
        n = dim_term(self.src.vc_len())
        if Ctx.cur.branch(to_term(self.pos) < n):
            v = item_of(self.src, num(self.pos))
            self.pos = self.pos + 1
            return v
        if default:
            return default[0]
        raise StopIteration

    def __iter__(self):
        return self

    def __next__(self):
        return self.vc_next()


def vc_iter(x, *a):
    if hasattr(x, "vc_iter"):
        return x.vc_iter()
    if isinstance(x, SymIterable) and has_symbolic_len(x):
        return SymIterator(x)
    return builtins.iter(x, *a)


def vc_reversed(x):
    if isinstance(x, SSeq) and dim_const(x.n) is None:
        n, f, ix = dim_term(x.n), x.item_fn, x.index_fn
        return SSeq(x.n, lambda j: f(SNum(z3.simplify(n - 1 - to_term(j)))), x.kind, root=x.root,
                    index_fn=lambda t: ix(SNum(z3.simplify(n - 1 - to_term(t)))))
    return builtins.reversed(x)


def vc_open(*a, **k):
    from . import fsmodel
    return fsmodel.vc_open(*a, **k)


def vc_deepcopy(x):
    if hasattr(x, "vc_deepcopy"):
        return x.vc_deepcopy()
    if isinstance(x, (SArr, SRec)):
        return x.copy()
    if is_sym(x):
        return x
    if isinstance(x, dict):
        return type(x)((k, vc_deepcopy(v)) for k, v in x.items()) if type(x) is dict else _copy.deepcopy(x)
    return _copy.deepcopy(x)


def vc_deque(iterable=(), maxlen=None):
    if is_symbolic_iterable(iterable) and has_symbolic_len(iterable):
        if maxlen == 0:
            # deque(it, maxlen=0): consume the iterator for its effects
            if hasattr(iterable, "consume_all"):
                iterable.consume_all()
                return _deque((), 0)
            raise Unsupported("consuming a symbolic iterable for effects without a contract")
        raise Unsupported("deque of a symbolic iterable")
    if hasattr(iterable, "consume_all") and maxlen == 0:
        iterable.consume_all()
        return _deque((), 0)
    return _deque(iterable, maxlen)


def vc_compress(data, selectors):
    if isinstance(selectors, SArr) or (is_symbolic_iterable(data) and has_symbolic_len(data)):
        from .containers import Compressed
        return Compressed(data, selectors)
    return _it.compress(data, selectors)


def vc_repeat(obj, *times):
    if times:
        return _it.repeat(obj, *times)
    return SRepeat(obj)


vc_int = _IntShim()
REAL_TYPES = {}

TABLE = {
    "len": vc_len, "range": vc_range, "enumerate": vc_enumerate, "zip": vc_zip, "map": vc_map,
    "isinstance": vc_isinstance, "int": vc_int, "float": vc_float, "bool": vc_bool, "min": vc_min, "max": vc_max,
    "sum": vc_sum, "any": vc_any, "all": vc_all, "sorted": vc_sorted, "tuple": vc_tuple, "list": vc_list,
    "dict": vc_dict, "set": vc_set, "next": vc_next, "iter": vc_iter, "abs": vc_abs, "round": vc_round,
    "str": vc_str, "reversed": vc_reversed, "open": vc_open,
}

REAL_TYPES.update({vc_int: int, vc_float: float, vc_bool: bool, vc_str: str, vc_tuple: tuple, vc_list: list,
                   vc_dict: dict, vc_set: set})
