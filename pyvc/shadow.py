"""Shadow package: loads $VERIF_REPO/src/yaw a second time as package `yaw_sym`, from the same bytes, applying a
fixed mechanical AST transformation (DESIGN §3.1 T1–T7).  Nothing is re-typed by hand.

What the transformation changes (complete list):
 T1  every for/while loop L_k of a function gets the shape
         if __vc.cut(site): <Boogie-style cut driven by the sidecar invariant>  else: <the original loop>
     (the original loop text is kept verbatim in the else branch and is what runs when no invariant is registered)
 T2  only on request for a unit (generator under contract): `yield e` -> `__vc.emit(e)`
 T3  builtins len/range/enumerate/zip/map/isinstance/int/float/bool/min/max/sum/any/all/sorted/tuple/list/dict/
     set/next/iter/abs/round/str/reversed are rebound to proxy-aware shims (real builtin on concrete values)
 T4  statements `logger.<level>(...)` are replaced by `pass` (their arguments are not evaluated); imports of numpy, scipy.spatial.KDTree, scipy.cluster.vq, pickle, yaml, h5py, shutil.rmtree, pathlib.Path,
     treecorr are rebound to contract shims; logging loggers are replaced by a null logger (dropped: logging)
 T5  `import yaw...` / `from yaw... import` -> yaw_sym...
 T6  compiled with `from __future__ import annotations`; annotations and docstrings are not evaluated
 T7  comprehensions over symbolic iterables: a list/tuple/set/dict comprehension or generator expression with a
     single `for` is routed through __vc.comp(kind, elt_fn, iterable, conds) which runs natively for concrete
     iterables and maps over an arbitrary element for symbolic ones
 T8  `{}` / `dict()` / `[]` displays that are *empty* literals are routed through __vc.new_dict()/__vc.new_list()
     so that symbolic keys / symbolic length can be represented (non-empty displays stay native)
"""
from __future__ import annotations

import ast
import hashlib
import importlib
import importlib.abc
import importlib.util
import os
import sys
import __future__

PKG = "yaw_sym"
FLAGS = __future__.annotations.compiler_flag

SHIM_IMPORTS = {
    # module name -> replacement module
    "numpy": "pyvc.npshim",
    "pickle": "pyvc.shims.pickle_shim",
    "yaml": "pyvc.shims.yaml_shim",
    "h5py": "pyvc.shims.h5py_shim",
    "treecorr": "pyvc.shims.treecorr_shim",
    "multiprocessing": "pyvc.shims.mp_shim",
}
SHIM_FROM = {
    # (module, name) -> (replacement module, name)
    ("scipy.spatial", "KDTree"): ("pyvc.shims.scipy_shim", "KDTree"),
    ("scipy.cluster", "vq"): ("pyvc.shims.scipy_shim", "vq"),
    ("shutil", "rmtree"): ("pyvc.fsmodel", "rmtree"),
    ("pathlib", "Path"): ("pyvc.fsmodel", "Path"),
    ("copy", "deepcopy"): ("pyvc.builtins_shim", "vc_deepcopy"),
    ("collections", "deque"): ("pyvc.builtins_shim", "vc_deque"),
    ("itertools", "compress"): ("pyvc.builtins_shim", "vc_compress"),
    ("itertools", "repeat"): ("pyvc.builtins_shim", "vc_repeat"),
}
REBOUND_BUILTINS = ("len", "range", "enumerate", "zip", "map", "isinstance", "int", "float", "bool", "min", "max",
                    "sum", "any", "all", "sorted", "tuple", "list", "dict", "set", "next", "iter", "abs", "round",
                    "str", "reversed", "open")

MUTATING_METHODS = {"append", "extend", "add", "pop", "remove", "discard", "update", "appendleft", "popleft",
                    "clear", "setdefault", "insert", "sort"}

SOURCES = {}  # module name -> (path, sha256)
SITES = {}    # site id -> dict(module, qualname, ordinal, kind, lineno)


class _Names(ast.NodeVisitor):
    """names (re)bound and names mutated in place inside a loop body"""

    def __init__(self):
        self.bound, self.mutated = [], []

    def _add(self, lst, n):
        if n not in lst:
            lst.append(n)

    def _target(self, t):
        if isinstance(t, ast.Name):
            self._add(self.bound, t.id)
        elif isinstance(t, (ast.Tuple, ast.List)):
            for e in t.elts:
                self._target(e)
        elif isinstance(t, ast.Starred):
            self._target(t.value)
        elif isinstance(t, (ast.Subscript, ast.Attribute)):
            b = t
            while isinstance(b, (ast.Subscript, ast.Attribute)):
                b = b.value
            if isinstance(b, ast.Name):
                self._add(self.mutated, b.id)

    def visit_Assign(self, node):
        for t in node.targets:
            self._target(t)
        self.generic_visit(node)

    def visit_AugAssign(self, node):
        self._target(node.target)
        if isinstance(node.target, ast.Name):
            self._add(self.mutated, node.target.id)
        self.generic_visit(node)

    def visit_AnnAssign(self, node):
        if node.value is not None:
            self._target(node.target)
        self.generic_visit(node)

    def visit_For(self, node):
        self._target(node.target)
        self.generic_visit(node)

    def visit_With(self, node):
        for it in node.items:
            if it.optional_vars is not None:
                self._target(it.optional_vars)
        self.generic_visit(node)

    def visit_NamedExpr(self, node):
        self._target(node.target)
        self.generic_visit(node)

    def visit_ExceptHandler(self, node):
        if node.name:
            self._add(self.bound, node.name)
        self.generic_visit(node)

    def visit_Call(self, node):
        f = node.func
        if isinstance(f, ast.Attribute) and f.attr in MUTATING_METHODS:
            b = f.value
            while isinstance(b, (ast.Subscript, ast.Attribute)):
                b = b.value
            if isinstance(b, ast.Name):
                self._add(self.mutated, b.id)
        self.generic_visit(node)

    # do not descend into nested scopes
    def visit_FunctionDef(self, node):
        self._add(self.bound, node.name)

    visit_AsyncFunctionDef = visit_FunctionDef

    def visit_Lambda(self, node):
        pass

    def visit_ClassDef(self, node):
        self._add(self.bound, node.name)

    def visit_ListComp(self, node):
        for g in node.generators:
            self.visit(g.iter)

    visit_SetComp = visit_DictComp = visit_GeneratorExp = visit_ListComp


def _loads(nodes):
    out = set()
    for n in nodes if isinstance(nodes, list) else [nodes]:
        for sub in ast.walk(n):
            if isinstance(sub, ast.Name) and isinstance(sub.ctx, ast.Load):
                out.add(sub.id)
    return out


def compute_live_after(func):
    """for every loop of a function: the names that may be read after the loop finishes (flow-insensitive inside
    statements, flow-sensitive across statement order; a loop nested in another loop sees the outer body again)"""
    live = {}

    def walk_block(stmts, cont):
        after = set(cont)
        for st in reversed(stmts):
            handle(st, after)
            after |= _loads(st)

    def handle(st, after):
        if isinstance(st, (ast.For, ast.While)):
            live[id(st)] = set(after) | _loads(st.orelse)
            walk_block(st.body, after | _loads(st))
            walk_block(st.orelse, after)
        elif isinstance(st, ast.If):
            walk_block(st.body, after)
            walk_block(st.orelse, after)
        elif isinstance(st, ast.With):
            walk_block(st.body, after)
        elif isinstance(st, ast.Try):
            rest = after | _loads(st.handlers) | _loads(st.orelse) | _loads(st.finalbody)
            walk_block(st.body, rest)
            for h in st.handlers:
                walk_block(h.body, after | _loads(st.finalbody))
            walk_block(st.orelse, after | _loads(st.finalbody))
            walk_block(st.finalbody, after)
    walk_block(func.body, set())
    return live


def _has(node_list, kinds):
    for n in node_list:
        for sub in ast.walk(n):
            if isinstance(sub, kinds):
                return True
    return False


def _break_continue_own(body):
    """does the body contain break/continue belonging to *this* loop (not to nested loops)?"""
    found = {"break": False, "continue": False}

    def walk(stmts):
        for s in stmts:
            if isinstance(s, ast.Break):
                found["break"] = True
            elif isinstance(s, ast.Continue):
                found["continue"] = True
            elif isinstance(s, (ast.For, ast.While, ast.FunctionDef, ast.AsyncFunctionDef, ast.ClassDef)):
                if isinstance(s, (ast.For, ast.While)):
                    walk(s.orelse)
                continue
            else:
                for f in ("body", "orelse", "finalbody"):
                    walk(getattr(s, f, []) or [])
                for h in getattr(s, "handlers", []) or []:
                    walk(h.body)
                if isinstance(s, ast.Match):
                    for c in s.cases:
                        walk(c.body)
    walk(body)
    return found


class Transformer(ast.NodeTransformer):
    def __init__(self, modname, yield_to_emit=False):
        self.modname = modname
        self.scope = []          # qualname parts
        self.loop_counter = []   # per function
        self.comp_counter = []
        self.yield_to_emit = yield_to_emit
        self.live_after = {}

    # -- imports (T4, T5) ------------------------------------------------------------------------------
    def visit_Import(self, node):
        out = []
        for a in node.names:
            if a.name == "yaw" or a.name.startswith("yaw."):
                new = PKG + a.name[3:]
                out.append(ast.Import(names=[ast.alias(name=new, asname=a.asname or None)]))
                if a.asname is None:
                    # `import yaw.x` binds `yaw`; keep code working by also binding name `yaw`
                    out.append(ast.parse(f"import {PKG} as yaw").body[0])
            elif a.name in SHIM_IMPORTS:
                tgt = SHIM_IMPORTS[a.name]
                out.append(ast.parse(f"import {tgt} as {a.asname or a.name.split('.')[0]}").body[0])
            else:
                out.append(ast.Import(names=[a]))
        return [ast.copy_location(o, node) for o in out]

    def visit_ImportFrom(self, node):
        mod = node.module or ""
        if node.level and node.level > 0:
            return node
        if mod == "yaw" or mod.startswith("yaw."):
            node.module = PKG + mod[3:]
            return node
        if mod == "__future__":
            return node
        keep, out = [], []
        for a in node.names:
            if (mod, a.name) in SHIM_FROM:
                m2, n2 = SHIM_FROM[(mod, a.name)]
                out.append(ast.parse(f"from {m2} import {n2} as {a.asname or a.name}").body[0])
            elif mod in SHIM_IMPORTS and mod != "numpy":
                out.append(ast.parse(f"from {SHIM_IMPORTS[mod]} import {a.name} as {a.asname or a.name}").body[0])
            else:
                keep.append(a)
        if keep:
            out.insert(0, ast.ImportFrom(module=mod, names=keep, level=0))
        return [ast.copy_location(o, node) for o in out]

    # -- scopes ----------------------------------------------------------------------------------------
    def _enter_func(self, node):
        self.live_after.update(compute_live_after(node))
        self.scope.append(node.name)
        self.loop_counter.append(0)
        self.comp_counter.append(0)
        node.body = self._visit_block(node.body)
        self.scope.pop()
        self.loop_counter.pop()
        self.comp_counter.pop()
        return node

    def visit_FunctionDef(self, node):
        node.decorator_list = [self.visit(d) for d in node.decorator_list]
        return self._enter_func(node)

    visit_AsyncFunctionDef = visit_FunctionDef

    def visit_ClassDef(self, node):
        self.scope.append(node.name)
        node.body = self._visit_block(node.body)
        self.scope.pop()
        return node

    def _visit_block(self, stmts):
        out = []
        for s in stmts:
            r = self.visit(s)
            if isinstance(r, list):
                out.extend(r)
            elif r is not None:
                out.append(r)
        return out

    def _qual(self):
        return ".".join(self.scope)

    # -- T4: logging is dropped (including the evaluation of the arguments of the logging call) -------------
    def visit_Expr(self, node):
        v = node.value
        if isinstance(v, ast.Call) and isinstance(v.func, ast.Attribute) and isinstance(v.func.value, ast.Name) \
                and v.func.value.id == "logger" and v.func.attr in ("debug", "info", "warning", "error", "critical", "log"):
            return ast.copy_location(ast.Pass(), node)
        self.generic_visit(node)
        return node

    # -- T2 ----------------------------------------------------------------------------------------------
    def visit_Yield(self, node):
        self.generic_visit(node)
        if self.yield_to_emit:
            return ast.copy_location(ast.Call(func=ast.Attribute(value=ast.Name(id="_vc_", ctx=ast.Load()),
                                                                 attr="emit", ctx=ast.Load()),
                                              args=[node.value or ast.Constant(value=None)], keywords=[]), node)
        return node

    def visit_YieldFrom(self, node):
        self.generic_visit(node)
        if self.yield_to_emit:
            return ast.copy_location(ast.Call(func=ast.Attribute(value=ast.Name(id="_vc_", ctx=ast.Load()),
                                                                 attr="emit_from", ctx=ast.Load()),
                                              args=[node.value], keywords=[]), node)
        return node

    # -- T8 ----------------------------------------------------------------------------------------------
    def visit_Dict(self, node):
        self.generic_visit(node)
        if not node.keys and self.loop_counter:
            return ast.copy_location(ast.parse("_vc_.new_dict()", mode="eval").body, node)
        return node

    def visit_List(self, node):
        self.generic_visit(node)
        if not node.elts and isinstance(node.ctx, ast.Load) and self.loop_counter:
            return ast.copy_location(ast.parse("_vc_.new_list()", mode="eval").body, node)
        return node

    # -- T7 comprehensions -------------------------------------------------------------------------------
    def _comp(self, node, kind):
        self.generic_visit(node)
        if not self.loop_counter or len(node.generators) != 1 or node.generators[0].is_async:
            return node
        if any(isinstance(sub, ast.NamedExpr) for sub in ast.walk(node)):
            return node   # a walrus binds in the enclosing scope: keep the native comprehension
        g = node.generators[0]
        tgt_names = _Names()
        tgt_names._target(g.target)
        # lambda <packed>: (unpack); element
        arg = "_vc_e"
        unpack = ast.Assign(targets=[g.target], value=ast.Name(id=arg, ctx=ast.Load()))
        if kind == "dict":
            elt = ast.Tuple(elts=[node.key, node.value], ctx=ast.Load())
        else:
            elt = node.elt
        conds = ast.List(elts=[ast.Lambda(args=_args([arg]), body=_with_unpack(g.target, arg, c)) for c in g.ifs],
                         ctx=ast.Load())
        lam = ast.Lambda(args=_args([arg]), body=_with_unpack(g.target, arg, elt))
        call = ast.Call(func=ast.Attribute(value=ast.Name(id="_vc_", ctx=ast.Load()), attr="comp", ctx=ast.Load()),
                        args=[ast.Constant(value=kind), lam, g.iter, conds], keywords=[])
        return ast.copy_location(call, node)

    def visit_ListComp(self, node):
        return self._comp(node, "list")

    def visit_SetComp(self, node):
        return self._comp(node, "set")

    def visit_GeneratorExp(self, node):
        return self._comp(node, "gen")

    def visit_DictComp(self, node):
        return self._comp(node, "dict")

    # -- T1 loops ----------------------------------------------------------------------------------------
    def _site(self, kind, node):
        self.loop_counter[-1] += 1
        k = self.loop_counter[-1]
        real_mod = "yaw" + self.modname[len(PKG):]
        site = f"{real_mod}:{self._qual()}#{k}"
        try:
            head = ast.unparse(node.iter if kind == "for" else node.test)
        except Exception:  # noqa: BLE001
            head = ""
        SITES[site] = dict(module=real_mod, qualname=self._qual(), ordinal=k, kind=kind, lineno=node.lineno, head=head)
        return site

    def visit_For(self, node):
        if not self.loop_counter:  # module or class level loop: leave alone
            self.generic_visit(node)
            return node
        site = self._site("for", node)
        live = self.live_after.get(id(node), None)
        # T2b: a relay / map loop of a generator, `for v in IT: yield E`, is `yield from (E for v in IT)` (no send/throw is used
        # on these generators, E is evaluated once per item in order either way): it needs no loop contract
        if (self.yield_to_emit and isinstance(node.target, ast.Name) and not node.orelse and len(node.body) == 1
                and isinstance(node.body[0], ast.Expr) and isinstance(node.body[0].value, ast.Yield)
                and node.body[0].value.value is not None and not _has([node.body[0].value.value], (ast.Yield, ast.YieldFrom, ast.NamedExpr))
                and node.target.id not in (live or ())):
            elt = node.body[0].value.value
            if isinstance(elt, ast.Name) and elt.id == node.target.id:
                src = node.iter
            else:
                src = ast.GeneratorExp(elt=elt, generators=[ast.comprehension(target=node.target, iter=node.iter, ifs=[], is_async=0)])
            new = ast.Expr(value=ast.YieldFrom(value=src))
            ast.copy_location(new, node)
            ast.fix_missing_locations(new)
            return ast.copy_location(ast.Expr(value=self.visit(new.value)), node)
        # inner loops of the *cut copy* and of the *original copy* get distinct ordinals only once: we transform
        # the body once and reuse the transformed body in both branches
        node.body = self._visit_block(node.body)
        node.orelse = self._visit_block(node.orelse)
        node.iter = self.visit(node.iter)
        original = ast.For(target=node.target, iter=node.iter, body=node.body, orelse=node.orelse,
                           type_comment=None)
        names = _Names()
        names._target(node.target)
        for s in node.body:
            names.visit(s)
        bc = _break_continue_own(node.body)
        cut = self._cut_template(site, names, node.body, node.orelse, iter_expr=node.iter, target=node.target,
                                 test=None, has_break=bc["break"], live=live)
        wrapper = ast.If(test=_call("_vc_.cut", [ast.Constant(value=site)]), body=cut, orelse=[original])
        return ast.copy_location(wrapper, node)

    def visit_While(self, node):
        if not self.loop_counter:
            self.generic_visit(node)
            return node
        site = self._site("while", node)
        live = self.live_after.get(id(node), None)
        node.body = self._visit_block(node.body)
        node.orelse = self._visit_block(node.orelse)
        node.test = self.visit(node.test)
        original = ast.While(test=node.test, body=node.body, orelse=node.orelse)
        names = _Names()
        names.visit(node.test)
        for s in node.body:
            names.visit(s)
        bc = _break_continue_own(node.body)
        cut = self._cut_template(site, names, node.body, node.orelse, iter_expr=None, target=None, test=node.test,
                                 has_break=bc["break"], live=live)
        wrapper = ast.If(test=_call("_vc_.cut", [ast.Constant(value=site)]), body=cut, orelse=[original])
        return ast.copy_location(wrapper, node)

    def _cut_template(self, site, names, body, orelse, iter_expr, target, test, has_break, live=None):
        """
        __L = __vc.loop(site, <iter or None>, locals(), bound, mutated)
        <for each bound name v>:  v = __L.hv('v');  if v is __vc.UNBOUND: del v
        __L.assume_inv(locals())
        if __L.take(<lambda: test> or None):
            for __once in (0,):
                <target> = __L.element()
                BODY
            else:
                __L.preserved(locals())        # raises EndPath
            # falls through here only after `break`: state continues after the loop
        else:
            ORELSE
        """
        if orelse and has_break:
            # loop-else with break: the else clause must be skipped after break; handled by structure below
            pass
        L = "_vcL_" + str(abs(hash(site)) % 10 ** 8)
        stmts = []
        stmts.append(ast.Assign(
            targets=[ast.Name(id=L, ctx=ast.Store())],
            value=_call("_vc_.loop", [ast.Constant(value=site), iter_expr or ast.Constant(value=None),
                                      _call("locals", []),
                                      ast.Constant(value=tuple(names.bound)), ast.Constant(value=tuple(names.mutated)),
                                      ast.Constant(value=tuple(_target_names(target))),
                                      ast.Constant(value=None if live is None else tuple(sorted(live)))])))
        for v in list(names.bound) + [m for m in names.mutated if m not in names.bound]:
            stmts.append(ast.Assign(targets=[ast.Name(id=v, ctx=ast.Store())],
                                    value=_call(f"{L}.hv", [ast.Constant(value=v)])))
            stmts.append(ast.If(test=ast.Compare(left=ast.Name(id=v, ctx=ast.Load()), ops=[ast.Is()],
                                                 comparators=[_attr("_vc_.UNBOUND")]),
                                body=[ast.Delete(targets=[ast.Name(id=v, ctx=ast.Del())])], orelse=[]))
        stmts.append(ast.Expr(value=_call(f"{L}.assume_inv", [_call("locals", [])])))
        if test is not None and any(isinstance(x, ast.NamedExpr) for x in ast.walk(test)):
            # a walrus in the loop test binds in the function scope: evaluate the test in place, not inside a lambda
            stmts.append(ast.Assign(targets=[ast.Name(id="_vc_tv", ctx=ast.Store())], value=test))
            take_arg = ast.Lambda(args=_args([]), body=ast.Name(id="_vc_tv", ctx=ast.Load()))
        elif test is not None:
            take_arg = ast.Lambda(args=_args([]), body=test)
        else:
            take_arg = ast.Constant(value=None)
        once_body = []
        if target is not None:
            once_body.append(ast.Assign(targets=[target], value=_call(f"{L}.element", [])))
        once_body.extend(body)
        once = ast.For(target=ast.Name(id="_vc_once", ctx=ast.Store()),
                       iter=ast.Tuple(elts=[ast.Constant(value=0)], ctx=ast.Load()),
                       body=once_body,
                       orelse=[ast.Expr(value=_call(f"{L}.preserved", [_call("locals", [])]))])
        take_body = [once, ast.Expr(value=_call(f"{L}.after_break", [_call("locals", [])]))]
        exit_body = [ast.Expr(value=_call(f"{L}.exit", [_call("locals", [])]))] + list(orelse)
        stmts.append(ast.If(test=_call(f"{L}.take", [take_arg]), body=take_body, orelse=exit_body))
        return stmts


def _target_names(target):
    if target is None:
        return []
    n = _Names()
    n._target(target)
    return n.bound


def _args(names):
    return ast.arguments(posonlyargs=[], args=[ast.arg(arg=n) for n in names], kwonlyargs=[], kw_defaults=[],
                         defaults=[])


def _attr(dotted):
    parts = dotted.split(".")
    e = ast.Name(id=parts[0], ctx=ast.Load())
    for p in parts[1:]:
        e = ast.Attribute(value=e, attr=p, ctx=ast.Load())
    return e


def _call(dotted, args):
    return ast.Call(func=_attr(dotted), args=list(args), keywords=[])


def _with_unpack(target, arg, expr):
    """expression evaluating `expr` with `target` bound from arg: (lambda <names>: expr)(*__vc.unpack(arg, shape))"""
    if isinstance(target, ast.Name):
        return ast.Call(func=ast.Lambda(args=_args([target.id]), body=expr), args=[ast.Name(id=arg, ctx=ast.Load())],
                        keywords=[])
    # tuple targets (possibly nested): flatten names, let __vc.unpack produce the flat list
    names, shape = [], _shape(target, [])
    _flat(target, names)
    return ast.Call(func=ast.Lambda(args=_args(names), body=expr),
                    args=[ast.Starred(value=_call("_vc_.unpack", [ast.Name(id=arg, ctx=ast.Load()),
                                                                 ast.Constant(value=shape)]), ctx=ast.Load())],
                    keywords=[])


def _flat(t, out):
    if isinstance(t, ast.Name):
        out.append(t.id)
    elif isinstance(t, (ast.Tuple, ast.List)):
        for e in t.elts:
            _flat(e, out)
    else:
        raise SyntaxError("unsupported comprehension target")


def _shape(t, _):
    if isinstance(t, ast.Name):
        return None
    return tuple(_shape(e, _) for e in t.elts)


# --------------------------------------------------------------------------------------------------------
# loader
# --------------------------------------------------------------------------------------------------------

def repo_root():
    return os.environ.get("VERIF_REPO", "/repo")


def src_dir():
    return os.path.join(repo_root(), "src", "yaw")


def transform_source(source, modname, filename, yield_to_emit=False):
    tree = ast.parse(source, filename=filename)
    tree = Transformer(modname, yield_to_emit=yield_to_emit).visit(tree)
    ast.fix_missing_locations(tree)
    return tree


class _Loader(importlib.abc.Loader):
    def __init__(self, fullname, path, is_pkg):
        self.fullname, self.path, self.is_pkg = fullname, path, is_pkg

    def create_module(self, spec):
        return None

    def exec_module(self, module):
        from . import runtime
        with open(self.path, "rb") as f:
            raw = f.read()
        SOURCES[self.fullname] = (self.path, hashlib.sha256(raw).hexdigest())
        tree = transform_source(raw.decode("utf-8"), self.fullname, self.path)
        code = compile(tree, self.path, "exec", flags=FLAGS, dont_inherit=True)
        module.__dict__["_vc_"] = runtime.VC
        runtime.install_builtins(module.__dict__)
        exec(code, module.__dict__)
        runtime.post_import(module)


class _Finder(importlib.abc.MetaPathFinder):
    def find_spec(self, fullname, path, target=None):
        if fullname != PKG and not fullname.startswith(PKG + "."):
            return None
        rel = fullname.split(".")[1:]
        base = os.path.join(src_dir(), *rel)
        if os.path.isdir(base) and os.path.exists(os.path.join(base, "__init__.py")):
            p = os.path.join(base, "__init__.py")
            spec = importlib.util.spec_from_loader(fullname, _Loader(fullname, p, True), origin=p, is_package=True)
            spec.submodule_search_locations = [base]
            return spec
        if os.path.exists(base + ".py"):
            p = base + ".py"
            return importlib.util.spec_from_loader(fullname, _Loader(fullname, p, False), origin=p)
        return None


_finder = None


def install():
    global _finder
    if _finder is None:
        _finder = _Finder()
        sys.meta_path.insert(0, _finder)


def unload():
    for k in [k for k in sys.modules if k == PKG or k.startswith(PKG + ".")]:
        del sys.modules[k]
    SOURCES.clear()
    SITES.clear()


def module(name):
    """import shadow module for real module name, e.g. module('yaw.catalog.trees')"""
    install()
    assert name == "yaw" or name.startswith("yaw."), name
    return importlib.import_module(PKG + name[3:])


def resolve(qual):
    """'yaw.catalog.trees:AngularTree.count' -> (module, owner, attrname, object)"""
    modname, _, path = qual.partition(":")
    mod = module(modname)
    owner = mod
    parts = path.split(".")
    for p in parts[:-1]:
        owner = getattr(owner, p)
    name = parts[-1]
    try:
        obj = owner.__dict__[name] if isinstance(owner, type) else getattr(owner, name)
    except (KeyError, AttributeError):
        raise LookupError(f"{qual} not found in {repo_root()} (renamed or removed)")
    return mod, owner, name, obj


def function_source_hash(qual):
    """sha256 of the source segment of one function (for the evidence)"""
    modname, _, path = qual.partition(":")
    fpath = os.path.join(src_dir(), *modname.split(".")[1:])
    fpath = fpath + ".py" if os.path.exists(fpath + ".py") else os.path.join(fpath, "__init__.py")
    with open(fpath, encoding="utf-8") as f:
        src = f.read()
    tree = ast.parse(src)
    parts = path.split(".")

    def find(body, parts):
        for n in ast.walk(ast.Module(body=body, type_ignores=[])) if False else body:
            if isinstance(n, (ast.FunctionDef, ast.ClassDef, ast.AsyncFunctionDef)) and n.name == parts[0]:
                if len(parts) == 1:
                    return n
                return find(n.body, parts[1:])
            if isinstance(n, (ast.If, ast.Try)):
                for blk in (getattr(n, "body", []), getattr(n, "orelse", []), getattr(n, "finalbody", [])):
                    r = find(blk, parts)
                    if r is not None:
                        return r
                for h in getattr(n, "handlers", []):
                    r = find(h.body, parts)
                    if r is not None:
                        return r
        return None
    node = find(tree.body, parts)
    if node is None:
        raise LookupError(f"{qual} not found in source")
    seg = ast.get_source_segment(src, node)
    return hashlib.sha256(seg.encode()).hexdigest()[:16], node.lineno, fpath


def reload_function(qual, yield_to_emit=True):
    """Re-transform a single function with T2 enabled and return the new function object, executed in the
    globals of its shadow module (used to verify generators as functions returning their trace)."""
    modname, _, path = qual.partition(":")
    mod = module(modname)
    fpath = mod.__spec__.origin
    with open(fpath, encoding="utf-8") as f:
        src = f.read()
    tree = transform_source(src, mod.__name__, fpath, yield_to_emit=yield_to_emit)
    parts = path.split(".")

    def find(body, parts):
        for n in body:
            if isinstance(n, (ast.FunctionDef, ast.ClassDef)) and n.name == parts[0]:
                if len(parts) == 1:
                    return n
                return find(n.body, parts[1:])
            if isinstance(n, (ast.If, ast.Try)):
                for blk in (n.body, n.orelse, getattr(n, "finalbody", [])):
                    r = find(blk, parts)
                    if r is not None:
                        return r
        return None
    node = find(tree.body, parts)
    if node is None:
        raise LookupError(f"{qual} not found in source")
    node.decorator_list = []
    m = ast.Module(body=[node], type_ignores=[])
    ast.fix_missing_locations(m)
    code = compile(m, fpath, "exec", flags=FLAGS, dont_inherit=True)
    ns = {}
    g = mod.__dict__
    exec(code, g, ns)
    fn = ns[node.name]
    return fn
