"""numpy shim (T4): `import numpy as np` in a shadow module binds this module.

Each function is the *assumed contract* of the numpy primitive over mathematical reals/ints.  Called with
concrete arguments only, the real numpy function runs.  A numpy attribute that is not listed here and is called
with a symbolic argument raises Unsupported (verdict UNDECIDED) - a new primitive can never pass silently.
Contracts are conformance-tested against the real numpy by selftest/conformance.py on every run.
"""
from __future__ import annotations

import builtins as _b
builtins_all = _b.all

import numpy as _np
import z3

from . import core, realfn, sigma
from .core import Ctx, SNum, SBool, Unsupported, to_term, tob, is_sym, to_real, const_value, num
from .arrays import (SArr, SRec, SList, SArrBase, bv, in_range, forall, dim_term, dim_const, same_dim, stack_rows,
                     broadcast_to, broadcast_shapes, mask_select, norm_dim)
from .builtins_shim import SymIterable, SSeq, is_symbolic_iterable, has_symbolic_len, item_of, vc_len

# -- passthrough of types and constants --------------------------------------------------------------------
float64, float32, int16, int32, int64, bool_, integer, floating, ndarray, dtype, number, byte = (
    _np.float64, _np.float32, _np.int16, _np.int32, _np.int64, _np.bool_, _np.integer, _np.floating, _np.ndarray,
    _np.dtype, _np.number, _np.byte)
uint8, int8 = _np.uint8, _np.int8
e, nan, inf, newaxis = _np.e, _np.nan, _np.inf, _np.newaxis
iinfo, finfo = _np.iinfo, _np.finfo
exceptions = _np.exceptions
typing = None
try:
    import numpy.typing as typing  # noqa: F401
except Exception:  # noqa: BLE001
    pass


class _Pi(float):
    """k*pi: a float for concrete code, the term k*pi (pi a real constant symbol with bounds) when mixed with proxies"""

    def __new__(cls, k=1.0):
        o = float.__new__(cls, k * _np.pi)
        o.k = k
        return o

    def _sym(self):
        return realfn.pi() * self.k if self.k != 1 else realfn.pi()

    @staticmethod
    def _plain(o):
        return isinstance(o, (int, float)) and not isinstance(o, (bool, _Pi))

    def __mul__(self, o):
        if _sym(o):
            return self._sym() * o
        if self._plain(o):
            return _Pi(self.k * o)
        return float(self) * o

    __rmul__ = __mul__

    def __truediv__(self, o):
        if _sym(o):
            return self._sym() / o
        if self._plain(o) and o != 0:
            return _Pi(self.k / o)
        return float(self) / o

    def __rtruediv__(self, o):
        return o / self._sym() if _sym(o) else o / float(self)

    def __neg__(self):
        return _Pi(-self.k)

    def __add__(self, o):
        return self._sym() + o if _sym(o) else float(self) + o

    __radd__ = __add__

    def __sub__(self, o):
        return self._sym() - o if _sym(o) else float(self) - o

    def __rsub__(self, o):
        return o - self._sym() if _sym(o) else o - float(self)

    def __mod__(self, o):
        return self._sym() % o if _sym(o) else float(self) % o

    def __rmod__(self, o):
        return o % self._sym() if _sym(o) else o % float(self)

    def __lt__(self, o):
        return self._sym() < o if _sym(o) else float(self) < o

    def __le__(self, o):
        return self._sym() <= o if _sym(o) else float(self) <= o

    def __gt__(self, o):
        return self._sym() > o if _sym(o) else float(self) > o

    def __ge__(self, o):
        return self._sym() >= o if _sym(o) else float(self) >= o

    __hash__ = float.__hash__


pi = _Pi(1.0)


def _sym(x):
    if isinstance(x, (SNum, SBool, SArrBase, SList, SymIterable)):
        return True
    if isinstance(x, (list, tuple)):
        return _b.any(_sym(v) for v in x)
    if isinstance(x, dict):
        return _b.any(_sym(v) for v in x.values())
    d = getattr(x, "data", None) if not isinstance(x, (int, float, str, bytes, _np.ndarray, _np.generic)) else None
    if isinstance(d, SArrBase):
        return True          # repository array wrappers (CustomNumpyArray) around a symbolic array
    return hasattr(x, "__vc_symbolic__")


def anysym(*a, **k):
    return _b.any(_sym(x) for x in a) or _b.any(_sym(x) for x in k.values())


def _arr(x, kind=None):
    """coerce to SArr"""
    if isinstance(x, SArr):
        return x
    if hasattr(x, "materialise"):
        return x.materialise()
    if isinstance(x, SList):
        return x.arr
    if isinstance(x, (SNum, SBool)):
        t = x.t
        k = "b" if isinstance(x, SBool) else ("i" if x.is_int else "f")
        return SArr((), lambda: t, k)
    if isinstance(x, SSeq):
        n = x.vc_len()
        first = x.item(SNum(bv("k")))
        if isinstance(first, (SNum, SBool)):
            knd = "b" if isinstance(first, SBool) else ("i" if first.is_int else "f")
            return SArr((n,), lambda t: to_term(x.item(SNum(t))) if knd != "b" else tob(x.item(SNum(t))), knd)
        raise Unsupported("array from a symbolic sequence of non-scalars")
    if hasattr(x, "data") and isinstance(getattr(x, "data"), SArr):
        return x.data  # CustomNumpyArray (__array_interface__)
    if isinstance(x, (list, tuple)):
        if len(x) and _b.all(isinstance(v, SArr) for v in x):
            return stack_rows(list(x))
        return SArr.from_list(list(x))
    if isinstance(x, _np.ndarray):
        return SArr.from_concrete(x)
    if isinstance(x, (int, float, bool, _np.number, _np.bool_)):
        t = to_term(x)
        return SArr((), lambda: t, "i" if core._is_int(t) else "f")
    raise Unsupported(f"cannot view {type(x).__name__} as array")


def _fallback(name):
    real = getattr(_np, name)

    def f(*a, **k):
        if anysym(*a, **k):
            raise Unsupported(f"numpy primitive np.{name} has no contract in npshim")
        return real(*a, **k)
    f.__name__ = name
    return f


def __getattr__(name):
    if hasattr(_np, name):
        v = getattr(_np, name)
        if callable(v) and not isinstance(v, type):
            return _fallback(name)
        return v
    raise AttributeError(name)


# -- construction ------------------------------------------------------------------------------------------

def asarray(x, dtype=None, **k):
    if not _sym(x) and not (hasattr(x, "data") and _sym(getattr(x, "data", None))):
        return _np.asarray(x, dtype=dtype, **k)
    a = _arr(x)
    return a.astype(dtype) if dtype is not None else a


array = asarray
ascontiguousarray = asarray


def asarray_chkfinite(x, dtype=None, **k):
    """ASSUMED: raises ValueError iff the input contains inf/NaN.  In the real-number model every symbolic value is
    finite; the ghost flag `nonfinite` of an input array (set by harnesses that model faulty input) makes it raise."""
    if not _sym(x):
        return _np.asarray_chkfinite(x, dtype=dtype, **k)
    a = _arr(x)
    flag = a.meta.get("nonfinite")
    if flag is not None and bool(flag):
        raise ValueError("array must not contain infs or NaNs")
    Ctx.cur.trust("numpy:asarray_chkfinite raises ValueError on inf/NaN")
    Ctx.cur.ghost.setdefault("chkfinite_calls", []).append(a)
    return a.astype(dtype) if dtype is not None else a


def _shape_tuple(shape):
    if isinstance(shape, (tuple, list)):
        return tuple(shape)
    return (shape,)


def _dtype_kind(dtype, default="f"):
    if dtype is None:
        return default
    k = _np.dtype(dtype).kind
    return {"f": "f", "i": "i", "u": "i", "b": "b"}.get(k, None)


def empty(shape, dtype=None, **k):
    shape = _shape_tuple(shape)
    if isinstance(dtype, (list, _np.dtype)) and getattr(_np.dtype(dtype), "names", None):
        dt = _np.dtype(dtype)
        if not anysym(shape):
            return _np.empty(shape, dtype=dt)
        ctx = Ctx.cur
        return SRec(shape[0], {n: _uninit(ctx, f"empty.{n}", shape, _dtype_kind(dt.fields[n][0]), dt.fields[n][0].name)
                               for n in dt.names})
    if hasattr(dtype, "fields") and hasattr(dtype, "_rec"):
        raise Unsupported("np.empty with proxy record dtype")
    if not anysym(shape):
        # concrete shape, but later symbolic stores are likely: use a proxy when a path is active
        if Ctx.cur is None:
            return _np.empty(shape, dtype=dtype)
    kind = _dtype_kind(dtype)
    if kind is None:
        raise Unsupported(f"np.empty dtype {dtype}")
    return _uninit(Ctx.cur, "empty", shape, kind, _np.dtype(dtype or "f8").name)


def _uninit(ctx, hint, shape, kind, dtype_name):
    a = SArr.fresh(ctx, hint, shape, kind)  # uninitialised memory = arbitrary values
    a.dtype_name = dtype_name
    return a


def zeros(shape, dtype=None, **k):
    shape = _shape_tuple(shape)
    if isinstance(dtype, (list, _np.dtype)) and getattr(_np.dtype(dtype), "names", None):
        dt = _np.dtype(dtype)
        if not anysym(shape):
            return _np.zeros(shape, dtype=dt)
        fields = {}
        for n in dt.names:
            kind = _dtype_kind(dt.fields[n][0])
            a = SArr.const(shape, 0 if kind != "b" else False, kind)
            a.dtype_name = dt.fields[n][0].name
            fields[n] = a
        return SRec(shape[0], fields)
    if not anysym(shape) and Ctx.cur is None:
        return _np.zeros(shape, dtype=dtype)
    kind = _dtype_kind(dtype)
    return SArr.const(shape, 0 if kind != "b" else False, kind)


def full(shape, value, dtype=None):
    shape = _shape_tuple(shape)
    if not anysym(shape, value) and Ctx.cur is None:
        return _np.full(shape, value, dtype=dtype)
    if isinstance(value, float) and value != value:
        # NaN is not a real number: it is one distinguished unconstrained constant (x == nan is satisfiable for every x, so a
        # NaN where a value is specified is refutable; arithmetic on it is not modelled)
        a = SArr.const(shape, SNum(NAN), "f")
        a.meta["all_nan"] = True
        return a
    return SArr.const(shape, value)


def allclose(a, b, rtol=1e-05, atol=1e-08, equal_nan=False):
    if not anysym(a, b):
        return _np.allclose(a, b, rtol=rtol, atol=atol, equal_nan=equal_nan)
    return all(isclose(a, b, rtol=rtol, atol=atol, equal_nan=equal_nan))


NAN = z3.Real("nan?")


def shape(a):
    if not _sym(a):
        return _np.shape(a)
    return _arr(a).shape


def broadcast_to(a, shape_, **k):
    shape_ = _shape_tuple(shape_)
    if not anysym(a, shape_):
        return _np.broadcast_to(a, shape_)
    from .arrays import broadcast_to as _bt
    return _bt(_arr(a), shape_)


def isclose(a, b, rtol=1e-05, atol=1e-08, equal_nan=False):
    """|a - b| <= atol + rtol * |b|  (numpy's asymmetric definition), over the reals"""
    if not anysym(a, b):
        return _np.isclose(a, b, rtol=rtol, atol=atol, equal_nan=equal_nan)
    from .arrays import broadcast_shapes
    from .arrays import broadcast_to as _bt
    A, Bv = _arr(a), _arr(b)
    sh = broadcast_shapes(A.shape, Bv.shape)
    ae, be = _bt(A, sh)._elem, _bt(Bv, sh)._elem
    rt, at = z3.RealVal(repr(float(rtol))), z3.RealVal(repr(float(atol)))

    def el(*i):
        x, y = to_real(ae(*i)), to_real(be(*i))
        d = x - y
        return z3.If(d >= 0, d, -d) <= at + rt * z3.If(y >= 0, y, -y)
    return SArr(sh, el, "b")


def zeros_like(a, **k):
    if not _sym(a):
        return _np.zeros_like(a, **k)
    a = _arr(a)
    return SArr.const(a.shape, 0 if a.kind != "b" else False, a.kind)


def ones_like(a, **k):
    if not _sym(a):
        return _np.ones_like(a, **k)
    a = _arr(a)
    return SArr.const(a.shape, 1, a.kind)


def arange(*a, **k):
    if not anysym(*a):
        return _np.arange(*a, **k)
    if len(a) == 1:
        lo, hi = 0, a[0]
    elif len(a) == 2:
        lo, hi = a
    else:
        raise Unsupported("arange with step")
    lot, hit = to_term(lo), to_term(hi)
    n = z3.simplify(z3.If(hit > lot, hit - lot, z3.IntVal(0)))
    c = const_value(n)
    return SArr((c if isinstance(c, int) else SNum(n),), lambda t: lot + t, "i")


def atleast_1d(x):
    if not _sym(x):
        return _np.atleast_1d(x)
    a = _arr(x)
    if a.ndim == 0:
        t = a._elem
        return SArr((1,), lambda i: t(), a.kind)
    return a


def atleast_2d(x):
    if not _sym(x):
        return _np.atleast_2d(x)
    a = _arr(x)
    if a.ndim == 0:
        t = a._elem
        return SArr((1, 1), lambda i, j: t(), a.kind)
    if a.ndim == 1:
        old = a._elem
        return SArr((1, a.shape[0]), lambda i, j: old(j), a.kind)
    return a


def isscalar(x):
    if isinstance(x, (SNum, SBool)):
        return True
    if isinstance(x, SArrBase):
        return False
    return _np.isscalar(x)


def transpose(x):
    if not _sym(x):
        return _np.transpose(x)
    a = _arr(x)
    t = a.T
    return t


def hstack(parts):
    if not anysym(*parts) if isinstance(parts, (list, tuple)) else not _sym(parts):
        return _np.hstack(parts)
    parts = [_arr(p_) for p_ in parts]
    if all(p_.ndim <= 1 for p_ in parts):
        def one(p_):
            e = p_._elem
            return SArr((1,), lambda t: e(), p_.kind)
        return concatenate([p_ if p_.ndim == 1 else one(p_) for p_ in parts])
    return concatenate(parts, axis=1)


def stack(arrs, axis=0):
    """np.stack of equally long 1-d arrays: axis=1 is column_stack, axis=0 its transpose"""
    if not anysym(*arrs):
        return _np.stack(arrs, axis=axis)
    arrs = [_arr(a) for a in arrs]
    if all(a.ndim == 1 for a in arrs) and axis in (0, 1, -1):
        cs = column_stack(arrs)
        return cs if axis in (1, -1) else cs.T
    raise Unsupported("np.stack other than 1-d arrays along axis 0 / 1")


def column_stack(cols):
    if not _sym(cols):
        return _np.column_stack(cols)
    cols = [_arr(c) for c in cols]
    if _b.any(c.ndim != 1 for c in cols):
        raise Unsupported("column_stack of non 1-d arrays")
    n = cols[0].shape[0]
    for c in cols[1:]:
        same_dim(c.shape[0], n, "all the input array dimensions except for the concatenation axis must match")
    kind = "f" if _b.any(c.kind == "f" for c in cols) else cols[0].kind
    els = [c._elem for c in cols]

    def el(i, j):
        j = z3.simplify(j)
        if z3.is_int_value(j):
            v = els[j.as_long()](i)
            return to_real(v) if kind == "f" else v
        r = els[-1](i)
        r = to_real(r) if kind == "f" else r
        for k in range(len(els) - 2, -1, -1):
            v = els[k](i)
            r = z3.If(j == k, to_real(v) if kind == "f" else v, r)
        return r
    return SArr((n, len(cols)), el, kind)


def concatenate(arrs, axis=0):
    if not _sym(arrs):
        return _np.concatenate(arrs, axis=axis)
    if isinstance(arrs, (SymIterable,)) and has_symbolic_len(arrs):
        from . import seqcat
        return seqcat.concat_symbolic(arrs)
    if isinstance(arrs, SArr):
        # a single n-d array is treated by numpy as the sequence of its (n-1)-d rows
        if arrs.ndim - 1 <= (axis if axis >= 0 else axis + arrs.ndim - 1) or arrs.ndim < 2:
            if arrs.ndim < 2:
                raise ValueError("zero-dimensional arrays cannot be concatenated")
            raise _np.exceptions.AxisError(axis, arrs.ndim - 1)
        raise Unsupported("np.concatenate of the rows of a symbolic array")
    arrs = [a.data if (hasattr(a, "data") and isinstance(a.data, SArr)) else a for a in list(arrs)]
    if arrs and _b.all(isinstance(a, SRec) for a in arrs):
        names = list(arrs[0].fields)
        if _b.any(list(a.fields) != names for a in arrs):
            raise TypeError("invalid type promotion with structured datatype(s).")
        cols = {n: concatenate([a.fields[n] for a in arrs]) for n in names}
        for n in names:
            cols[n].dtype_name = arrs[0].fields[n].dtype_name
        return SRec(cols[names[0]].shape[0], cols)
    arrs = [_arr(a) for a in arrs]
    if not arrs:
        raise ValueError("need at least one array to concatenate")
    if _b.any(a.ndim == 0 for a in arrs):
        raise ValueError("zero-dimensional arrays cannot be concatenated")
    nd = arrs[0].ndim
    if _b.any(a.ndim != nd for a in arrs):
        raise ValueError("all the input arrays must have same number of dimensions")
    if axis != 0:
        if axis == 1 and nd == 2:
            return transpose(concatenate([a.T for a in arrs], axis=0))
        raise Unsupported("concatenate on this axis")
    for a in arrs[1:]:
        for x, y in zip(a.shape[1:], arrs[0].shape[1:]):
            same_dim(x, y, "all the input array dimensions except for the concatenation axis must match")
    kind = "f" if _b.any(a.kind == "f" for a in arrs) else arrs[0].kind
    offs, tot = [], z3.IntVal(0)
    for a in arrs:
        offs.append(tot)
        tot = z3.simplify(tot + dim_term(a.shape[0]))
    els = [a._elem for a in arrs]
    c = const_value(tot)

    def el(i, *rest):
        r = els[-1](i - offs[-1], *rest)
        r = to_real(r) if kind == "f" else r
        for k in range(len(els) - 2, -1, -1):
            v = els[k](i - offs[k], *rest)
            r = z3.If(i < offs[k + 1], to_real(v) if kind == "f" else v, r)
        return r
    return SArr((c if isinstance(c, int) else SNum(tot),) + tuple(arrs[0].shape[1:]), el, kind)


def append(a, b):
    if not anysym(a, b):
        return _np.append(a, b)
    a, b = atleast_1d(a), atleast_1d(b)
    if a.ndim != 1 or b.ndim != 1:
        raise Unsupported("np.append flattening of rank>1")
    return concatenate([a, b])


def reshape(a, *shape):
    if len(shape) == 1 and isinstance(shape[0], (tuple, list)):
        shape = tuple(shape[0])
    if not anysym(a, shape):
        return _np.reshape(a, shape)
    a = _arr(a)
    if a.ndim == 1 and len(shape) >= 2 and const_value(to_term(shape[0])) == -1 and builtins_all(const_value(to_term(d)) == 1 for d in shape[1:]):
        # (n,) -> (-1, 1, ..., 1): the same values with unit axes appended
        old = a._elem
        return SArr((a.shape[0],) + (1,) * (len(shape) - 1), lambda i, *rest: old(i), a.kind, dtype_name=a.dtype_name)
    if a.ndim != 1 or len(shape) != 2:
        raise Unsupported("reshape other than 1-d -> 2-d")
    r, c = shape
    tl = a.meta.get("tile")
    if tl is not None and const_value(to_term(c)) == -1 and z3.simplify(to_term(r) - tl[1]).eq(z3.IntVal(0)):
        # tile(base, r).reshape((r, -1)) is the (r, n) array whose every row is base   (identity of the two
        # index maps: (i*n + j) mod n = j for 0 <= j < n)
        base = tl[0]
        be = base._elem
        if not Ctx.cur.branch(to_term(r) > 0):
            raise ValueError("cannot reshape array of size 0 into shape (0,newaxis)")
        Ctx.cur.trust("numpy:tile(a, r).reshape((r, -1))[i, j] == a[j]")
        return SArr((norm_dim(num(r)) if is_sym(r) else r, base.shape[0]), lambda i, j: be(j), a.kind)
    total = dim_term(a.shape[0])
    if const_value(to_term(c)) == -1:
        rt = to_term(r)
        ct = z3.simplify(total / rt)
        Ctx.cur.side_condition("reshape_divisible", z3.And(rt > 0, total == rt * ct)) if False else None
        if not Ctx.cur.branch(z3.And(rt > 0, total % rt == 0) if isinstance(const_value(rt), int) else
                              z3.Exists([z3.Int("q?rs")], z3.And(rt > 0, total == rt * z3.Int("q?rs")))):
            raise ValueError("cannot reshape array")
        cq = Ctx.cur.fresh_int("rs_cols", lo=0)
        Ctx.cur.assume(total == rt * cq.t, "numpy:reshape(-1)")
        c = cq
    elif const_value(to_term(r)) == -1:
        raise Unsupported("reshape(-1, c)")
    else:
        same_dim(SNum(to_term(r) * to_term(c)), a.shape[0], "cannot reshape array")
    ct = to_term(c)
    old = a._elem
    return SArr((norm_dim(num(r)) if is_sym(r) else r, norm_dim(num(c)) if is_sym(c) else c),
                lambda i, j: old(i * ct + j), a.kind)


def tile(a, reps):
    if not anysym(a, reps):
        return _np.tile(a, reps)
    a = _arr(a)
    if a.ndim != 1:
        raise Unsupported("tile of rank != 1")
    old = a._elem
    n = dim_term(a.shape[0])
    if isinstance(reps, tuple):
        if len(reps) != 2 or const_value(to_term(reps[1])) != 1:
            raise Unsupported("tile reps")
        r = reps[0]
        return SArr((norm_dim(num(r)) if is_sym(r) else r, a.shape[0]), lambda i, j: old(j), a.kind)
    rt = to_term(reps)
    Ctx.cur.ghost.setdefault("tile_period", {})
    total = z3.simplify(rt * n)
    c = const_value(total)
    # element t of tile(a, r) is a[t mod n]; expressed with an explicit quotient function to stay linear
    q = Ctx.cur.fresh_fn("tile_q", z3.IntSort(), z3.IntSort())
    t = bv("t")
    Ctx.cur.assume(forall([t], z3.Implies(z3.And(t >= 0, t < total),
                                          z3.And(q(t) >= 0, q(t) < rt, t - q(t) * n >= 0, t - q(t) * n < n)),
                          patterns=[q(t)]), "numpy:tile")
    r = SArr((c if isinstance(c, int) else SNum(total),), lambda t: old(t - q(t) * n), a.kind)
    r.meta["tile"] = (a, rt, q)
    return r


def repeat(a, reps, axis=None):
    """ASSUMED: np.repeat(a, r)[t] = a[t div r] for a 1-d array and a scalar r >= 0"""
    if not anysym(a, reps):
        return _np.repeat(a, reps, axis=axis)
    a = _arr(a)
    if axis is not None and a.ndim >= 1:
        ax = axis + a.ndim if axis < 0 else axis
        if dim_const(a.shape[ax]) == 1:
            # repeating the single entry of an axis r times: r copies of it along that axis
            rt = to_term(reps)
            if not Ctx.cur.branch(rt >= 0):
                raise ValueError("repeats may not contain negative values.")
            old = a._elem
            c = const_value(rt)
            shp = a.shape[:ax] + ((c if isinstance(c, int) else SNum(rt)),) + a.shape[ax + 1:]
            Ctx.cur.trust("numpy:repeat of an axis of extent 1 (r copies)")
            return SArr(shp, lambda *i: old(*i[:ax], z3.IntVal(0), *i[ax + 1:]), a.kind)
    if a.ndim != 1 or axis is not None:
        raise Unsupported("repeat of rank != 1")
    rt = to_term(reps)
    if not Ctx.cur.branch(rt >= 0):
        raise ValueError("repeats may not contain negative values.")
    n = dim_term(a.shape[0])
    total = z3.simplify(rt * n)
    c = const_value(total)
    q = Ctx.cur.fresh_fn("repeat_q", z3.IntSort(), z3.IntSort())
    t = bv("t")
    Ctx.cur.assume(forall([t], z3.Implies(z3.And(t >= 0, t < total),
                                          z3.And(q(t) >= 0, q(t) < n, q(t) * rt <= t, t < (q(t) + 1) * rt)),
                          patterns=[q(t)]), "numpy:repeat")
    Ctx.cur.trust("numpy:repeat(a, r)[t] == a[t div r]")
    old = a._elem
    r = SArr((c if isinstance(c, int) else SNum(total),), lambda t: old(q(t)), a.kind)
    r.meta["repeat"] = (a, rt, q)
    return r


def delete(a, idx):
    if not anysym(a, idx):
        return _np.delete(a, idx)
    raise Unsupported("np.delete with symbolic operands (use the resample_jackknife contract)")


def diff(a, **k):
    if not _sym(a):
        return _np.diff(a, **k)
    a = _arr(a)
    if a.ndim != 1:
        raise Unsupported("diff rank")
    old = a._elem
    n = dim_term(a.shape[0])
    m = z3.simplify(z3.If(n > 0, n - 1, z3.IntVal(0)))
    c = const_value(m)
    return SArr((c if isinstance(c, int) else SNum(m),), lambda t: old(t + 1) - old(t), a.kind)


def where(cond, a, b):
    if not anysym(cond, a, b):
        return _np.where(cond, a, b)
    if isinstance(cond, SBool):
        return SNum(z3.If(cond.t, to_real(to_term(a)), to_real(to_term(b))))
    c = _arr(cond)
    shape = c.shape
    A = broadcast_to(_arr(a), shape) if isinstance(a, SArrBase) else None
    Bv = broadcast_to(_arr(b), shape) if isinstance(b, SArrBase) else None
    at = None if A is not None else to_real(to_term(a))
    bt = None if Bv is not None else to_real(to_term(b))
    ce = c._elem
    return SArr(shape, lambda *i: z3.If(ce(*i), to_real(A._elem(*i)) if A is not None else at,
                                        to_real(Bv._elem(*i)) if Bv is not None else bt), "f")


def square(x):
    if not _sym(x):
        return _np.square(x)
    return x * x


def maximum(a, b):
    if not anysym(a, b):
        return _np.maximum(a, b)
    A = _arr(a)
    return A._ew(b, lambda x, y: z3.If(x >= y, x, y))


def minimum(a, b):
    if not anysym(a, b):
        return _np.minimum(a, b)
    A = _arr(a)
    return A._ew(b, lambda x, y: z3.If(x <= y, x, y))


def sign(x):
    if not _sym(x):
        return _np.sign(x)
    if isinstance(x, SNum):
        return SNum(z3.If(x.t > 0, z3.RealVal(1), z3.If(x.t < 0, z3.RealVal(-1), z3.RealVal(0))))
    a = _arr(x)
    old = a._elem
    return SArr(a.shape, lambda *i: z3.If(old(*i) > 0, z3.RealVal(1), z3.If(old(*i) < 0, z3.RealVal(-1),
                                                                        z3.RealVal(0))), "f")


def abs(x):  # noqa: A001
    if not _sym(x):
        return _np.abs(x)
    return x.__abs__()


absolute = abs


def _unary(name):
    real = getattr(_np, name)

    def f(x, *a, **k):
        if not _sym(x):
            return real(x, *a, **k)
        if isinstance(x, (SNum, SBool)):
            return realfn.apply(name, x)
        return realfn.apply(name, _arr(x))
    f.__name__ = name
    return f


sqrt, sin, cos, arcsin, arccos, log, log10, exp = (_unary(n) for n in
                                                  ("sqrt", "sin", "cos", "arcsin", "arccos", "log", "log10", "exp"))


def ceil(x):
    if not _sym(x):
        return _np.ceil(x)
    return realfn.apply("ceil", x)


def deg2rad(x):
    if not _sym(x):
        return _np.deg2rad(x)
    Ctx.cur.trust("numpy:deg2rad(x) = x*pi/180")
    return x * (realfn.pi() / 180)


def rad2deg(x):
    if not _sym(x):
        return _np.rad2deg(x)
    return x * (180 / realfn.pi())


def isfinite(x):
    if not _sym(x):
        return _np.isfinite(x)
    a = _arr(x)
    return SArr.const(a.shape, True, "b")


def divide(a, b, where=None, out=None):
    if not anysym(a, b, where, out):
        return _np.divide(a, b, where=where, out=out) if where is not None else _np.divide(a, b)
    A, Bv = _arr(a), _arr(b)
    q = A / Bv
    if where is None:
        return q
    w = _arr(where)
    if out is None:
        raise Unsupported("divide(where=) without out")
    oe, qe, we = out._elem, q._elem, broadcast_to(w, q.shape)._elem
    out._elem = lambda *i: z3.If(we(*i), qe(*i), oe(*i))
    return out


# -- reductions --------------------------------------------------------------------------------------------

def _reduce_axis(a, axis, red):
    """apply a 1-d reduction `red(elem_fn(t), n)` along one axis"""
    if axis < 0:
        axis += a.ndim
    shape = a.shape[:axis] + a.shape[axis + 1:]
    old = a._elem
    n = a.shape[axis]

    def el(*idx):
        return red(lambda t: old(*idx[:axis], t, *idx[axis:]), n)
    return shape, el


def sum_(a, axis=None):
    a = _arr(a)
    if a.ndim == 0:
        return a.item()
    kind = "f" if a.kind == "f" else "i"
    if a.kind == "b":
        a = a.astype(_np.int64)

    def red(f, n):
        c = dim_const(n)
        if c is not None and c <= 8:
            tot = z3.RealVal(0) if kind == "f" else z3.IntVal(0)
            for k in range(c):
                tot = tot + f(z3.IntVal(k))
            return tot
        s = sigma.total(f, dim_term(n))
        return s
    if axis is None:
        if a.ndim == 1:
            t = red(a._elem, a.shape[0])
            return SNum(to_real(t) if (kind == "f" or not core._is_int(t)) else t)
        if a.ndim == 2:
            old = a._elem
            t = red(lambda i: red(lambda j: old(i, j), a.shape[1]), a.shape[0])
            return SNum(t)
        if a.ndim == 3:
            old = a._elem
            t = red(lambda b: red(lambda i: red(lambda j: old(b, i, j), a.shape[2]), a.shape[1]), a.shape[0])
            return SNum(t)
        raise Unsupported("sum over all axes of rank>3")
    shape, el = _reduce_axis(a, axis, red)
    if not shape:
        return SNum(el())
    return SArr(shape, el, "f")


def sum(a, axis=None, **k):  # noqa: A001
    if not _sym(a):
        return _np.sum(a, axis=axis, **k)
    return sum_(a, axis)


def nansum(a, axis=None, **k):
    if not _sym(a):
        return _np.nansum(a, axis=axis, **k)
    Ctx.cur.trust("numpy:nansum == sum (no NaN in the real-number model)")
    return sum_(a, axis)


def _extreme(a, axis, less):
    a = _arr(a)
    ctx = Ctx.cur
    if a.ndim == 0:
        return a.item()
    if axis is not None or a.ndim != 1:
        if a.ndim == 2 and axis is None:
            a = a.flatten()
        else:
            raise Unsupported("min/max with axis")
    n = a.shape[0]
    if not ctx.branch(dim_term(n) > 0):
        raise ValueError("zero-size array to reduction operation which has no identity")
    m = ctx.fresh_real("ext") if a.kind == "f" else ctx.fresh_int("ext")
    w = ctx.fresh_int("ext_at")
    t = bv("t")
    old = a._elem
    ctx.assume(z3.And(w.t >= 0, w.t < dim_term(n), old(w.t) == m.t), "numpy:min/max attains")
    ctx.assume(forall([t], z3.Implies(in_range(t, n), (m.t <= old(t)) if less else (m.t >= old(t)))),
               "numpy:min/max bounds")
    ctx.trust("numpy:min/max (bound of all elements, attained)")
    ctx.ghost["last_extreme_at"] = w
    return m


def amin(a, axis=None):
    if not _sym(a):
        return _np.min(a, axis=axis)
    return _extreme(a, axis, True)


def amax(a, axis=None):
    if not _sym(a):
        return _np.max(a, axis=axis)
    return _extreme(a, axis, False)


min = amin  # noqa: A001
max = amax  # noqa: A001


def any_(a, axis=None):
    a = _arr(a)
    if a.kind != "b":
        old0 = a._elem
        a = SArr(a.shape, lambda *i: old0(*i) != 0, "b")
    if axis is not None:
        if axis < 0:
            axis += a.ndim
        shape = a.shape[:axis] + a.shape[axis + 1:]
        old, n = a._elem, a.shape[axis]

        def el(*idx):
            t = bv("t")
            return z3.Exists([t], z3.And(in_range(t, n), old(*idx[:axis], t, *idx[axis:])))
        return SArr(shape, el, "b")
    if a.ndim == 0:
        return a.item()
    vs = [bv("t") for _ in range(a.ndim)]
    rng = z3.And([in_range(v, s) for v, s in zip(vs, a.shape)])
    consts = [dim_const(s) for s in a.shape]
    if _b.all(c is not None for c in consts) and _prod(consts) <= 16:
        import itertools
        return SBool(z3.Or([a._elem(*[z3.IntVal(i) for i in idx]) for idx in itertools.product(*[range(c) for c in consts])]
                           or [z3.BoolVal(False)]))
    return SBool(z3.Exists(vs, z3.And(rng, a._elem(*vs))))


def _prod(xs):
    r = 1
    for x in xs:
        r *= x
    return r


def all_(a, axis=None):
    a = _arr(a)
    if axis is not None:
        raise Unsupported("all with axis")
    if a.ndim == 0:
        return a.item()
    vs = [bv("t") for _ in range(a.ndim)]
    rng = z3.And([in_range(v, s) for v, s in zip(vs, a.shape)])
    e = a._elem(*vs)
    if a.kind != "b":
        e = e != 0
    return SBool(z3.ForAll(vs, z3.Implies(rng, e)))


def any(a, axis=None, **k):  # noqa: A001
    if not _sym(a):
        return _np.any(a, axis=axis, **k)
    if isinstance(a, SBool):
        return a
    return any_(a, axis)


def all(a, axis=None, **k):  # noqa: A001
    if not _sym(a):
        return _np.all(a, axis=axis, **k)
    if isinstance(a, SBool):
        return a
    return all_(a, axis)


def array_equal(a, b, equal_nan=False):
    if not anysym(a, b):
        return _np.array_equal(a, b, equal_nan=equal_nan)
    A, Bv = _arr(a), _arr(b)
    if A.ndim != Bv.ndim:
        return False
    for x, y in zip(A.shape, Bv.shape):
        cx, cy = dim_const(x), dim_const(y)
        if cx is not None and cy is not None:
            if cx != cy:
                return False
        elif not dim_term(x).eq(dim_term(y)):
            if not Ctx.cur.branch(dim_term(x) == dim_term(y)):
                return False
    if A.ndim == 0:
        return SBool(A._elem() == Bv._elem())
    vs = [bv("t") for _ in range(A.ndim)]
    rng = z3.And([in_range(v, s) for v, s in zip(vs, A.shape)])
    ea, eb = A._elem(*vs), Bv._elem(*vs)
    if A.kind != Bv.kind and "b" not in (A.kind, Bv.kind):
        ea, eb = to_real(ea), to_real(eb)
    return SBool(z3.ForAll(vs, z3.Implies(rng, ea == eb)))


def argmin(a, **k):
    if not _sym(a):
        return _np.argmin(a, **k)
    a = _arr(a)
    if a.ndim != 1:
        raise Unsupported("argmin rank")
    ctx = Ctx.cur
    n = a.shape[0]
    if not ctx.branch(dim_term(n) > 0):
        raise ValueError("attempt to get argmin of an empty sequence")
    w = ctx.fresh_int("argmin")
    t = bv("t")
    old = a._elem
    ctx.assume(z3.And(w.t >= 0, w.t < dim_term(n)), "numpy:argmin")
    ctx.assume(forall([t], z3.Implies(in_range(t, n), z3.And(old(w.t) <= old(t),
                                                             z3.Implies(old(t) == old(w.t), w.t <= t)))),
               "numpy:argmin first minimum")
    ctx.trust("numpy:argmin (index of the first minimal element)")
    return w


def argsort(a, **k):
    """ASSUMED (1-d): a permutation of [0, n) that orders the values non-decreasingly"""
    if not _sym(a):
        return _np.argsort(a, **k)
    a = _arr(a)
    if a.ndim != 1:
        raise Unsupported("np.argsort of rank != 1")
    ctx = Ctx.cur
    n = dim_term(a.shape[0])
    I = z3.IntSort()
    sg, inv = ctx.fresh_fn("argsort", I, I), ctx.fresh_fn("argsort_inv", I, I)
    t, u = bv("t"), bv("u")
    ae = a._elem
    ctx.assume(forall([t], z3.Implies(z3.And(t >= 0, t < n), z3.And(sg(t) >= 0, sg(t) < n, inv(sg(t)) == t)), patterns=[sg(t)]), "numpy:argsort")
    ctx.assume(forall([t], z3.Implies(z3.And(t >= 0, t < n), z3.And(inv(t) >= 0, inv(t) < n, sg(inv(t)) == t)), patterns=[inv(t)]), "numpy:argsort")
    ctx.assume(forall([t, u], z3.Implies(z3.And(t >= 0, t <= u, u < n), ae(sg(t)) <= ae(sg(u))),
                      patterns=[z3.MultiPattern(sg(t), sg(u))]), "numpy:argsort")
    ctx.trust("numpy:argsort (a permutation that sorts)")
    r = SArr((a.shape[0],), lambda q: sg(q), "i")
    r.meta["values_in"] = (0, a.shape[0])
    r.meta["perm"] = (sg, inv, a)
    ctx.ghost["last_argsort"] = (sg, inv, a)
    return r


def _fs_active():
    c = Ctx.cur
    return c is not None and c.ghost.get("fs") is not None


def _concrete_values(a):
    """numpy array of an SArr whose shape and elements are all constants, else None"""
    if a.ndim != 1 or dim_const(a.shape[0]) is None:
        return None
    vals = [const_value(a._elem(z3.IntVal(i))) for i in range(dim_const(a.shape[0]))]
    if _b.any(v is None for v in vals):
        return None
    return _np.array([int(v) if a.kind == "i" else float(v) for v in vals], dtype=a.dtype_name)


def sort(a, **k):
    if not _sym(a):
        r = _np.sort(a, **k)
        return SArr.from_concrete(r) if (_fs_active() and r.ndim == 1 and r.size <= 64) else r
    if isinstance(a, SArr):
        v = _concrete_values(a)
        if v is not None:
            r = SArr.from_concrete(_np.sort(v))
            r.dtype_name = a.dtype_name
            return r
    if isinstance(a, SArr) and a.ndim == 1:
        # sorting an array that is already (provably) non-decreasing returns the same values
        ctx = Ctx.cur
        n = dim_term(a.shape[0])
        ae = a._elem
        t, u = bv("t"), bv("u")
        if ctx.probe(SBool(forall([t, u], z3.Implies(z3.And(t >= 0, t <= u, u < n), ae(t) <= ae(u))))):
            ctx.trust("numpy:sort of a non-decreasing array is the array")
            return a.copy()
    raise Unsupported("np.sort on symbolic data")


def unique(a, return_index=False, **k):
    """ASSUMED for a *sorted* 1-d array (side condition checked): the strictly increasing distinct values, and with
    return_index the start of each run; seg(p) is the run that position p lies in."""
    if not _sym(a):
        return _np.unique(a, return_index=return_index, **k)
    if k:
        raise Unsupported(f"np.unique({list(k)})")
    a = _arr(a)
    if a.ndim != 1:
        raise Unsupported("np.unique of rank != 1")
    ctx = Ctx.cur
    n = dim_term(a.shape[0])
    ae = a._elem
    t, u = bv("t"), bv("u")
    if not ctx.probe(SBool(forall([t, u], z3.Implies(z3.And(t >= 0, t <= u, u < n), ae(t) <= ae(u))))):
        # not a violation of anything: the run-based contract simply does not cover unsorted input
        if return_index:
            raise Unsupported("np.unique(return_index=True) on symbolic data that is not known to be sorted")
        return _unique_general(ctx, a)
    I = z3.IntSort()
    m = ctx.fresh_int("n_unique", lo=0, size=True)
    val = ctx.fresh_fn("unique_val", I, a._elem(z3.IntVal(0)).sort())
    start, seg = ctx.fresh_fn("unique_start", I, I), ctx.fresh_fn("unique_run", I, I)
    g, h = bv("g"), bv("h")
    ctx.assume(z3.And(m.t <= n, (m.t == 0) == (n == 0)), "numpy:unique")
    ctx.assume(z3.Implies(m.t > 0, start(0) == 0), "numpy:unique")
    ctx.assume(start(m.t) == n, "numpy:unique (ghost: end of the last run)")
    ctx.assume(forall([g], z3.Implies(z3.And(g >= 0, g < m.t), z3.And(start(g) >= 0, start(g) < start(g + 1), start(g + 1) <= n, seg(start(g)) == g,
                                                                      ae(start(g)) == val(g))), patterns=[start(g)]), "numpy:unique")
    ctx.assume(forall([g, h], z3.Implies(z3.And(g >= 0, g < h, h < m.t), val(g) < val(h)), patterns=[z3.MultiPattern(val(g), val(h))]), "numpy:unique")
    ctx.assume(forall([t], z3.Implies(z3.And(t >= 0, t < n), z3.And(seg(t) >= 0, seg(t) < m.t, start(seg(t)) <= t, t < start(seg(t) + 1),
                                                                    ae(t) == val(seg(t)))), patterns=[seg(t)]), "numpy:unique")
    ctx.trust("numpy:unique of a sorted array (distinct values increasing, first index of each run)")
    uq = SArr((m,), lambda q: val(q), a.kind, dtype_name=a.dtype_name)
    uq.meta["unique"] = (m, val, start, seg)
    ctx.ghost["last_unique"] = (m, val, start, seg)
    if not return_index:
        return uq
    ix = SArr((m,), lambda q: start(q), "i")
    ix.meta["unique"] = (m, val, start, seg)
    ix.meta["values_in"] = (0, a.shape[0])
    return uq, ix


def _unique_general(ctx, a):
    """ASSUMED (any 1-d array): the distinct values in strictly increasing order - every element is one of them (witness `at`),
    every one of them is an element (witness `src`)"""
    n = dim_term(a.shape[0])
    ae = a._elem
    I = z3.IntSort()
    m = ctx.fresh_int("n_unique", lo=0, size=True)
    val = ctx.fresh_fn("unique_val", I, ae(z3.IntVal(0)).sort())
    at, src = ctx.fresh_fn("unique_at", I, I), ctx.fresh_fn("unique_src", I, I)
    t, g, h = bv("t"), bv("g"), bv("h")
    ctx.assume(z3.And(m.t <= n, (m.t == 0) == (n == 0)), "numpy:unique")
    ctx.assume(forall([g, h], z3.Implies(z3.And(g >= 0, g < h, h < m.t), val(g) < val(h)), patterns=[z3.MultiPattern(val(g), val(h))]), "numpy:unique")
    ctx.assume(forall([t], z3.Implies(z3.And(t >= 0, t < n), z3.And(at(t) >= 0, at(t) < m.t, val(at(t)) == ae(t))), patterns=[at(t)]), "numpy:unique")
    ctx.assume(forall([g], z3.Implies(z3.And(g >= 0, g < m.t), z3.And(src(g) >= 0, src(g) < n, ae(src(g)) == val(g))), patterns=[src(g)]), "numpy:unique")
    ctx.trust("numpy:unique (distinct values in increasing order; every element occurs, nothing else occurs)")
    r = SArr((m,), lambda q: val(q), a.kind, dtype_name=a.dtype_name)
    r.meta["unique_general"] = (m, val, at, src)
    ctx.ghost["last_unique_general"] = (m, val, at, src)
    return r


def split(a, idx, **k):
    """ASSUMED: np.split(a, [i0, i1, ..]) = [a[:i0], a[i0:i1], .., a[i_last:]] (len(idx) + 1 pieces)"""
    if not anysym(a, idx):
        return _np.split(a, idx, **k)
    if k:
        raise Unsupported("np.split with axis")
    from .builtins_shim import SSeq
    ix = _arr(idx)
    if ix.ndim != 1 or ix.kind != "i":
        raise Unsupported("np.split with a section count on symbolic data")
    nparts = ix.shape[0] + 1
    ie, np_t = ix._elem, dim_term(ix.shape[0])
    Ctx.cur.trust("numpy:split at an index list (consecutive slices)")

    def piece(g):
        gt = z3.simplify(to_term(g))
        lo = z3.simplify(z3.If(gt == 0, z3.IntVal(0), ie(gt - 1)))
        hi = z3.simplify(z3.If(gt == np_t, dim_term(a.shape[0]) if not isinstance(a, SRec) else dim_term(a.n), ie(gt)))
        return a[SNum(lo):SNum(hi)]
    return SSeq(nparts if isinstance(nparts, int) else SNum(z3.simplify(to_term(nparts))), piece)


def array_split(a, n, **k):
    if not anysym(a, n):
        return _np.array_split(a, n, **k)
    from . import seqcat
    return seqcat.array_split(a, n)


def nonzero(a):
    """ASSUMED (2-d): index arrays (i1, i2) of common length m that enumerate exactly the non-zero (True) cells, each once."""
    if not _sym(a):
        return _np.nonzero(a)
    a = _arr(a)
    if a.ndim != 2:
        raise Unsupported("np.nonzero of rank != 2")
    ctx = Ctx.cur
    ae = a._elem if a.kind == "b" else (lambda i, j, _e=a._elem: _e(i, j) != 0)
    n1, n2 = dim_term(a.shape[0]), dim_term(a.shape[1])
    # the enumeration is a function of the array: asking twice for the non-zero cells of the same cells gives the same order
    ck = (z3.simplify(n1).sexpr(), z3.simplify(n2).sexpr(), _alpha_key(z3.simplify(ae(z3.Int("nzkey?i"), z3.Int("nzkey?j")))))
    cache = ctx.ghost.setdefault("nonzero_cache", {})
    if ck in cache:
        return cache[ck]
    m = ctx.fresh_int("nnz", lo=0, size=True)
    I = z3.IntSort()
    p1, p2 = ctx.fresh_fn("nz_row", I, I), ctx.fresh_fn("nz_col", I, I)
    rank = ctx.fresh_fn("nz_rank", I, I, I)
    t, i, j = bv("t"), bv("i"), bv("j")
    ctx.assume(forall([t], z3.Implies(z3.And(t >= 0, t < m.t), z3.And(p1(t) >= 0, p1(t) < n1, p2(t) >= 0, p2(t) < n2, ae(p1(t), p2(t)),
                                                                      rank(p1(t), p2(t)) == t)), patterns=[p1(t)]), "numpy:nonzero")
    ctx.assume(forall([i, j], z3.Implies(z3.And(i >= 0, i < n1, j >= 0, j < n2, ae(i, j)),
                                         z3.And(rank(i, j) >= 0, rank(i, j) < m.t, p1(rank(i, j)) == i, p2(rank(i, j)) == j)),
                      patterns=[rank(i, j)]), "numpy:nonzero")
    ctx.trust("numpy:nonzero (enumerates exactly the non-zero cells, each once)")
    r1 = SArr((m,), lambda q: p1(q), "i")
    r2 = SArr((m,), lambda q: p2(q), "i")
    for r, n in ((r1, a.shape[0]), (r2, a.shape[1])):
        r.meta["values_in"] = (0, n)
        r.meta["nonzero"] = (a, m, p1, p2, rank)
    cache[ck] = (r1, r2)
    return r1, r2


def _alpha_key(e):
    """textual key of a term that does not depend on the names of its *bound* variables (they carry a running number)"""
    names, seen = [], set()

    def rec(x):
        if x.get_id() in seen:
            return
        seen.add(x.get_id())
        if z3.is_quantifier(x):
            for k in range(x.num_vars()):
                if x.var_name(k) not in names:
                    names.append(x.var_name(k))
            rec(x.body())
        elif z3.is_app(x):
            for c in x.children():
                rec(c)
    rec(e)
    txt = e.sexpr()
    for k, nm in enumerate(sorted(names, key=lambda n: txt.find(n))):
        txt = txt.replace(nm, f"bound#{k}")
    return txt


def argwhere(a):
    """ASSUMED (2-d): the (m, 2) array of the index pairs of the non-zero cells - the columns are np.nonzero(a)"""
    if not _sym(a):
        return _np.argwhere(a)
    r1, r2 = nonzero(a)
    return column_stack([r1, r2])


def diagonal(a, offset=0, axis1=0, axis2=1):
    """ASSUMED: the diagonal over (axis1, axis2) becomes the last axis: 2-d a[i, i]; 3-d with axes (1, 2): out[b, i] = a[b, i, i]"""
    if not _sym(a):
        return _np.diagonal(a, offset=offset, axis1=axis1, axis2=axis2)
    A = _arr(a)
    if offset != 0:
        raise Unsupported("diagonal with an offset")
    ax1, ax2 = (axis1 + A.ndim if axis1 < 0 else axis1), (axis2 + A.ndim if axis2 < 0 else axis2)
    old = A._elem
    Ctx.cur.trust("numpy:diagonal (diagonal axis last)")
    if A.ndim == 2 and {ax1, ax2} == {0, 1}:
        n = A.shape[0] if Ctx.cur.branch(dim_term(A.shape[0]) <= dim_term(A.shape[1])) else A.shape[1]
        return SArr((n,), lambda i: old(i, i), A.kind)
    if A.ndim == 3 and {ax1, ax2} == {1, 2}:
        n = A.shape[1] if Ctx.cur.branch(dim_term(A.shape[1]) <= dim_term(A.shape[2])) else A.shape[2]
        return SArr((A.shape[0], n), lambda b, i: old(b, i, i), A.kind)
    raise Unsupported(f"diagonal of rank {A.ndim} over axes ({axis1}, {axis2})")


def mod(a, b):
    if not anysym(a, b):
        return _np.mod(a, b)
    return _arr(a) % b


def moveaxis(a, s, d):
    if not _sym(a):
        return _np.moveaxis(a, s, d)
    a = _arr(a)
    if a.ndim == 2 and s == 0 and d in (-1, 1):
        return a.T
    old = a._elem
    if a.ndim == 3 and s == 0 and d in (-1, 2):
        return SArr((a.shape[1], a.shape[2], a.shape[0]), lambda i, j, b: old(b, i, j), a.kind, dtype_name=a.dtype_name)
    if a.ndim == 3 and s in (-1, 2) and d == 0:
        return SArr((a.shape[2], a.shape[0], a.shape[1]), lambda b, i, j: old(i, j, b), a.kind, dtype_name=a.dtype_name)
    raise Unsupported("np.moveaxis other than (2-d, 0, -1) / (3-d, 0 <-> -1)")


def outer(a, b):
    if not anysym(a, b):
        return _np.outer(a, b)
    A, Bv = _arr(a), _arr(b)
    ae, be = A._elem, Bv._elem
    return SArr((A.shape[0], Bv.shape[0]), lambda i, j: to_real(ae(i)) * to_real(be(j)), "f")


def triu(a):
    if not _sym(a):
        return _np.triu(a)
    a = _arr(a)
    old = a._elem
    zero = z3.RealVal(0) if a.kind == "f" else z3.IntVal(0)
    Ctx.cur.trust("numpy:triu (zero below the diagonal of the last two axes)")
    if a.ndim == 2:
        return SArr(a.shape, lambda i, j: z3.If(i <= j, old(i, j), zero), a.kind)
    if a.ndim == 3:
        return SArr(a.shape, lambda b, i, j: z3.If(i <= j, old(b, i, j), zero), a.kind)
    raise Unsupported("triu rank")


def tril(a):
    if not _sym(a):
        return _np.tril(a)
    a = _arr(a)
    old = a._elem
    zero = z3.RealVal(0) if a.kind == "f" else z3.IntVal(0)
    Ctx.cur.trust("numpy:tril (zero above the diagonal of the last two axes)")
    if a.ndim == 2:
        return SArr(a.shape, lambda i, j: z3.If(i >= j, old(i, j), zero), a.kind)
    if a.ndim == 3:
        return SArr(a.shape, lambda b, i, j: z3.If(i >= j, old(b, i, j), zero), a.kind)
    raise Unsupported("tril rank")


def diag(a, k=0):
    if not _sym(a):
        return _np.diag(a, k=k)
    a = _arr(a)
    if k != 0:
        raise Unsupported("diag with offset")
    old = a._elem
    if a.ndim == 2:
        same_dim(a.shape[0], a.shape[1]) if False else None
        n = a.shape[0]
        return SArr((n,), lambda i: old(i, i), a.kind)
    if a.ndim == 1:
        n = a.shape[0]
        zero = z3.RealVal(0) if a.kind == "f" else z3.IntVal(0)
        return SArr((n, n), lambda i, j: z3.If(i == j, old(i), zero), a.kind)
    raise Unsupported("diag rank")


class _DiagView:
    """view of the diagonals of the last two axes of a rank-3 array: einsum('bii->bi', A); writes go through"""

    def __init__(self, base, order):
        self.base, self.order = base, order  # order 'bi' or 'ib'

    @property
    def shape(self):
        b, n, _ = self.base.shape
        return (b, n) if self.order == "bi" else (n, b)

    def materialise(self):
        old = self.base._elem
        if self.order == "bi":
            return SArr(self.shape, lambda b, i: old(b, i, i), self.base.kind)
        return SArr(self.shape, lambda i, b: old(b, i, i), self.base.kind)

    def __getitem__(self, k):
        return self.materialise()[k]

    def __setitem__(self, k, v):
        if k != slice(None):
            raise Unsupported("partial store through a diagonal view")
        v = broadcast_to(_arr(v), self.shape)
        ve, old = v._elem, self.base._elem
        if self.order == "bi":
            self.base._elem = lambda b, i, j: z3.If(i == j, to_real(ve(b, i)), old(b, i, j))
        else:
            self.base._elem = lambda b, i, j: z3.If(i == j, to_real(ve(i, b)), old(b, i, j))

    def __sub__(self, o):
        return self.materialise() - o

    def __rsub__(self, o):
        return o - self.materialise()

    def __add__(self, o):
        return self.materialise() + o

    __radd__ = __add__

    def __mul__(self, o):
        return self.materialise() * o

    __rmul__ = __mul__

    # in-place arithmetic on the view writes through to the array it views (numpy: einsum returns a writable view)
    def __imul__(self, o):
        self[:] = self.materialise() * o
        return self

    def __iadd__(self, o):
        self[:] = self.materialise() + o
        return self

    def __isub__(self, o):
        self[:] = self.materialise() - o
        return self

    def __itruediv__(self, o):
        self[:] = self.materialise() / o
        return self

    def __truediv__(self, o):
        return self.materialise() / o

    @property
    def T(self):
        # the transposed view shares the memory as well
        return _DiagView(self.base, "ib" if self.order == "bi" else "bi")

    @property
    def ndim(self):
        return 2

    def copy(self):
        return self.materialise()


def einsum(spec, *ops):
    """ASSUMED contracts for the subscript strings the repository uses"""
    if not anysym(*ops):
        return _np.einsum(spec, *ops)
    ctx = Ctx.cur
    ctx.trust(f"numpy:einsum('{spec}')")
    spec = spec.replace(" ", "")
    if spec in ("bij->b", "bij->jb", "bij->ib"):
        A = _arr(ops[0])
        if A.ndim != 3:
            raise ValueError("einsum: operand has wrong rank")
        B, N1, N2 = A.shape
        old = A._elem
        if spec == "bij->b":
            return SArr((B,), lambda b: sigma.total(lambda i: sigma.total(lambda j: old(b, i, j), dim_term(N2)),
                                                    dim_term(N1)), "f")
        if spec == "bij->jb":
            return SArr((N2, B), lambda j, b: sigma.total(lambda i: old(b, i, j), dim_term(N1)), "f")
        return SArr((N1, B), lambda i, b: sigma.total(lambda j: old(b, i, j), dim_term(N2)), "f")
    if spec in ("bii->ib", "bii->bi"):
        A = _arr(ops[0])
        if A.ndim != 3:
            raise ValueError("einsum: operand has wrong rank")
        same_dim(A.shape[1], A.shape[2], "einsum: dimensions in operand for repeated label do not match")
        return _DiagView(A, spec[-2:]) if spec == "bii->bi" else _DiagView(A, "ib").materialise()
    if spec == "bi,bj->bij":
        A, Bv = _arr(ops[0]), _arr(ops[1])
        if A.ndim != 2 or Bv.ndim != 2:
            raise ValueError("einsum: operand has wrong rank")
        same_dim(A.shape[0], Bv.shape[0], "einsum: operands could not be broadcast together")
        ae, be = A._elem, Bv._elem
        return SArr((A.shape[0], A.shape[1], Bv.shape[1]), lambda b, i, j: to_real(ae(b, i)) * to_real(be(b, j)), "f")
    raise Unsupported(f"einsum subscripts '{spec}' have no contract")


def digitize(x, bins, right=False):
    """ASSUMED (bins strictly increasing): right=False: bins[i-1] <= x < bins[i];  right=True: bins[i-1] < x <= bins[i]
    with bins[-1] = -inf, bins[len] = +inf; result in 0..len(bins)."""
    if not anysym(x, bins, right):
        return _np.digitize(x, bins, right=right)
    ctx = Ctx.cur
    X, Bn = _arr(x), _arr(bins)
    nb = dim_term(Bn.shape[0])
    idx = SArr.fresh(ctx, "digitize", X.shape, "i")
    t = bv("t")
    xe, be, ie = X._elem, Bn._elem, idx._elem
    rt = tob(right)
    i = ie(t)
    lo_ok = z3.Or(i == 0, z3.If(rt, be(i - 1) < xe(t), be(i - 1) <= xe(t)))
    hi_ok = z3.Or(i == nb, z3.If(rt, xe(t) <= be(i), xe(t) < be(i)))
    ctx.assume(forall([t], z3.Implies(in_range(t, X.shape[0]), z3.And(i >= 0, i <= nb, lo_ok, hi_ok)),
                      patterns=[ie(t)]), "numpy:digitize")
    ctx.trust("numpy:digitize(x, bins, right) for strictly increasing bins")
    idx.meta["values_in"] = (0, None)
    return idx


class _Hist:
    pass


def histogram(x, bins, weights=None, **k):
    """ASSUMED (bins strictly increasing array): hist[b] = Σ_t w_t [bins[b] <= x_t < bins[b+1]], last bin closed
    on both sides.  Returned lazily: element b is a Σ-term over the *unmasked* source array when x came from
    boolean-mask indexing (so that proofs are point-wise in the original rows)."""
    if not anysym(x, bins, weights):
        return _np.histogram(x, bins, weights=weights, **k)
    ctx = Ctx.cur
    X, Bn = _arr(x), _arr(bins)
    nb = z3.simplify(dim_term(Bn.shape[0]) - 1)
    be = Bn._elem
    W = _arr(weights) if weights is not None else None
    if W is not None:
        same_dim(W.shape[0], X.shape[0], "weights should have the same shape as a")
    if X.mask_of is not None:
        base, mask, sel, inv = X.mask_of
        if W is not None:
            if W.mask_of is None or W.mask_of[1] is not mask:
                raise Unsupported("histogram: weights and values selected by different masks")
            wbase = W.mask_of[0]
        n, xe, me = base.shape[0], base._elem, mask._elem
        we = wbase._elem if W is not None else None

        def summand(b, t):
            inb = z3.And(xe(t) >= be(b), z3.If(b == nb - 1, xe(t) <= be(b + 1), xe(t) < be(b + 1)))
            w = to_real(we(t)) if we is not None else z3.RealVal(1)
            return z3.If(z3.And(me(t), inb), w, z3.RealVal(0))
    else:
        n, xe = X.shape[0], X._elem
        we = W._elem if W is not None else None

        def summand(b, t):
            inb = z3.And(xe(t) >= be(b), z3.If(b == nb - 1, xe(t) <= be(b + 1), xe(t) < be(b + 1)))
            w = to_real(we(t)) if we is not None else z3.RealVal(1)
            return z3.If(inb, w, z3.RealVal(0))
    c = const_value(nb)
    hist = SArr((c if isinstance(c, int) else SNum(nb),),
                lambda b: sigma.total(lambda t: summand(b, t), dim_term(n), "H"), "f")
    hist.meta["summand"] = summand
    hist.meta["n"] = n
    ctx.trust("numpy:histogram (half-open bins, last bin closed)")
    return hist, Bn


def bincount(x, weights=None, minlength=0):
    """ASSUMED: x non-negative ints (ValueError otherwise); out has length max(minlength, max(x)+1) and
    out[b] = Σ_t w_t [x_t == b]  (w_t = 1 without weights)."""
    if not anysym(x, weights, minlength):
        return _np.bincount(x, weights=weights, minlength=minlength)
    ctx = Ctx.cur
    X = _arr(x)
    if X.kind != "i" or X.ndim != 1:
        raise TypeError("Cannot cast array data from dtype('float64') to dtype('int64') according to the rule 'safe'")
    W = _arr(weights) if weights is not None else None
    if W is not None:
        same_dim(W.shape[0], X.shape[0], "The weights and list don't have the same length.")
    if X.mask_of is not None:
        base, mask, sel, inv = X.mask_of
        if W is not None:
            if W.mask_of is None or W.mask_of[1] is not mask:
                raise Unsupported("bincount: weights and values selected by different masks")
            wbase = W.mask_of[0]
        n, xe, me = base.shape[0], base._elem, mask._elem
        we = wbase._elem if W is not None else None
        live = lambda t: me(t)  # noqa: E731
    else:
        n, xe = X.shape[0], X._elem
        we = W._elem if W is not None else None
        live = lambda t: z3.BoolVal(True)  # noqa: E731
    t = bv("t")
    neg = z3.Exists([t], z3.And(in_range(t, n), live(t), xe(t) < 0))
    if ctx.branch(neg):
        raise ValueError("'list' argument must have no negative elements")
    ml = to_term(minlength)
    L = ctx.fresh_int("bincount_len", lo=0)
    ctx.assume(L.t >= ml, "numpy:bincount length")
    ctx.assume(forall([t], z3.Implies(z3.And(in_range(t, n), live(t)), xe(t) < L.t)), "numpy:bincount length")
    w = ctx.fresh_int("bincount_max_at")
    ctx.assume(z3.Implies(L.t > ml, z3.And(in_range(w.t, n), live(w.t), xe(w.t) == L.t - 1)), "numpy:bincount length")

    def summand(b, t):
        wt = to_real(we(t)) if we is not None else z3.RealVal(1)
        return z3.If(z3.And(live(t), xe(t) == b), wt, z3.RealVal(0))
    out = SArr((L,), lambda b: sigma.total(lambda t: summand(b, t), dim_term(n), "B"), "f" if W is not None else "f")
    out.meta["summand"] = summand
    out.meta["n"] = n
    ctx.trust("numpy:bincount (out[b] = sum of weights of the entries equal to b, length max(minlength, max+1))")
    return out


def average(a, weights=None, axis=None):
    if not anysym(a, weights):
        return _np.average(a, weights=weights, axis=axis)
    A = _arr(a)
    if axis != 0 or A.ndim != 2:
        raise Unsupported("average other than axis=0 of a 2-d array")
    n = A.shape[0]
    old = A._elem
    if weights is None:
        den = to_real(dim_term(n))
        return SArr((A.shape[1],), lambda c: sigma.total(lambda t: old(t, c), dim_term(n), "A") / den, "f")
    W = _arr(weights)
    we = W._elem
    den = sigma.total(lambda t: to_real(we(t)), dim_term(n), "A")
    Ctx.cur.side_condition("average_weights_nonzero", den != 0)
    return SArr((A.shape[1],), lambda c: sigma.total(lambda t: to_real(we(t)) * old(t, c), dim_term(n), "A") / den, "f")


def linspace(lo, hi, num=50, **k):
    """ASSUMED: num points, first = lo, last = hi (num >= 2), element t = lo + t*(hi-lo)/(num-1)"""
    if not anysym(lo, hi, num):
        return _np.linspace(lo, hi, num, **k)
    lt, ht, nt = to_real(to_term(lo)), to_real(to_term(hi)), to_term(num)
    c = const_value(nt)
    Ctx.cur.trust("numpy:linspace (t-th point lo + t*(hi-lo)/(num-1))")
    if not Ctx.cur.branch(nt >= 0):
        raise ValueError("Number of samples, %s, must be non-negative.")
    step = (ht - lt) / z3.ToReal(nt - 1)
    return SArr((c if isinstance(c, int) else SNum(nt),),
                lambda t: z3.If(nt == 1, lt, lt + z3.ToReal(t) * step), "f")


def logspace(lo, hi, num=50, base=10.0, **k):
    """ASSUMED: base ** linspace(lo, hi, num) (end points base**lo and base**hi)"""
    if not anysym(lo, hi, num):
        return _np.logspace(lo, hi, num, base=base, **k)
    lin = linspace(lo, hi, num)
    if base == _np.e:
        Ctx.cur.trust("numpy:logspace(base=e) = exp(linspace)")
        return realfn.apply("exp", lin)
    return realfn.power(base, lin)


def fromiter(it, dtype=None, **k):
    if not _sym(it):
        r = _np.fromiter(it, dtype=dtype, **k)
        if _fs_active() and r.ndim == 1 and r.size <= 64:
            a = SArr.from_concrete(r)       # so that .tofile() goes to the symbolic file system
            a.dtype_name = r.dtype.name
            return a
        return r
    raise Unsupported("np.fromiter on symbolic iterable")


def fromfile(f, dtype=float, **k):
    from . import fsmodel
    return fsmodel.np_fromfile(f, dtype=dtype, **k)


def loadtxt(path, **k):
    from . import fsmodel
    return fsmodel.np_loadtxt(path, **k)


def cov(m, rowvar=True, ddof=None, **k):
    if not _sym(m):
        return _np.cov(m, rowvar=rowvar, ddof=ddof, **k)
    from . import covmodel
    return covmodel.cov(m, rowvar=rowvar, ddof=ddof)


class _Random:
    def __getattr__(self, name):
        from . import rngmodel
        return getattr(rngmodel, name)


random = _Random()
