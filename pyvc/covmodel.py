"""np.cov contract (ASSUMED): population covariance (ddof=0) of N observations of M variables.
rowvar=False: input (N, M);  cov[a, b] = (1/N) Σ_k (x[k,a] - mean_a)(x[k,b] - mean_b),  mean_a = (1/N) Σ_k x[k,a]."""
from __future__ import annotations

import z3

from . import sigma
from .core import Ctx, Unsupported, to_real
from .arrays import SArr, dim_term


def cov(m, rowvar=True, ddof=None):
    from .npshim import _arr
    X = _arr(m)
    if X.ndim != 2:
        raise Unsupported("np.cov of rank != 2")
    if ddof != 0:
        raise Unsupported("np.cov with ddof != 0 has no contract")
    if rowvar:
        X = X.T
    N, M = X.shape
    xe = X._elem
    Nt = dim_term(N)
    Nr = z3.ToReal(Nt)

    def mean(a):
        return sigma.total(lambda k: to_real(xe(k, a)), Nt, "M") / Nr

    def el(a, b):
        ma, mb = mean(a), mean(b)
        return sigma.total(lambda k: (to_real(xe(k, a)) - ma) * (to_real(xe(k, b)) - mb), Nt, "C") / Nr
    Ctx.cur.trust("numpy:cov(ddof=0) = (1/N) Σ_k (x_ka - mean_a)(x_kb - mean_b)")
    r = SArr((M, M), el, "f")
    r.meta["cov_of"] = X
    return r
