"""Discharging obligations: z3 first, two-stage quantifier handling for counter-models, cvc5 for z3's unknowns."""
from __future__ import annotations

import os
import subprocess
import tempfile
import time

import z3

from . import core

CVC5_BIN = "/usr/bin/cvc5"
STATS = {"z3_ms": 0.0, "cvc5_ms": 0.0, "cvc5_calls": 0}


def _model_witness(ctx, model):
    """values of the registered inputs under the model (small json-able dict)"""
    out = {}
    for name, (kind, obj) in ctx.inputs.items():
        try:
            out[name] = concretise(obj, model)
        except Exception as e:  # noqa: BLE001
            out[name] = f"<not concretised: {type(e).__name__}>"
    return out


def concretise(obj, model, default_len=None):
    from .arrays import SArr, SRec
    if isinstance(obj, core.SNum):
        return _val(model.eval(obj.t, model_completion=True))
    if isinstance(obj, core.SBool):
        return bool(z3.is_true(model.eval(obj.t, model_completion=True)))
    if isinstance(obj, SRec):
        return {k: concretise(v, model) for k, v in obj.fields.items()}
    if isinstance(obj, SArr):
        shape = [concretise(core.num(s), model) if core.is_sym(s) else int(s) for s in obj.shape]
        if any((not isinstance(s, int)) or s < 0 or s > 64 for s in shape):
            return {"shape": shape, "elements": "<too large to list>"}

        def rec(prefix, dims):
            if not dims:
                return _val(model.eval(obj.elem(*[z3.IntVal(i) for i in prefix]), model_completion=True))
            return [rec(prefix + [i], dims[1:]) for i in range(dims[0])]
        return rec([], shape)
    if isinstance(obj, (list, tuple)):
        return [concretise(o, model) for o in obj]
    if isinstance(obj, dict):
        return {k: concretise(v, model) for k, v in obj.items()}
    if hasattr(obj, "__vc_concretise__"):
        return obj.__vc_concretise__(model)
    return obj if isinstance(obj, (int, float, str, bool, type(None))) else repr(obj)


def _val(v):
    if z3.is_int_value(v):
        return v.as_long()
    if z3.is_rational_value(v):
        n, d = v.numerator_as_long(), v.denominator_as_long()
        return n / d
    if z3.is_algebraic_value(v):
        return float(v.approx(20).numerator_as_long()) / float(v.approx(20).denominator_as_long())
    if z3.is_true(v):
        return True
    if z3.is_false(v):
        return False
    return str(v)


def _small_model(ctx, neg):
    """try to get a model with small sizes (replayable witness); verdict never depends on this"""
    if not ctx.size_terms:
        return None
    for bound in (3, 6, 16):
        ctx.solver.push()
        try:
            ctx.solver.set("timeout", 5_000)
            for s in ctx.size_terms:
                ctx.solver.add(s <= bound)
            ctx.solver.add(neg)
            if ctx.solver.check() == z3.sat:
                return ctx.solver.model()
        finally:
            ctx.solver.pop()
    return None


def load_factor():
    """solver budgets are wall-clock: on an oversubscribed machine (several checks at once) they are stretched by the load per
    core, so that a provable obligation does not turn into an alarm because the solver got a fraction of a core"""
    try:
        return max(1.0, min(6.0, os.getloadavg()[0] / (os.cpu_count() or 1)))
    except OSError:
        return 1.0


def discharge(ctx, name, clause, kind="check", detail=""):
    t0 = time.time()
    lf = load_factor()
    neg = z3.Not(clause)
    s = ctx.solver
    # after two obligations of this path could not be proved within the budgets, the remaining ones get the short budgets
    # (a broken function fails many obligations; the verdict of the unit is already decided)
    tired = getattr(ctx, "slow_unproved", 0) >= 2
    fast = bool(ctx.opts.get("fast")) or tired
    want_sample = getattr(ctx, "sample_left", 1) > 0 and kind in ("check", "post", "inv_preserved", "lemma")

    def z3_try(timeout_ms):
        s.push()
        s.set("timeout", int(timeout_ms * lf))
        s.add(neg)
        r_ = s.check()
        m_ = s.model() if r_ == z3.sat else None
        why = s.reason_unknown() if r_ == z3.unknown else ""
        smt = None
        if r_ != z3.unsat or ctx.opts.get("keep_smt2") or want_sample:
            try:
                smt = s.to_smt2()
            except Exception:  # noqa: BLE001
                smt = None
        s.pop()
        s.set("timeout", core.FEAS_TIMEOUT_MS)
        return r_, m_, why, smt

    r, model, reason, smt2 = z3_try(8_000 if fast else 15_000)
    ms = (time.time() - t0) * 1000
    STATS["z3_ms"] += ms
    path = ctx.path()
    if r == z3.unsat:
        if want_sample:
            ctx.sample_left = getattr(ctx, "sample_left", 1) - 1
        return core.Obligation(name, "discharged", ms, "z3", path=path, kind=kind, detail=detail,
                               smt2=smt2 if (ctx.opts.get("keep_smt2") or want_sample) else None)
    if r == z3.sat:
        small = _small_model(ctx, neg)
        m = small or model
        return core.Obligation(name, "refuted", ms, "z3", model=m, path=path, kind=kind, detail=detail, smt2=smt2,
                               witness=_model_witness(ctx, m))
    # z3 says unknown (quantifiers / non-linear arithmetic).
    #  (a) ground instantiation gives a *candidate* counter-model quickly,
    #  (b) cvc5 on the full query may still prove it (then the candidate was an artefact of the weakening),
    #  (c) z3 once more with the long budget.
    cand = stage2(ctx, neg)
    st, cms = cvc5_check(smt2, timeout_s=int((6 if tired else (20 if (fast or cand is not None) else 60)) * lf))
    if st == "unsat":
        return core.Obligation(name, "discharged", ms + cms, "cvc5", path=path, kind=kind,
                               detail=(detail + f" z3:unknown({reason})").strip())
    if cand is not None:
        # the candidate comes from a weakened (ground-instantiated) query: before it is reported, z3 gets a second, longer
        # attempt on the full query so that a busy machine cannot turn a provable obligation into an alarm
        r3, model3, reason3 = (z3.unknown, None, "skipped") if fast else z3_try(30_000)[:3]
        if os.environ.get("VERIF_LOG_REASONS"):
            with open(os.environ["VERIF_LOG_REASONS"], "a") as fh:
                fh.write(f"{name}\t{r3}\tfirst={reason!r}\tsecond={reason3!r}\tms={(time.time() - t0) * 1000:.0f}\n")
        if r3 == z3.unsat:
            return core.Obligation(name, "discharged", (time.time() - t0) * 1000, "z3", path=path, kind=kind,
                                   detail=(detail + " (second attempt)").strip())
        if r3 == z3.sat:
            return core.Obligation(name, "refuted", (time.time() - t0) * 1000, "z3", model=model3, path=path, kind=kind, detail=detail,
                                   smt2=smt2, witness=_model_witness(ctx, model3))
        ctx.slow_unproved = getattr(ctx, "slow_unproved", 0) + 1
        return core.Obligation(name, "refuted-candidate", (time.time() - t0) * 1000, "z3-ground", model=cand,
                               path=path, kind=kind, detail=detail, smt2=smt2, witness=_model_witness(ctx, cand))
    if st == "sat":
        return core.Obligation(name, "refuted", ms + cms, "cvc5", path=path, kind=kind, detail=detail, smt2=smt2)
    r2, model2, reason2, _ = z3_try(core.SOLVER_TIMEOUT_MS if not fast else 20_000)
    tot = (time.time() - t0) * 1000
    if r2 == z3.unsat:
        return core.Obligation(name, "discharged", tot, "z3", path=path, kind=kind, detail=detail)
    if r2 == z3.sat:
        return core.Obligation(name, "refuted", tot, "z3", model=model2, path=path, kind=kind, detail=detail, smt2=smt2,
                               witness=_model_witness(ctx, model2))
    return core.Obligation(name, "unknown", tot, "z3+cvc5", path=path, kind=kind,
                           detail=(detail + f" z3:{reason} cvc5:{st}").strip(), smt2=smt2)


# --------------------------------------------------------------------------------------------------------
# stage 2: skolemise goal, instantiate universally quantified assumptions over the index terms that occur
# --------------------------------------------------------------------------------------------------------

def _index_terms(exprs, limit=40):
    seen, out = set(), []

    def visit(e):
        if e.get_id() in seen:
            return
        seen.add(e.get_id())
        if z3.is_quantifier(e):
            return
        if z3.is_app(e):
            if e.sort().kind() == z3.Z3_INT_SORT and e.num_args() == 0 and not z3.is_int_value(e):
                out.append(e)
            for c in e.children():
                visit(c)
    for e in exprs:
        visit(e)
    return out[:limit]


def _instantiate(q, terms, cap=400):
    n = q.num_vars()
    sorts = [q.var_sort(i) for i in range(n)]
    if any(s.kind() != z3.Z3_INT_SORT for s in sorts):
        return []
    import itertools
    out = []
    for combo in itertools.product(terms, repeat=n):
        out.append(z3.substitute_vars(q.body(), *reversed(combo)))
        if len(out) >= cap:
            break
    return out


def _skolemise(ctx, f):
    """not(forall x. P) -> not P[x := fresh]; descends through And/Or/Not on the negated goal"""
    if z3.is_not(f) and z3.is_quantifier(f.arg(0)) and f.arg(0).is_forall():
        q = f.arg(0)
        fresh = [z3.Const(ctx.fresh_name(f"sk_{q.var_name(i)}"), q.var_sort(i)) for i in range(q.num_vars())]
        return _skolemise(ctx, z3.Not(z3.substitute_vars(q.body(), *reversed(fresh))))
    if z3.is_not(f) and z3.is_and(f.arg(0)):
        return z3.Or([_skolemise(ctx, z3.Not(c)) for c in f.arg(0).children()])
    if z3.is_not(f) and z3.is_implies(f.arg(0)):
        a, b = f.arg(0).children()
        return z3.And(a, _skolemise(ctx, z3.Not(b)))
    return f


def stage2(ctx, neg, rounds=2):
    goal = _skolemise(ctx, neg)
    ground = [a for a in ctx.solver.assertions() if not z3.is_quantifier(a)]
    quants = [a for a in ctx.solver.assertions() if z3.is_quantifier(a) and a.is_forall()]
    if not quants and goal.eq(neg):
        return None
    extra = []
    for _ in range(rounds):
        terms = _index_terms(ground + extra + [goal]) + [z3.IntVal(0)]
        new = []
        for q in quants:
            new.extend(_instantiate(q, terms))
        extra = new
    s = z3.Solver()
    s.set("timeout", 20_000)
    for b in (3, 6, None):
        s.push()
        s.add(ground)
        s.add(extra)
        s.add(goal)
        if b is not None:
            for t in ctx.size_terms:
                s.add(t <= b)
        r = s.check()
        if r == z3.sat:
            m = s.model()
            s.pop()
            return m
        s.pop()
    return None


# --------------------------------------------------------------------------------------------------------
# cvc5
# --------------------------------------------------------------------------------------------------------

def cvc5_check(smt2, timeout_s=60):
    if not smt2:
        return "skipped", 0.0
    t0 = time.time()
    STATS["cvc5_calls"] += 1
    logic_free = smt2
    with tempfile.NamedTemporaryFile("w", suffix=".smt2", delete=False, dir=os.environ.get("TMPDIR", "/tmp")) as f:
        f.write("(set-logic ALL)\n" + logic_free)
        p = f.name
    try:
        out = subprocess.run([CVC5_BIN, "--lang=smt2", f"--tlimit={int(timeout_s * 1000)}", p],
                             capture_output=True, text=True, timeout=timeout_s + 10)
        first = (out.stdout.strip().splitlines() or ["error"])[0].strip()
        st = first if first in ("sat", "unsat", "unknown") else "error"
    except subprocess.TimeoutExpired:
        st = "timeout"
    finally:
        try:
            os.unlink(p)
        except OSError:
            pass
    ms = (time.time() - t0) * 1000
    STATS["cvc5_ms"] += ms
    return st, ms
