"""Units (one function under contract x one enumeration case), registry, parallel runner."""
from __future__ import annotations

import os
import re
import time
import traceback

from . import core, runtime, shadow, solve
from .core import Ctx, Unsupported, EndPath

REGISTRY = {}   # property id -> list[Unit]


class Unit:
    def __init__(self, prop, name, fn, fuc=(), cases=None, doc="", kind="function", tier="quick", trusted=(),
                 inlined=(), expect=None):
        self.prop, self.name, self.fn = prop, name, fn
        self.fuc = tuple(fuc)          # qualified names of the repository functions verified by this unit
        self.cases = cases             # list of dict (finite enumeration, exhaustive) or None
        self.doc, self.kind, self.tier = doc, kind, tier
        self.trusted, self.inlined = tuple(trusted), tuple(inlined)

    def instances(self):
        if not self.cases:
            return [(self.name, {})]
        out = []
        for c in self.cases:
            tag = ",".join(f"{k}={_fmt(v)}" for k, v in c.items())
            out.append((f"{self.name}[{tag}]", c))
        return out


def _fmt(v):
    if isinstance(v, type):
        return v.__name__
    return str(v)


def unit(prop, name, fuc=(), cases=None, kind="function", tier="quick", trusted=(), inlined=()):
    def deco(fn):
        u = Unit(prop, name, fn, fuc=fuc, cases=cases, doc=(fn.__doc__ or "").strip(), kind=kind, tier=tier,
                 trusted=trusted, inlined=inlined)
        REGISTRY.setdefault(prop, []).append(u)
        return fn
    return deco


# -- helpers for unit bodies ---------------------------------------------------------------------------------

class Raised:
    def __init__(self, exc):
        self.exc = exc

    def __repr__(self):
        return f"Raised({type(self.exc).__name__}: {self.exc})"


_SIG_MISMATCH = re.compile(r"got an unexpected keyword argument|positional arguments? but|required (positional|keyword-only) argument|got multiple values for")


_PROXY_NAMES = re.compile(r"\b(SArr|SNum|SBool|SRec|SSeq|SList|SymMap|SymSet|SymDict|SRange|SEnum|Poison|_Unbound)\b")
_OP_FAIL = re.compile(r"unsupported operand type|not supported between instances|object is not (callable|subscriptable|iterable)|"
                      r"object does not support item assignment|cannot be interpreted as an integer|must be .* not ")


class _ProxyOp:
    @staticmethod
    def search(msg):
        return _PROXY_NAMES.search(msg) and _OP_FAIL.search(msg)


_PROXY_OP = _ProxyOp
_SRC_CACHE = {}


def _assigned_in_class_source(cls, name):
    """is `self.<name>` assigned somewhere in the module of the class (or named in its slots / annotations)?"""
    import inspect
    import sys
    if not name:
        return False
    for k in cls.__mro__:
        if name in getattr(k, "__slots__", ()) or name in getattr(k, "__annotations__", {}):
            return True
        mod = sys.modules.get(k.__module__)
        if mod is None or not (k.__module__ or "").startswith(shadow.PKG):
            continue
        if k.__module__ not in _SRC_CACHE:
            try:
                _SRC_CACHE[k.__module__] = inspect.getsource(mod)
            except (OSError, TypeError):
                _SRC_CACHE[k.__module__] = open(mod.__spec__.origin, encoding="utf-8").read() if getattr(mod, "__spec__", None) else ""
        if re.search(rf"\bself\.{re.escape(name)}\s*(:[^=\n]+)?=[^=]", _SRC_CACHE[k.__module__]):
            return True
    return False


def harness_limit(e):
    """An exception that says the *fixture* cannot follow the code - not that the code is wrong: the code reads an attribute a
    sidecar fixture class does not model, or calls a sidecar stub with a signature the stub does not have.  Reported as
    UNDECIDED (the contract has to be extended), never as a violation: an equivalent refactoring may do the same."""
    if isinstance(e, AttributeError):
        obj = getattr(e, "obj", None)
        if isinstance(obj, tuple) and obj and isinstance(obj[0], str) and obj[0].isupper():
            return (f"the opaque stand-in {obj[0]!r} of the fixture does not model the attribute '{getattr(e, 'name', '?')}' the code now uses "
                    f"(the sidecar represents these objects by tokens)")
        if obj is not None:
            cls = obj if isinstance(obj, type) else type(obj)
            if (cls.__module__ or "").split(".")[0] in ("contracts", "pyvc", "bounded") or cls.__name__ == "SimpleNamespace":
                return f"the fixture class {cls.__qualname__} does not model the attribute '{getattr(e, 'name', '?')}' the code now uses"
            if (cls.__module__ or "").startswith(shadow.PKG) and _assigned_in_class_source(cls, getattr(e, "name", None)):
                return (f"the fixture builds {cls.__qualname__} without its constructor and does not provide the attribute '{e.name}' "
                        f"the code now uses (new state needs a contract)")
    if isinstance(e, TypeError):
        # a TypeError that names the type of a fixture object found in the frames of the traceback ("object of type 'X' has no
        # len()", "'X' object is not iterable", ...): the fixture does not model the protocol the code now uses
        names = set(re.findall(r"'([A-Za-z_][A-Za-z_0-9.]*)'", str(e)))
        tb = e.__traceback__
        while tb is not None and names:
            for v in list(tb.tb_frame.f_locals.values()):
                cls = type(v)
                if cls.__name__ in names and (cls.__module__ or "").split(".")[0] in ("contracts", "pyvc", "bounded"):
                    return f"the fixture class {cls.__qualname__} does not model an operation the code now uses: {e}"
            tb = tb.tb_next
    if isinstance(e, TypeError) and _PROXY_OP.search(str(e)):
        return f"an operation on a symbolic proxy is not modelled: {e}"
    if isinstance(e, TypeError) and _SIG_MISMATCH.search(str(e)) and ("<locals>" in str(e) or "<lambda>" in str(e)):
        return f"a sidecar stub is called with a signature it does not have: {e}"
    return None


def call(fn, *a, **k):
    """run the function under verification; repository exceptions become values"""
    try:
        return fn(*a, **k)
    except core.VCSignal:
        raise
    except Exception as e:  # noqa: BLE001
        why = harness_limit(e)
        if why:
            raise Unsupported(why) from e
        return Raised(e)


def fail(ctx, name, detail=""):
    """an obligation that fails on this (feasible) path, e.g. an exception the contract does not allow"""
    return ctx.check(name, False, kind="post", detail=detail)


def expect_no_exception(ctx, result, name):
    if isinstance(result, Raised):
        tb = "".join(traceback.format_exception_only(type(result.exc), result.exc)).strip()
        where = ""
        t = result.exc.__traceback__
        while t is not None:
            fr = t.tb_frame
            if "/src/yaw/" in fr.f_code.co_filename:
                where = f"{fr.f_code.co_filename.split('/src/')[-1]}:{t.tb_lineno}"
            t = t.tb_next
        fail(ctx, f"{name}/no_unexpected_exception", detail=f"{tb} at {where}")
        raise EndPath()
    return result


class use_loops:
    def __init__(self, specs):
        self.specs = specs

    def __enter__(self):
        self.saved = dict(runtime.ACTIVE_LOOPS)
        for k in self.specs:
            if k not in shadow.SITES:
                raise Unsupported(f"loop site {k} does not exist in the current source (loop added/removed/moved)")
        runtime.ACTIVE_LOOPS.update(self.specs)
        return self

    def __exit__(self, *e):
        runtime.ACTIVE_LOOPS.clear()
        runtime.ACTIVE_LOOPS.update(self.saved)
        return False


def find_site(qual, contains):
    """the loop of function `qual` whose iterable / test contains the given source text: robust against loops being added
    or removed before it (the ordinal in the site key changes, the contract stays attached to the same loop)"""
    modname, _, path = qual.partition(":")
    shadow.module(modname)
    hits = [s for s, d in shadow.SITES.items() if d["module"] == modname and d["qualname"] == path and contains in d.get("head", "")]
    if len(hits) != 1:
        raise Unsupported(f"{qual}: {len(hits)} loops match '{contains}' (the loop the contract belongs to was changed)")
    return hits[0]


def loops_of(qual):
    """all loop sites of a function in the current source: used to detect added loops"""
    modname, _, path = qual.partition(":")
    return sorted(s for s, d in shadow.SITES.items() if d["module"] == modname and d["qualname"] == path)


# -- running ---------------------------------------------------------------------------------------------

def run_instance(args):
    prop, uname, iname, case, opts = args
    t0 = time.time()
    units = {u.name: u for u in REGISTRY[prop]}
    u = units[uname]

    def body(ctx):
        u.fn(ctx, **case) if case else u.fn(ctx)

    import signal
    budget = int(os.environ.get("VERIF_UNIT_BUDGET_S", "900" if opts.get("tier") == "thorough" else "420"))
    budget = int(budget * solve.load_factor())      # wall-clock budget on a busy machine

    class _Budget(BaseException):
        pass

    def on_alarm(*_a):
        raise _Budget()
    old = signal.signal(signal.SIGALRM, on_alarm)
    signal.alarm(budget)
    try:
        res = core.explore(body, iname, opts=opts)
    except _Budget:
        res = core.UnitResult(iname)
        res.error = ("unsupported", f"unit exceeded its time budget of {budget} s (undecided, not a violation)")
    except Exception:  # noqa: BLE001
        res = core.UnitResult(iname)
        res.error = ("crash", traceback.format_exc(limit=10))
    finally:
        signal.alarm(0)
        signal.signal(signal.SIGALRM, old)
    out = {
        "unit": uname, "instance": iname, "case": {k: _fmt(v) for k, v in (case or {}).items()},
        "paths": res.paths, "wall_s": round(time.time() - t0, 3), "error": res.error,
        "trusted": sorted(res.trusted), "assumption_origins": dict(res.assumption_origins),
        "obligations": [],
    }
    for ob in res.obligations:
        d = ob.to_json()
        if ob.status not in ("discharged", "covered", "canary-ok"):
            d["smt2"] = ob.smt2
        elif ob.smt2:
            d["smt2"] = ob.smt2[-2500:]
        out["obligations"].append(d)
    out["solver"] = dict(solve.STATS)
    return out


def run_property(prop, opts, jobs=None, only=None, instances=None):
    import multiprocessing as mp
    tasks = []
    for u in REGISTRY.get(prop, []):
        if u.tier == "thorough" and opts.get("tier") != "thorough":
            continue
        if only and only not in u.name:
            continue
        for iname, case in u.instances():
            if instances is not None and iname not in instances:
                continue
            tasks.append((prop, u.name, iname, case, opts))
    jobs = jobs or min(len(tasks), int(os.environ.get("VERIF_JOBS", "16"))) or 1
    if jobs <= 1 or len(tasks) <= 1:
        return [run_instance(t) for t in tasks]
    ctxm = mp.get_context("fork")
    with ctxm.Pool(jobs, maxtasksperchild=8) as pool:
        return pool.map(run_instance, tasks, chunksize=1)
