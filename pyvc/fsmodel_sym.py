"""placeholder: symbolic paths (filled in with the FS model)"""
class SymPath:  # replaced below when the FS model is built
    pass
