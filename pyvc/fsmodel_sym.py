"""Symbolic file system (DESIGN §5.5).

State: path (concrete string) -> Dir | File(parts).  File contents are *abstract*: a list of parts
    ("byte", value)        one byte written with file.write(int.to_bytes(...))   value: python int / SNum / SBool
    ("bytes", tag, obj)    an opaque byte string standing for `obj` (e.g. DataChunkInfo.to_bytes())
    ("arr", array)         ndarray.tofile(f) of an array proxy (or concrete numpy array)
    ("pickle", obj)        pickle.dump(obj, f)
    ("text", s)            text written through a text-mode file (s may be a yaml document proxy)
    ("partial", part)      a strict prefix of `part` (a writer that died in the middle; only produced by crash states)
A file that is open for writing accumulates `pending` parts in the python-level buffer; they reach the OS at
flush()/close(), or immediately for ndarray.tofile (numpy flushes the buffer first and writes through the descriptor).

Every operation that changes the OS-visible state is appended to `effects` and followed by a call of the crash hook
(if installed): the hook receives a *snapshot of the OS-visible state* and decides the crash obligation.
Effect granularity (= the property's "between two file-system operations"): create/truncate, each write that reaches
the OS, mkdir, unlink, rmdir, rename.  rmtree(d) is expanded into unlink/rmdir effects, children before parents, in
an arbitrary but fixed order.
"""
from __future__ import annotations

import copy
import posixpath

from .core import Ctx, SNum, SBool, Unsupported, is_sym


class Dir:
    def __repr__(self):
        return "Dir"


class File:
    def __init__(self, parts=None):
        self.parts = list(parts or [])

    def copy(self):
        return File(list(self.parts))

    def __repr__(self):
        return f"File({[p[0] for p in self.parts]})"


DIR = Dir()


class SymFS:
    def __init__(self, ctx):
        self.ctx = ctx
        self.nodes = {"/": DIR}
        self.effects = []
        self.crash_hook = None
        self.open_files = []
        self.reads = []

    # -- state --------------------------------------------------------------------------------------------
    def snapshot(self):
        """OS-visible state (pending buffers of open writers are *not* part of it)"""
        return {p: (n if n is DIR else n.copy()) for p, n in self.nodes.items()}

    def put_dir(self, path):
        path = norm(path)
        parts = path.strip("/").split("/")
        cur = ""
        for p in parts:
            cur += "/" + p
            self.nodes.setdefault(cur, DIR)

    def put_file(self, path, parts):
        path = norm(path)
        self.put_dir(posixpath.dirname(path))
        self.nodes[path] = File(parts)

    def exists(self, path):
        return norm(path) in self.nodes

    def is_dir(self, path):
        return self.nodes.get(norm(path)) is DIR

    def children(self, path):
        path = norm(path)
        pre = path.rstrip("/") + "/"
        return sorted(p for p in self.nodes if p.startswith(pre) and "/" not in p[len(pre):])

    def _effect(self, kind, path, detail=None):
        self.effects.append((kind, path, detail))
        if self.crash_hook is not None:
            self.crash_hook(self, len(self.effects), (kind, path, detail))

    # -- operations ---------------------------------------------------------------------------------------
    def _lookup_parent(self, path):
        """POSIX path resolution of the directory part: the first ancestor that is missing gives ENOENT, one that is a regular file
        gives ENOTDIR"""
        cur = ""
        for comp in posixpath.dirname(path).strip("/").split("/"):
            if not comp:
                continue
            cur += "/" + comp
            n = self.nodes.get(cur)
            if n is None:
                raise FileNotFoundError(cur)
            if n is not DIR:
                raise NotADirectoryError(cur)

    def mkdir(self, path, parents=False, exist_ok=False):
        path = norm(path)
        if path in self.nodes:
            if exist_ok and self.nodes[path] is DIR:
                return
            raise FileExistsError(path)
        parent = posixpath.dirname(path)
        try:
            self._lookup_parent(path)
        except FileNotFoundError:
            if not parents:
                raise
            self.mkdir(parent, parents=True, exist_ok=True)
        self.nodes[path] = DIR
        self._effect("mkdir", path)

    def unlink(self, path):
        path = norm(path)
        self._lookup_parent(path)
        if path not in self.nodes:
            raise FileNotFoundError(path)
        if self.nodes[path] is DIR:
            raise IsADirectoryError(path)
        del self.nodes[path]
        self._effect("unlink", path)

    def rmdir(self, path):
        path = norm(path)
        if self.children(path):
            raise OSError("directory not empty: " + path)
        del self.nodes[path]
        self._effect("rmdir", path)

    def rename(self, src, dst):
        """os.replace: atomic on POSIX - one effect"""
        src, dst = norm(src), norm(dst)
        self._lookup_parent(src)
        self._lookup_parent(dst)
        if src not in self.nodes:
            raise FileNotFoundError(src)
        if src == dst:
            return
        if (dst + "/").startswith(src + "/"):
            raise OSError("cannot move a directory into itself: " + src)    # EINVAL
        if (src + "/").startswith(dst + "/"):
            raise OSError("directory not empty: " + dst)                    # ENOTEMPTY: the target is an ancestor of the source
        s, d = self.nodes[src], self.nodes.get(dst)
        if s is DIR:
            if d is not None and d is not DIR:
                raise NotADirectoryError(dst)
            if d is DIR and self.children(dst):
                raise OSError("directory not empty: " + dst)
        elif d is DIR:
            raise IsADirectoryError(dst)
        moved = [p for p in self.nodes if p == src or p.startswith(src + "/")]
        for p in moved:
            self.nodes[dst + p[len(src):]] = self.nodes.pop(p)
        self._effect("rename", dst, src)

    def rmtree(self, path):
        path = norm(str(path))
        self._lookup_parent(path)
        if path not in self.nodes:
            raise FileNotFoundError(path)
        if self.nodes[path] is not DIR:
            raise NotADirectoryError(path)
        for c in self.children(path):
            if self.nodes[c] is DIR:
                self.rmtree(c)
            else:
                self.unlink(c)
        self.rmdir(path)

    def open(self, path, mode="r"):
        path = norm(str(path))
        binary = "b" in mode
        if "r" in mode and "+" not in mode:
            self._lookup_parent(path)
            n = self.nodes.get(path)
            if n is None:
                raise FileNotFoundError(path)
            if n is DIR:
                raise IsADirectoryError(path)
            self.reads.append(path)
            return SymFile(self, path, mode, list(n.parts))
        self._lookup_parent(path)
        if "x" in mode and path in self.nodes:
            raise FileExistsError(path)         # O_EXCL is checked before the type of the node
        if self.nodes.get(path) is DIR:
            raise IsADirectoryError(path)
        if "w" in mode:
            existed = path in self.nodes
            self.nodes[path] = File([])
            self._effect("truncate" if existed else "create", path)
        elif "a" in mode:
            if path not in self.nodes:
                self.nodes[path] = File([])
                self._effect("create", path)
        elif "x" in mode:
            if path in self.nodes:
                raise FileExistsError(path)
            self.nodes[path] = File([])
            self._effect("create", path)
        f = SymFile(self, path, mode, None)
        self.open_files.append(f)
        return f

    # -- numpy / pickle / yaml hooks ------------------------------------------------------------------------------
    def tofile(self, arr, f):
        if isinstance(f, (str, SymPath)):
            with self.open(str(f), "wb") as g:
                g._os_write(("arr", arr))
            return
        f.flush()
        f._os_write(("arr", arr))

    def fromfile(self, f, dtype):
        if isinstance(f, (str, SymPath)):
            f = self.open(str(f), "rb")
        return f.read_array(dtype)

    def pickle_dump(self, obj, f):
        f.write_part(("pickle", obj))

    def pickle_load(self, f):
        return f.read_pickle()

    def yaml_load(self, f):
        return f.read_yaml()

    def loadtxt(self, path):
        raise Unsupported("np.loadtxt on the symbolic file system")


def norm(p):
    p = posixpath.normpath(str(p))
    return p


class SymFile:
    vc_file = True

    def __init__(self, fs, path, mode, read_parts):
        self.fs, self.path, self.mode = fs, path, mode
        self.pending = []
        self.read_parts = read_parts
        self.pos = 0
        self.closed = False

    # -- writing
    def _os_write(self, part):
        n = self.fs.nodes.get(self.path)
        if n is None or n is DIR:
            raise Unsupported("write to a file that was removed while open")
        n.parts.append(part)
        self.fs._effect("write", self.path, part[0])

    def write_part(self, part):
        if self.read_parts is not None:
            raise OSError("file not open for writing")
        self.pending.append(part)

    def write(self, data):
        if hasattr(data, "vc_bytes_part"):
            self.write_part(data.vc_bytes_part())
        elif isinstance(data, (bytes, bytearray)):
            if len(data) == 1:
                self.write_part(("byte", data[0]))
            else:
                self.write_part(("bytes", "raw", bytes(data)))
        elif isinstance(data, str):
            self.write_part(("text", data))
        else:
            raise Unsupported(f"write of {type(data).__name__}")
        return 1

    def flush(self):
        pend, self.pending = self.pending, []
        for p in pend:
            self._os_write(p)

    def close(self):
        if self.closed:
            return
        if self.read_parts is None:
            self.flush()
        self.closed = True
        if self in self.fs.open_files:
            self.fs.open_files.remove(self)

    def __enter__(self):
        return self

    def __exit__(self, *a):
        self.close()
        return False

    # -- reading
    def _next(self):
        if self.read_parts is None:
            raise OSError("file not open for reading")
        if self.pos >= len(self.read_parts):
            return None
        p = self.read_parts[self.pos]
        self.pos += 1
        return p

    def read(self, n=-1):
        if n == 1:
            p = self._next()
            if p is None:
                return ByteVal(None)          # b"" at end of file
            if p[0] == "byte":
                return ByteVal(p[1])
            if p[0] == "bytes":
                return ByteVal(p[2], tag=p[1])
            if p[0] == "partial":
                return ByteVal(None, partial=True)
            raise Unsupported(f"read(1) hits a '{p[0]}' part")
        raise Unsupported("read(n) with n != 1 on the symbolic file system")

    def readline(self):
        raise Unsupported("readline on the symbolic file system")

    def read_array(self, dtype):
        """np.fromfile(f): the rest of the file interpreted as an array"""
        import numpy as np
        rest = self.read_parts[self.pos:]
        self.pos = len(self.read_parts)
        if not rest:
            return np.empty(0, dtype=dtype)
        if len(rest) == 1 and rest[0][0] == "arr":
            return rest[0][1]
        if all(p[0] == "arr" for p in rest):
            from . import npshim
            return npshim.concatenate([p[1] for p in rest])
        if any(p[0] == "partial" for p in rest):
            return PartialArray(rest)
        raise Unsupported(f"np.fromfile over parts {[p[0] for p in rest]}")

    def read_pickle(self):
        p = self._next()
        if p is None:
            raise EOFError("Ran out of input")
        if p[0] == "pickle":
            return p[1]
        if p[0] == "partial":
            import pickle
            Ctx.cur.trust("pickle: loading a strict prefix of a pickle raises")
            raise pickle.UnpicklingError("pickle data was truncated")
        import pickle
        raise pickle.UnpicklingError(f"invalid load key ({p[0]})")

    def read_yaml(self):
        p = self._next()
        if p is None:
            return None                      # yaml.safe_load of an empty file
        if p[0] == "text":
            doc = p[1]
            if hasattr(doc, "obj"):
                return _yaml_roundtrip(doc.obj)
            import yaml as _yaml
            return _yaml.safe_load(doc)
        if p[0] == "partial":
            return TruncatedYaml(p[1])
        raise Unsupported(f"yaml.safe_load hits a '{p[0]}' part")


def _yaml_roundtrip(obj):
    """ASSUMED: yaml.safe_load(safe_dump_all([obj])) == obj for native python data (fresh copies of containers)"""
    Ctx.cur.trust("PyYAML: safe_load(safe_dump_all([obj])) == obj for dict/list/str/int/float/None")
    return copy.copy(obj) if isinstance(obj, dict) else obj


class TruncatedYaml:
    """result of parsing a truncated YAML document: *anything* (a truncated document may still parse) - every use
    is a fork point the crash obligations must survive; modelled as an opaque value that is not a dict"""

    def __init__(self, part):
        self.part = part


class PartialArray:
    def __init__(self, parts):
        self.parts = parts


class ByteVal:
    """one byte read from a file"""

    def __init__(self, value, tag=None, partial=False):
        self.value, self.tag, self.partial = value, tag, partial

    def vc_int_from_bytes(self, byteorder):
        if self.partial:
            raise Unsupported("header byte of a partially written file")
        if self.value is None:
            return 0                         # int.from_bytes(b"") == 0
        if self.tag is not None:
            raise Unsupported("int.from_bytes of an opaque byte string")
        v = self.value
        if isinstance(v, SBool):
            from .core import to_term
            return SNum(to_term(v))
        return v


class BytePart:
    """int.to_bytes(1) of a (possibly symbolic) small integer"""

    def __init__(self, value):
        self.value = value

    def vc_bytes_part(self):
        return ("byte", self.value)


class SymPath:
    """pathlib.Path over the symbolic file system (only what the repository uses)"""

    def __init__(self, *parts):
        self._p = norm(posixpath.join(*[str(p) for p in parts])) if parts else "."

    def __truediv__(self, other):
        return SymPath(self._p, str(other))

    def __str__(self):
        return self._p

    def __fspath__(self):
        return self._p

    def __repr__(self):
        return f"SymPath({self._p!r})"

    def __eq__(self, o):
        return isinstance(o, SymPath) and o._p == self._p

    def __hash__(self):
        return hash(self._p)

    @property
    def name(self):
        return posixpath.basename(self._p)

    @property
    def suffix(self):
        return posixpath.splitext(self._p)[1]

    @property
    def parent(self):
        return SymPath(posixpath.dirname(self._p))

    def with_suffix(self, suffix):
        return SymPath(posixpath.splitext(self._p)[0] + suffix)

    def _fs(self):
        fs = Ctx.cur.ghost.get("fs")
        if fs is None:
            raise Unsupported("symbolic path used without a symbolic file system")
        return fs

    def exists(self):
        return self._fs().exists(self._p)

    def is_dir(self):
        return self._fs().is_dir(self._p)

    def mkdir(self, mode=0o777, parents=False, exist_ok=False):
        return self._fs().mkdir(self._p, parents=parents, exist_ok=exist_ok)

    def open(self, mode="r", *a, **k):
        return self._fs().open(self._p, mode)

    def unlink(self, missing_ok=False):
        try:
            return self._fs().unlink(self._p)
        except FileNotFoundError:
            if not missing_ok:
                raise

    def iterdir(self):
        # a generator, as in pathlib of Python 3.12: a missing directory shows at the first step of the iteration
        fs = self._fs()
        fs._lookup_parent(norm(self._p))
        n = fs.nodes.get(norm(self._p))
        if n is None:
            raise FileNotFoundError(self._p)
        if n is not DIR:
            raise NotADirectoryError(self._p)
        for c in fs.children(self._p):
            yield SymPath(c)

    def replace(self, target):
        self._fs().rename(self._p, str(target))
        return SymPath(str(target))

    rename = replace
