"""Containers with symbolic keys / members."""
from __future__ import annotations

import z3

from . import core
from .core import SNum, SBool, Ctx, Unsupported, is_sym, to_term, tob
from .arrays import SArr, bv, dim_term, in_range


def _symkey(k):
    return is_sym(k) and core.const_value(k.t) is None


def _norm(k):
    if is_sym(k):
        c = core.const_value(k.t)
        if c is not None:
            return c
    return k


class SymDict(dict):
    """dict that also accepts finitely many symbolic integer keys (association list, resolved by branching)"""

    def __init__(self, *a, **k):
        super().__init__(*a, **k)
        self.sym = []  # list of (key, value) in write order; key may be concrete once a symbolic write exists

    # -- helpers
    def _lookup(self, k):
        """returns (found, value); forks on key equalities"""
        k = _norm(k)
        for wk, wv in reversed(self.sym):
            if wv is _DELETED:
                if _eq(k, wk):
                    return False, None
                continue
            if _eq(k, wk):
                return True, wv
        if _symkey(k):
            for ck in list(dict.keys(self)):
                if isinstance(ck, (int,)) and not isinstance(ck, bool) and _eq(k, ck):
                    return True, dict.__getitem__(self, ck)
            return False, None
        if dict.__contains__(self, k):
            return True, dict.__getitem__(self, k)
        return False, None

    def __getitem__(self, k):
        if not self.sym and not _symkey(k):
            return dict.__getitem__(self, _norm(k))
        ok, v = self._lookup(k)
        if not ok:
            raise KeyError(k)
        return v

    def get(self, k, default=None):
        if not self.sym and not _symkey(k):
            return dict.get(self, _norm(k), default)
        ok, v = self._lookup(k)
        return v if ok else default

    def __contains__(self, k):
        if not self.sym and not _symkey(k):
            return dict.__contains__(self, _norm(k))
        ok, _ = self._lookup(k)
        return ok

    def __setitem__(self, k, v):
        k = _norm(k)
        if _symkey(k) or self.sym:
            self.sym.append((k, v))
        else:
            dict.__setitem__(self, k, v)

    def __delitem__(self, k):
        k = _norm(k)
        if _symkey(k) or self.sym:
            ok, _ = self._lookup(k)
            if not ok:
                raise KeyError(k)
            self.sym.append((k, _DELETED))
        else:
            dict.__delitem__(self, k)

    def pop(self, k, *default):
        k = _norm(k)
        if not self.sym and not _symkey(k):
            return dict.pop(self, k, *default)
        ok, v = self._lookup(k)
        if not ok:
            if default:
                return default[0]
            raise KeyError(k)
        self.sym.append((k, _DELETED))
        return v

    def _concrete_only(self, what):
        if self.sym:
            raise Unsupported(f"dict.{what}() on a dict with symbolic keys (needs a loop contract)")

    def keys(self):
        self._concrete_only("keys")
        return dict.keys(self)

    def values(self):
        self._concrete_only("values")
        return dict.values(self)

    def items(self):
        self._concrete_only("items")
        return dict.items(self)

    def __iter__(self):
        self._concrete_only("__iter__")
        return dict.__iter__(self)

    def __len__(self):
        self._concrete_only("__len__")
        return dict.__len__(self)

    def update(self, *a, **k):
        for kk, vv in dict(*a, **k).items():
            self[kk] = vv

    def copy(self):
        d = SymDict(dict.copy(self))
        d.sym = list(self.sym)
        return d


class _Deleted:
    def __repr__(self):
        return "<deleted>"


_DELETED = _Deleted()


def _eq(a, b):
    if is_sym(a) or is_sym(b):
        try:
            return bool(SBool(to_term(a) == to_term(b)))
        except Unsupported:
            return False
    return a == b


class Compressed:
    """itertools.compress(data, selectors) with symbolic operands; only consumed by set()/list()"""

    def __init__(self, data, selectors):
        self.data, self.selectors = data, selectors


class SymSet:
    """finite set of integers given by a membership predicate (python closure: z3 Int term -> z3 Bool term)"""

    def __init__(self, mem, origin=None):
        self.mem = mem
        self.origin = origin

    @classmethod
    def empty(cls):
        return cls(lambda k: z3.BoolVal(False))

    @classmethod
    def from_iterable(cls, x):
        from .builtins_shim import item_of, SymIterable
        if isinstance(x, Compressed):
            data, sel = x.data, x.selectors
            from .builtins_shim import indexable, vc_len
            data = indexable(data)
            n = vc_len(data)
            if not isinstance(sel, SArr):
                raise Unsupported("compress selectors")

            def mem(k):
                t = bv("c")
                return z3.Exists([t], z3.And(in_range(t, n), sel._elem(t), to_term(item_of(data, SNum(t))) == k))
            s = cls(mem, origin=("compress", data, sel))
            return s
        from .builtins_shim import vc_len
        n = vc_len(x)

        def mem(k):
            t = bv("c")
            return z3.Exists([t], z3.And(in_range(t, n), to_term(item_of(x, SNum(t))) == k))
        return cls(mem, origin=("iterable", x))

    def contains(self, k):
        return SBool(self.mem(to_term(k)))

    def __contains__(self, k):
        return bool(self.contains(k))

    def add(self, k):
        old, kt = self.mem, to_term(k)
        self.mem = lambda x: z3.Or(x == kt, old(x))

    def discard(self, k):
        old, kt = self.mem, to_term(k)
        self.mem = lambda x: z3.And(x != kt, old(x))

    def remove(self, k):
        if not self.__contains__(k):
            raise KeyError(k)
        self.discard(k)

    def pop(self):
        ctx = Ctx.cur
        k = ctx.fresh_int("popped")
        # non-empty?
        e = bv("e")
        if not ctx.branch(z3.Exists([e], self.mem(e))):
            raise KeyError("pop from an empty set")
        ctx.assume(self.mem(k.t), "python:set.pop returns a member")
        self.discard(k)
        return k

    def copy(self):
        return SymSet(self.mem, self.origin)

    vc_deepcopy = copy

    def __iter__(self):
        raise Unsupported("iteration over a symbolic set")

    def __len__(self):
        raise Unsupported("len() of a symbolic set")

    def __eq__(self, o):
        if isinstance(o, SymSet):
            e = bv("e")
            return SBool(z3.ForAll([e], self.mem(e) == o.mem(e)))
        return NotImplemented

    def __ne__(self, o):
        r = self.__eq__(o)
        return r if r is NotImplemented else ~r

    __hash__ = None
