"""Symbolic file system (DESIGN §5.5) - first version: pass-through to the real pathlib when no symbolic FS is
active on the current path; extended in fs2 (see fsmodel_sym)."""
from __future__ import annotations

import builtins
import pathlib
import shutil

from .core import Ctx, Unsupported


def _fs():
    c = Ctx.cur
    return None if c is None else c.ghost.get("fs")


class _PathMeta(type):
    def __instancecheck__(cls, inst):
        from . import fsmodel_sym
        return isinstance(inst, (pathlib.PurePath, fsmodel_sym.SymPath))

    def __call__(cls, *a, **k):
        fs = _fs()
        if fs is not None:
            from . import fsmodel_sym
            return fsmodel_sym.SymPath(*a)
        return pathlib.Path(*a, **k)


class Path(metaclass=_PathMeta):
    pass


def rmtree(p, *a, **k):
    fs = _fs()
    if fs is not None:
        return fs.rmtree(p)
    return shutil.rmtree(p, *a, **k)


def vc_open(path, mode="r", *a, **k):
    fs = _fs()
    if fs is not None:
        return fs.open(path, mode)
    return builtins.open(path, mode, *a, **k)


def array_tofile(arr, f):
    fs = _fs()
    if fs is None:
        raise Unsupported("ndarray.tofile of a symbolic array without a symbolic file system")
    return fs.tofile(arr, f)


def np_fromfile(f, dtype=float, **k):
    fs = _fs()
    if fs is None:
        import numpy as np
        return np.fromfile(f, dtype=dtype, **k)
    return fs.fromfile(f, dtype)


def np_loadtxt(path, **k):
    fs = _fs()
    if fs is None:
        import numpy as np
        return np.loadtxt(path, **k)
    return fs.loadtxt(path)
