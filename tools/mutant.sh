#!/bin/sh
# usage: tools/mutant.sh <patch.diff> <Cxx> [check args...]
# Applies a patch to a scratch worktree of /repo (outside /repo and /verif), runs the check against it with
# VERIF_REPO, prints the result and removes the worktree.  Evidence/replays of the run go to a scratch dir too.
set -u
patch="$(realpath "$1")"; prop="$2"; shift 2
here="$(cd "$(dirname "$0")/.." && pwd)"
d="$(mktemp -d /tmp/yawmut.XXXXXX)"; out="$(mktemp -d /tmp/yawmutout.XXXXXX)"
git -C /repo worktree add --detach -q "$d/wt" HEAD || exit 3
cp /repo/src/yaw/_version.py "$d/wt/src/yaw/_version.py" 2>/dev/null
if ! git -C "$d/wt" apply "$patch"; then echo "PATCH-DOES-NOT-APPLY"; git -C /repo worktree remove --force "$d/wt"; rm -rf "$d" "$out"; exit 3; fi
(cd "$here" && VERIF_REPO="$d/wt" VERIF_OUT="$out" ./check "$prop" "$@")
rc=$?
if [ -n "${KEEP_REPLAY:-}" ]; then find "$out/replays" -name '*.json' | head -3 | xargs -r cat | head -80; fi
git -C /repo worktree remove --force "$d/wt"; rm -rf "$d" "$out"
echo "mutant-exit=$rc"
exit $rc
