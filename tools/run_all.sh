#!/bin/sh
# runs the quick command of every claimed check on the unchanged tree; prints one line each
cd "$(dirname "$0")/.."
rc=0
for p in $(.venv/bin/python -c "import json;print(' '.join(c['property_id'] for c in json.load(open('MANIFEST.json'))['checks']))"); do
  out=$(./check $p --tier "${1:-quick}" 2>&1); e=$?
  echo "$out" | tail -1 | sed "s/^/exit=$e /"
  echo "$out" | grep -E "^(VIOLATION|UNDECIDED|CHECKER-ERROR)" | head -3
  [ $e -ne 0 ] && rc=1
done
.venv/bin/python tools_validate.py >/dev/null || { echo "EVIDENCE INVALID"; rc=1; }
.venv/bin/python tools/conformance.py --cases 6 | tail -1 | grep -q "CONFORMANCE ok" || { echo "NUMPY CONTRACT CONFORMANCE FAILED"; rc=1; }
.venv/bin/python tools/fs_conformance.py --runs 300 | tail -1 | grep -q "FS-CONFORMANCE ok" || { echo "FILE-SYSTEM MODEL CONFORMANCE FAILED"; rc=1; }
exit $rc
