#!/usr/bin/env python3
"""tools/mkmut.py <name> <relpath> <<< JSON {"old":..., "new":...}  -> writes /tmp/m/<name>.diff against /repo"""
import sys, json, difflib, os
name, path = sys.argv[1], sys.argv[2]
d = json.load(sys.stdin)
src = open('/repo/'+path).read()
assert src.count(d["old"]) == d.get("count", 1), (name, src.count(d["old"]))
new = src.replace(d["old"], d["new"])
os.makedirs('/tmp/m', exist_ok=True)
open(f'/tmp/m/{name}.diff','w').write(''.join(difflib.unified_diff(src.splitlines(True), new.splitlines(True), 'a/'+path, 'b/'+path)))
