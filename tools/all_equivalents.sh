#!/bin/sh
# runs every kept behaviour-preserving refactoring (equivalent/<id>/patch.diff, written by sub-agents that saw only the property
# text) against the check of its property: exit 0 (verified) or 2 (undecided: the contract has to be extended) are acceptable,
# exit 1 is a false alarm.  One line per refactoring; the script exits 1 if there is a false alarm.
cd "$(dirname "$0")/.."
ls -d equivalent/*/ | xargs -P 8 -I{} sh -c 'd={}; id=$(basename $d); p=${id%-*}; r=$(tools/mutant.sh $d/patch.diff $p 2>&1 | grep -o "mutant-exit=[0-9]*"); echo "$id $r"' | sort > /tmp/all_equivalents.$$
cat /tmp/all_equivalents.$$
if grep -q "exit=1" /tmp/all_equivalents.$$; then rm -f /tmp/all_equivalents.$$; exit 1; fi
rm -f /tmp/all_equivalents.$$
