#!/usr/bin/env python3
"""Conformance of the ASSUMED numpy contracts (pyvc/npshim.py, pyvc/arrays.py) with the real numpy.

For every contract and a few hundred random small inputs: the inputs are given to the contract as *symbolic* arrays (symbolic
length, uninterpreted element function) constrained to the concrete values; then
   sound:  path condition + contract axioms + (result == what real numpy returns)  must be satisfiable
           (unsat: the contract contradicts numpy - every proof that used it is void)
   tight:  path condition + contract axioms + (result != what real numpy returns)  should be unsatisfiable
           (sat: the contract is weaker than numpy - only reported, proofs stay valid)
Integer-valued data keeps floating-point arithmetic exact.  Exit 0 iff no contract is unsound.
usage: tools/conformance.py [--cases N] [-v]"""
import argparse
import os
import sys
from fractions import Fraction

HERE = os.path.dirname(os.path.dirname(os.path.abspath(__file__)))
sys.path.insert(0, HERE)
sys.path.insert(0, os.path.join(os.environ.get("VERIF_REPO", "/repo"), "src"))

import numpy as np  # noqa: E402
import z3  # noqa: E402

from pyvc import core, npshim  # noqa: E402
from pyvc.arrays import SArr  # noqa: E402
from pyvc.core import SNum, SBool, to_term  # noqa: E402


def val(x):
    if isinstance(x, (bool, np.bool_)):
        return z3.BoolVal(bool(x))
    if isinstance(x, (int, np.integer)):
        return z3.IntVal(int(x))
    f = Fraction(float(x))
    return z3.RealVal(f"{f.numerator}/{f.denominator}")


def sym(ctx, x, hint="a"):
    """symbolic array with symbolic shape, constrained to the concrete array x"""
    x = np.asarray(x)
    kind = "b" if x.dtype == bool else ("i" if np.issubdtype(x.dtype, np.integer) else "f")
    dims = [ctx.fresh_int(f"{hint}_n{k}", lo=0) for k in range(x.ndim)]
    for d, n in zip(dims, x.shape):
        ctx.assume(d.t == n, "conformance:shape")
    a = SArr.fresh(ctx, hint, tuple(dims), kind)
    for idx in np.ndindex(*x.shape):
        e = a._elem(*[z3.IntVal(int(i)) for i in idx])
        ctx.assume(e == (val(x[idx]) if kind != "f" else z3.ToReal(val(x[idx])) if z3.is_int(val(x[idx])) else val(x[idx])), "conformance:value")
    a.dtype_name = x.dtype.name
    return a


def equal_clause(res, want):
    """clause: symbolic result == concrete numpy result (list of conjuncts)"""
    if isinstance(res, (tuple, list)) and isinstance(want, (tuple, list)):
        cs = [z3.BoolVal(len(res) == len(want))]
        for r, w in zip(res, want):
            cs += equal_clause(r, w)
        return cs
    want = np.asarray(want)
    if isinstance(res, SArr):
        cs = [z3.BoolVal(res.ndim == want.ndim)]
        if res.ndim != want.ndim:
            return cs
        cs += [to_term(d) == n for d, n in zip(res.shape, want.shape)]
        for idx in np.ndindex(*want.shape):
            e = res._elem(*[z3.IntVal(int(i)) for i in idx])
            v = val(want[idx])
            if z3.is_bool(e) != z3.is_bool(v):
                v = z3.BoolVal(bool(want[idx])) if z3.is_bool(e) else v
            cs.append(e == (z3.ToReal(v) if (z3.is_real(e) and z3.is_int(v)) else v))
        return cs
    if isinstance(res, (SNum, SBool)):
        e = to_term(res) if isinstance(res, SNum) else res.t
        v = val(want[()] if want.shape == () else want.item())
        return [e == (z3.ToReal(v) if (z3.is_real(e) and z3.is_int(v)) else v)]
    return [z3.BoolVal(bool(np.array_equal(np.asarray(res), want)))]


RNG = np.random.default_rng(20260904)


def ints(n, lo=-4, hi=5):
    return RNG.integers(lo, hi, n).astype(float)


CASES = []


def case(name):
    def deco(fn):
        CASES.append((name, fn))
        return fn
    return deco


@case("digitize(x, bins, right)")
def _(ctx):
    bins = np.unique(ints(RNG.integers(1, 5)))
    x = np.concatenate([ints(RNG.integers(0, 5)), bins[:2]])
    right = bool(RNG.integers(0, 2))
    return npshim.digitize(sym(ctx, x, "x"), sym(ctx, bins, "bins"), right=right), np.digitize(x, bins, right=right)


@case("argmin")
def _(ctx):
    x = ints(RNG.integers(1, 6))
    return npshim.argmin(sym(ctx, x)), np.argmin(x)


@case("min / max")
def _(ctx):
    x = ints(RNG.integers(1, 6))
    a = sym(ctx, x)
    return (npshim.amin(a), npshim.amax(a)), (np.min(x), np.max(x))


@case("sum (all axes / axis)")
def _(ctx):
    x = ints(12).reshape(3, 4)
    a = sym(ctx, x)
    ax = int(RNG.integers(0, 2))
    return (npshim.sum(a), npshim.sum(a, axis=ax)), (x.sum(), x.sum(axis=ax))


@case("einsum bij->b / bij->jb / bij->ib / bii->ib / bi,bj->bij")
def _(ctx):
    x = ints(18).reshape(2, 3, 3)
    a = sym(ctx, x)
    u, v = ints(6).reshape(2, 3), ints(4).reshape(2, 2)
    return ([npshim.einsum(s, a) for s in ("bij->b", "bij->jb", "bij->ib", "bii->ib")] + [npshim.einsum("bi,bj->bij", sym(ctx, u, "u"), sym(ctx, v, "v"))],
            [np.einsum(s, x) for s in ("bij->b", "bij->jb", "bij->ib", "bii->ib")] + [np.einsum("bi,bj->bij", u, v)])


@case("tile(a, r).reshape((r, -1))")
def _(ctx):
    x, r = ints(RNG.integers(1, 4)), int(RNG.integers(1, 4))
    return npshim.tile(sym(ctx, x), r).reshape((r, -1)), np.tile(x, r).reshape((r, -1))


@case("tile(a, (r, 1))")
def _(ctx):
    x, r = ints(RNG.integers(1, 4)), int(RNG.integers(1, 4))
    return npshim.tile(sym(ctx, x), (r, 1)), np.tile(x, (r, 1))


@case("repeat(a, r)")
def _(ctx):
    x, r = ints(RNG.integers(1, 4)), int(RNG.integers(1, 4))
    return npshim.repeat(sym(ctx, x), r), np.repeat(x, r)


@case("triu / tril")
def _(ctx):
    x = ints(18).reshape(2, 3, 3)
    a = sym(ctx, x)
    return (npshim.triu(a), npshim.tril(a)), (np.triu(x), np.tril(x))


@case("argsort + fancy index (sorted values)")
def _(ctx):
    x = ints(RNG.integers(1, 6))
    a = sym(ctx, x)
    idx = npshim.argsort(a)
    return a[idx], np.sort(x)


@case("unique(sorted, return_index=True)")
def _(ctx):
    x = np.sort(ints(RNG.integers(1, 7), 0, 4))
    return npshim.unique(sym(ctx, x), return_index=True), np.unique(x, return_index=True)


@case("nonzero (2-d): the selected cells")
def _(ctx):
    x = (ints(9, 0, 3).reshape(3, 3) > 1)
    a = sym(ctx, x)
    i1, i2 = npshim.nonzero(a)
    w1, w2 = np.nonzero(x)
    return (i1, i2), (w1, w2)


@case("concatenate / column_stack / append")
def _(ctx):
    x, y = ints(RNG.integers(1, 4)), ints(RNG.integers(1, 4))
    a, b = sym(ctx, x, "x"), sym(ctx, y[:len(x)] if len(y) >= len(x) else x, "y")
    yy = y[:len(x)] if len(y) >= len(x) else x
    return (npshim.concatenate([a, b]), npshim.column_stack([a, b]), npshim.append(a, SNum(z3.RealVal(3)))), (np.concatenate([x, yy]), np.column_stack([x, yy]), np.append(x, 3.0))


@case("boolean mask selection")
def _(ctx):
    x = ints(RNG.integers(1, 6))
    m = x > 0
    return sym(ctx, x)[sym(ctx, m, "m")], x[m]


@case("linspace")
def _(ctx):
    lo, hi, n = float(RNG.integers(-3, 3)), float(RNG.integers(4, 9)), int(RNG.integers(2, 6))
    n = [3, 5, 9][int(RNG.integers(0, 3))]            # (hi-lo)/(n-1) exact in binary for these
    hi = lo + 8.0
    return npshim.linspace(SNum(val(lo)), SNum(val(hi)), n), np.linspace(lo, hi, n)


@case("diff / cumulative slices")
def _(ctx):
    x = ints(RNG.integers(2, 6))
    a = sym(ctx, x)
    return (npshim.diff(a), a[1:], a[:-1]), (np.diff(x), x[1:], x[:-1])


@case("bincount(x, weights, minlength)")
def _(ctx):
    x = RNG.integers(0, 4, RNG.integers(1, 6))
    w = ints(len(x))
    ml = int(RNG.integers(0, 6))
    return npshim.bincount(sym(ctx, x, "x"), weights=sym(ctx, w, "w"), minlength=ml), np.bincount(x, weights=w, minlength=ml)


@case("where / maximum / abs / sign")
def _(ctx):
    x, y = ints(4), ints(4)
    a, b = sym(ctx, x, "x"), sym(ctx, y, "y")
    return (npshim.where(a > b, a, b), npshim.maximum(a, b), npshim.abs(a)), (np.where(x > y, x, y), np.maximum(x, y), np.abs(x))


@case("any / all (axis=None, axis=0)")
def _(ctx):
    x = ints(6, 0, 2).reshape(2, 3) > 0
    a = sym(ctx, x)
    return (npshim.any(a), npshim.all(a), npshim.any(a, axis=0)), (np.any(x), np.all(x), np.any(x, axis=0))


@case("broadcasting: extent 1 against extent n, (n,) against (m, n), scalar")
def _(ctx):
    n = int(RNG.integers(1, 4))
    x, one = ints(n), ints(1)
    M = ints(2 * n).reshape(2, n)
    a, o, m = sym(ctx, x, "x"), sym(ctx, one, "one"), sym(ctx, M, "M")
    return (a + o, o * a, m - a, a[:, None] * o if False else a * 2.0), (x + one, one * x, M - x, x * 2.0)


@case("setitem on a slice / column, 2-d indexing")
def _(ctx):
    M = ints(6).reshape(2, 3)
    col = ints(2)
    m = sym(ctx, M, "M")
    m2 = m.copy()
    m2[:, 1] = sym(ctx, col, "col")
    want = M.copy()
    want[:, 1] = col
    return (m2, m[1], m[:, 2], m.T), (want, M[1], M[:, 2], M.T)


@case("basic slices: negative / open / clipped bounds")
def _(ctx):
    x = ints(RNG.integers(2, 7))
    a = sym(ctx, x)
    lo, hi = int(RNG.integers(-8, 8)), int(RNG.integers(-8, 8))
    return (a[lo:hi], a[lo:], a[:hi], a[-1], a[0]), (x[lo:hi], x[lo:], x[:hi], x[-1], x[0])


@case("integer-array (fancy) indexing on axis 0 and 1, two index arrays")
def _(ctx):
    M = ints(24).reshape(2, 3, 4)
    i1, i2 = RNG.integers(0, 3, 3), RNG.integers(0, 4, 3)
    m = sym(ctx, M, "M")
    x = ints(5)
    idx = RNG.integers(-5, 5, 4)
    return (m[:, sym(ctx, i1, "i1"), sym(ctx, i2, "i2")], sym(ctx, x, "x")[sym(ctx, idx, "idx")], m[:, [2, 0]][:, :, [1, 3]]), (M[:, i1, i2], x[idx], M[:, [2, 0]][:, :, [1, 3]])


@case("comparisons, boolean operators, astype(int16) wrap-around")
def _(ctx):
    x, y = ints(4), ints(4)
    big = np.array([32767, 32768, 65537, -32769, 5], dtype=np.int64)
    a, b = sym(ctx, x, "x"), sym(ctx, y, "y")
    return ((a < b) & (a != 0), (a >= b) | ~(a == b), sym(ctx, big, "big").astype(np.int16)), ((x < y) & (x != 0), (x >= y) | ~(x == y), big.astype(np.int16))


@case("reshape / flatten / transpose / atleast_1d / atleast_2d / column_stack")
def _(ctx):
    M = ints(6).reshape(2, 3)
    m = sym(ctx, M, "M")
    v = ints(3)
    a = sym(ctx, v, "v")
    mc = SArr.from_concrete(M)          # flatten needs a constant inner extent
    return (mc.flatten(), m.T, npshim.atleast_2d(a), npshim.atleast_1d(SNum(z3.RealVal(2))), npshim.column_stack([a, a * 2.0])), \
           (M.flatten(), M.T, np.atleast_2d(v), np.atleast_1d(2.0), np.column_stack([v, v * 2.0]))


@case("in-place arithmetic and setitem with index / slice")
def _(ctx):
    x = ints(5)
    a = sym(ctx, x).copy()
    want = x.copy()
    a += 2.0
    want += 2.0
    a[1] = 7.0
    want[1] = 7.0
    a[2:4] = 1.5
    want[2:4] = 1.5
    a *= 3.0
    want *= 3.0
    return a, want


@case("stores of real values into an integer array are truncated towards zero; diagonal / stack / hstack / ravel")
def _(ctx):
    n = int(RNG.integers(2, 6))
    vals = RNG.normal(0, 3, size=n).round(2)
    tgt = npshim.zeros((ctx.fresh_int("n", lo=0),), dtype=np.int64)
    ctx.assume(tgt.shape[0].t == n, "pin")
    tgt[:] = sym(ctx, vals, "vals")
    want = np.zeros(n, dtype=np.int64)
    want[:] = vals
    M = RNG.normal(0, 1, size=(2, 3, 3)).round(2)
    m = sym(ctx, M, "M3")
    v = ints(3)
    a = sym(ctx, v, "v")
    return (tgt, npshim.diagonal(m, axis1=1, axis2=2), npshim.stack([a, a * 2.0], axis=1), npshim.hstack((a, a.at(0))), sym(ctx, M[0], "M2").ravel() if False else a.ravel()), \
           (want, np.diagonal(M, axis1=1, axis2=2), np.stack([v, v * 2.0], axis=1), np.hstack((v, v[0])), v.ravel())


@case("basic slices are views: stores and in-place operations through a slice change the array")
def _(ctx):
    x = ints(6).astype(float)
    a = sym(ctx, x).copy()
    want = x.copy()
    v = a[1:4]
    v += 10.0
    w = want[1:4]
    w += 10.0
    v2 = a[2:]
    v2[0] = -1.0
    w2 = want[2:]
    w2[0] = -1.0
    M = RNG.normal(0, 1, size=(3, 4)).round(2)
    m = sym(ctx, M, "Mv").copy()
    wm = M.copy()
    col = m[:, 1]
    col *= 2.0
    wcol = wm[:, 1]
    wcol *= 2.0
    c = a[[0, 1]]          # fancy indexing copies
    c += 5.0
    wc = want[[0, 1]]
    wc += 5.0
    return (a, m, c), (want, wm, wc)


@case("zeros / full / arange / zeros_like / ones_like / empty shape")
def _(ctx):
    n = int(RNG.integers(1, 5))
    ns = ctx.fresh_int("n", lo=0)
    ctx.assume(ns.t == n, "conformance:value")
    x = ints(n)
    return (npshim.zeros((ns, 2)), npshim.full((ns,), 2.5), npshim.arange(ns), npshim.zeros_like(sym(ctx, x)), npshim.ones_like(sym(ctx, x, "y"))), \
           (np.zeros((n, 2)), np.full((n,), 2.5), np.arange(n), np.zeros_like(x), np.ones_like(x))


@case("average (weights) / outer / diag / delete")
def _(ctx):
    x, w = ints(4), ints(4, 1, 5)
    a, b = sym(ctx, x, "x"), sym(ctx, w, "w")
    M = ints(9).reshape(3, 3)
    W = ints(3, 1, 5)
    return (npshim.average(sym(ctx, M, "M2"), weights=sym(ctx, W, "W"), axis=0), npshim.outer(a, b), npshim.diag(sym(ctx, M, "M"))), \
           (np.average(M, weights=W, axis=0), np.outer(x, w), np.diag(M))


@case("array_equal / isscalar / len")
def _(ctx):
    x = ints(3)
    y = x.copy()
    if RNG.integers(0, 2):
        y[1] += 1
    from pyvc.builtins_shim import vc_len
    return (npshim.array_equal(sym(ctx, x, "x"), sym(ctx, y, "y")), vc_len(sym(ctx, x, "z"))), (np.array_equal(x, y), len(x))


@case("split at indices")
def _(ctx):
    x = ints(6)
    cut = np.array(sorted(RNG.integers(0, 7, 2)))
    parts = npshim.split(sym(ctx, x), sym(ctx, cut, "cut"))
    want = np.split(x, cut)
    return [parts.item(SNum(z3.IntVal(k))) for k in range(len(want))], want


def run_case(name, fn, verbose):
    out = {"sound": 0, "unsound": 0, "weak": 0, "skipped": 0, "detail": ""}

    def body(ctx):
        try:
            res, want = fn(ctx)
        except core.Unsupported as e:
            out["skipped"] += 1
            out["detail"] = f"unsupported: {e}"
            return
        except core.VCSignal:
            raise
        except Exception as e:  # noqa: BLE001 - the contract raises where numpy returned a value
            out["unsound"] += 1
            out["detail"] = f"contract raises {type(e).__name__}: {e} where numpy returns a value"
            return
        cs = equal_clause(res, want)
        eq = z3.And(cs) if cs else z3.BoolVal(True)
        s = ctx.solver
        s.set("timeout", 20000)
        s.push()
        s.add(eq)
        r = s.check()
        s.pop()
        if r == z3.unsat:
            out["unsound"] += 1
            out["detail"] = f"contract contradicts numpy: numpy returned {want!r}"
            return
        out["sound"] += 1 if r == z3.sat else 0
        s.push()
        s.add(z3.Not(eq))
        r2 = s.check()
        s.pop()
        if r2 == z3.sat:
            out["weak"] += 1
    res = core.explore(body, name, opts={})
    if res.error and res.error[0] == "crash":
        out["detail"] = res.error[1][-300:]
        out["skipped"] += 1
    return out


def main():
    ap = argparse.ArgumentParser()
    ap.add_argument("--cases", type=int, default=12)
    ap.add_argument("-v", action="store_true")
    args = ap.parse_args()
    bad = 0
    print(f"{'contract':58s} {'sound':>6s} {'unsound':>8s} {'weaker':>7s} {'skipped':>8s}")
    for name, fn in CASES:
        tot = {"sound": 0, "unsound": 0, "weak": 0, "skipped": 0}
        last = ""
        for _ in range(args.cases):
            o = run_case(name, fn, args.v)
            for k in tot:
                tot[k] += o[k]
            last = o["detail"] or last
        bad += tot["unsound"]
        print(f"{name:58s} {tot['sound']:6d} {tot['unsound']:8d} {tot['weak']:7d} {tot['skipped']:8d}  {last[:110] if (tot['unsound'] or tot['skipped'] or args.v) else ''}")
    print("CONFORMANCE", "FAILED" if bad else "ok")
    return 1 if bad else 0


if __name__ == "__main__":
    sys.exit(main())
