#!/usr/bin/env python3
"""Conformance of the ASSUMED numpy contracts (pyvc/npshim.py, pyvc/arrays.py) with the real numpy.

For every contract and a few hundred random small inputs: the inputs are given to the contract as *symbolic* arrays (symbolic
length, uninterpreted element function) constrained to the concrete values; then
   sound:  path condition + contract axioms + (result == what real numpy returns)  must be satisfiable
           (unsat: the contract contradicts numpy - every proof that used it is void)
   tight:  path condition + contract axioms + (result != what real numpy returns)  should be unsatisfiable
           (sat: the contract is weaker than numpy - only reported, proofs stay valid)
Integer-valued data keeps floating-point arithmetic exact.  Exit 0 iff no contract is unsound.
usage: tools/conformance.py [--cases N] [-v]"""
import argparse
import os
import sys
from fractions import Fraction

HERE = os.path.dirname(os.path.dirname(os.path.abspath(__file__)))
sys.path.insert(0, HERE)
sys.path.insert(0, os.path.join(os.environ.get("VERIF_REPO", "/repo"), "src"))

import numpy as np  # noqa: E402
import z3  # noqa: E402

from pyvc import core, npshim  # noqa: E402
from pyvc.arrays import SArr  # noqa: E402
from pyvc.core import SNum, SBool, to_term  # noqa: E402


def val(x):
    if isinstance(x, (bool, np.bool_)):
        return z3.BoolVal(bool(x))
    if isinstance(x, (int, np.integer)):
        return z3.IntVal(int(x))
    f = Fraction(float(x))
    return z3.RealVal(f"{f.numerator}/{f.denominator}")


def sym(ctx, x, hint="a"):
    """symbolic array with symbolic shape, constrained to the concrete array x"""
    x = np.asarray(x)
    kind = "b" if x.dtype == bool else ("i" if np.issubdtype(x.dtype, np.integer) else "f")
    dims = [ctx.fresh_int(f"{hint}_n{k}", lo=0) for k in range(x.ndim)]
    for d, n in zip(dims, x.shape):
        ctx.assume(d.t == n, "conformance:shape")
    a = SArr.fresh(ctx, hint, tuple(dims), kind)
    for idx in np.ndindex(*x.shape):
        e = a._elem(*[z3.IntVal(int(i)) for i in idx])
        ctx.assume(e == (val(x[idx]) if kind != "f" else z3.ToReal(val(x[idx])) if z3.is_int(val(x[idx])) else val(x[idx])), "conformance:value")
    a.dtype_name = x.dtype.name
    return a


def equal_clause(res, want):
    """clause: symbolic result == concrete numpy result (list of conjuncts)"""
    if isinstance(res, (tuple, list)) and isinstance(want, (tuple, list)):
        cs = [z3.BoolVal(len(res) == len(want))]
        for r, w in zip(res, want):
            cs += equal_clause(r, w)
        return cs
    want = np.asarray(want)
    if isinstance(res, SArr):
        cs = [z3.BoolVal(res.ndim == want.ndim)]
        if res.ndim != want.ndim:
            return cs
        cs += [to_term(d) == n for d, n in zip(res.shape, want.shape)]
        for idx in np.ndindex(*want.shape):
            e = res._elem(*[z3.IntVal(int(i)) for i in idx])
            v = val(want[idx])
            if z3.is_bool(e) != z3.is_bool(v):
                v = z3.BoolVal(bool(want[idx])) if z3.is_bool(e) else v
            cs.append(e == (z3.ToReal(v) if (z3.is_real(e) and z3.is_int(v)) else v))
        return cs
    if isinstance(res, (SNum, SBool)):
        e = to_term(res) if isinstance(res, SNum) else res.t
        v = val(want[()] if want.shape == () else want.item())
        return [e == (z3.ToReal(v) if (z3.is_real(e) and z3.is_int(v)) else v)]
    return [z3.BoolVal(bool(np.array_equal(np.asarray(res), want)))]


RNG = np.random.default_rng(20260904)


def ints(n, lo=-4, hi=5):
    return RNG.integers(lo, hi, n).astype(float)


CASES = []


def case(name):
    def deco(fn):
        CASES.append((name, fn))
        return fn
    return deco


@case("digitize(x, bins, right)")
def _(ctx):
    bins = np.unique(ints(RNG.integers(1, 5)))
    x = np.concatenate([ints(RNG.integers(0, 5)), bins[:2]])
    right = bool(RNG.integers(0, 2))
    return npshim.digitize(sym(ctx, x, "x"), sym(ctx, bins, "bins"), right=right), np.digitize(x, bins, right=right)


@case("argmin")
def _(ctx):
    x = ints(RNG.integers(1, 6))
    return npshim.argmin(sym(ctx, x)), np.argmin(x)


@case("min / max")
def _(ctx):
    x = ints(RNG.integers(1, 6))
    a = sym(ctx, x)
    return (npshim.amin(a), npshim.amax(a)), (np.min(x), np.max(x))


@case("sum (all axes / axis)")
def _(ctx):
    x = ints(12).reshape(3, 4)
    a = sym(ctx, x)
    ax = int(RNG.integers(0, 2))
    return (npshim.sum(a), npshim.sum(a, axis=ax)), (x.sum(), x.sum(axis=ax))


@case("einsum bij->b / bij->jb / bij->ib / bii->ib / bi,bj->bij")
def _(ctx):
    x = ints(18).reshape(2, 3, 3)
    a = sym(ctx, x)
    u, v = ints(6).reshape(2, 3), ints(4).reshape(2, 2)
    return ([npshim.einsum(s, a) for s in ("bij->b", "bij->jb", "bij->ib", "bii->ib")] + [npshim.einsum("bi,bj->bij", sym(ctx, u, "u"), sym(ctx, v, "v"))],
            [np.einsum(s, x) for s in ("bij->b", "bij->jb", "bij->ib", "bii->ib")] + [np.einsum("bi,bj->bij", u, v)])


@case("tile(a, r).reshape((r, -1))")
def _(ctx):
    x, r = ints(RNG.integers(1, 4)), int(RNG.integers(1, 4))
    return npshim.tile(sym(ctx, x), r).reshape((r, -1)), np.tile(x, r).reshape((r, -1))


@case("tile(a, (r, 1))")
def _(ctx):
    x, r = ints(RNG.integers(1, 4)), int(RNG.integers(1, 4))
    return npshim.tile(sym(ctx, x), (r, 1)), np.tile(x, (r, 1))


@case("repeat(a, r)")
def _(ctx):
    x, r = ints(RNG.integers(1, 4)), int(RNG.integers(1, 4))
    return npshim.repeat(sym(ctx, x), r), np.repeat(x, r)


@case("triu / tril")
def _(ctx):
    x = ints(18).reshape(2, 3, 3)
    a = sym(ctx, x)
    return (npshim.triu(a), npshim.tril(a)), (np.triu(x), np.tril(x))


@case("argsort + fancy index (sorted values)")
def _(ctx):
    x = ints(RNG.integers(1, 6))
    a = sym(ctx, x)
    idx = npshim.argsort(a)
    return a[idx], np.sort(x)


@case("unique(sorted, return_index=True)")
def _(ctx):
    x = np.sort(ints(RNG.integers(1, 7), 0, 4))
    return npshim.unique(sym(ctx, x), return_index=True), np.unique(x, return_index=True)


@case("nonzero (2-d): the selected cells")
def _(ctx):
    x = (ints(9, 0, 3).reshape(3, 3) > 1)
    a = sym(ctx, x)
    i1, i2 = npshim.nonzero(a)
    w1, w2 = np.nonzero(x)
    return (i1, i2), (w1, w2)


@case("concatenate / column_stack / append")
def _(ctx):
    x, y = ints(RNG.integers(1, 4)), ints(RNG.integers(1, 4))
    a, b = sym(ctx, x, "x"), sym(ctx, y[:len(x)] if len(y) >= len(x) else x, "y")
    yy = y[:len(x)] if len(y) >= len(x) else x
    return (npshim.concatenate([a, b]), npshim.column_stack([a, b]), npshim.append(a, SNum(z3.RealVal(3)))), (np.concatenate([x, yy]), np.column_stack([x, yy]), np.append(x, 3.0))


@case("boolean mask selection")
def _(ctx):
    x = ints(RNG.integers(1, 6))
    m = x > 0
    return sym(ctx, x)[sym(ctx, m, "m")], x[m]


@case("linspace")
def _(ctx):
    lo, hi, n = float(RNG.integers(-3, 3)), float(RNG.integers(4, 9)), int(RNG.integers(2, 6))
    n = [3, 5, 9][int(RNG.integers(0, 3))]            # (hi-lo)/(n-1) exact in binary for these
    hi = lo + 8.0
    return npshim.linspace(SNum(val(lo)), SNum(val(hi)), n), np.linspace(lo, hi, n)


@case("diff / cumulative slices")
def _(ctx):
    x = ints(RNG.integers(2, 6))
    a = sym(ctx, x)
    return (npshim.diff(a), a[1:], a[:-1]), (np.diff(x), x[1:], x[:-1])


@case("bincount(x, weights, minlength)")
def _(ctx):
    x = RNG.integers(0, 4, RNG.integers(1, 6))
    w = ints(len(x))
    ml = int(RNG.integers(0, 6))
    return npshim.bincount(sym(ctx, x, "x"), weights=sym(ctx, w, "w"), minlength=ml), np.bincount(x, weights=w, minlength=ml)


@case("where / maximum / abs / sign")
def _(ctx):
    x, y = ints(4), ints(4)
    a, b = sym(ctx, x, "x"), sym(ctx, y, "y")
    return (npshim.where(a > b, a, b), npshim.maximum(a, b), npshim.abs(a)), (np.where(x > y, x, y), np.maximum(x, y), np.abs(x))


@case("any / all (axis=None, axis=0)")
def _(ctx):
    x = ints(6, 0, 2).reshape(2, 3) > 0
    a = sym(ctx, x)
    return (npshim.any(a), npshim.all(a), npshim.any(a, axis=0)), (np.any(x), np.all(x), np.any(x, axis=0))


@case("split at indices")
def _(ctx):
    x = ints(6)
    cut = np.array(sorted(RNG.integers(0, 7, 2)))
    parts = npshim.split(sym(ctx, x), sym(ctx, cut, "cut"))
    want = np.split(x, cut)
    return [parts.item(SNum(z3.IntVal(k))) for k in range(len(want))], want


def run_case(name, fn, verbose):
    out = {"sound": 0, "unsound": 0, "weak": 0, "skipped": 0, "detail": ""}

    def body(ctx):
        try:
            res, want = fn(ctx)
        except core.Unsupported as e:
            out["skipped"] += 1
            out["detail"] = f"unsupported: {e}"
            return
        cs = equal_clause(res, want)
        eq = z3.And(cs) if cs else z3.BoolVal(True)
        s = ctx.solver
        s.set("timeout", 20000)
        s.push()
        s.add(eq)
        r = s.check()
        s.pop()
        if r == z3.unsat:
            out["unsound"] += 1
            out["detail"] = f"contract contradicts numpy: numpy returned {want!r}"
            return
        out["sound"] += 1 if r == z3.sat else 0
        s.push()
        s.add(z3.Not(eq))
        r2 = s.check()
        s.pop()
        if r2 == z3.sat:
            out["weak"] += 1
    res = core.explore(body, name, opts={})
    if res.error and res.error[0] == "crash":
        out["detail"] = res.error[1][-300:]
        out["skipped"] += 1
    return out


def main():
    ap = argparse.ArgumentParser()
    ap.add_argument("--cases", type=int, default=12)
    ap.add_argument("-v", action="store_true")
    args = ap.parse_args()
    bad = 0
    print(f"{'contract':58s} {'sound':>6s} {'unsound':>8s} {'weaker':>7s} {'skipped':>8s}")
    for name, fn in CASES:
        tot = {"sound": 0, "unsound": 0, "weak": 0, "skipped": 0}
        last = ""
        for _ in range(args.cases):
            o = run_case(name, fn, args.v)
            for k in tot:
                tot[k] += o[k]
            last = o["detail"] or last
        bad += tot["unsound"]
        print(f"{name:58s} {tot['sound']:6d} {tot['unsound']:8d} {tot['weak']:7d} {tot['skipped']:8d}  {last[:110] if (tot['unsound'] or tot['skipped'] or args.v) else ''}")
    print("CONFORMANCE", "FAILED" if bad else "ok")
    return 1 if bad else 0


if __name__ == "__main__":
    sys.exit(main())
