#!/bin/sh
# runs every kept seeded change against the check of its own property (scratch worktrees, 8 at a time); one line per seed
cd "$(dirname "$0")/.."
ls -d seeded/*/ | xargs -P 8 -I{} sh -c 'd={}; id=$(basename $d); p=${id%-*}; r=$(tools/mutant.sh $d/patch.diff $p 2>&1 | grep -o "mutant-exit=[0-9]*"); echo "$id $r"' | sort
