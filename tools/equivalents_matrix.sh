#!/bin/sh
# every kept equivalent refactoring against the check of EVERY property (a refactoring of a shared function is seen by several
# properties): prints the pairs that do not exit 0 or 2; exit 1 if any pair exits 1 (false alarm)
cd "$(dirname "$0")/.."
props=$(.venv/bin/python -c "import json;print(' '.join(c['property_id'] for c in json.load(open('MANIFEST.json'))['checks']))")
for d in ${EQ_GLOB:-equivalent/*/}; do for p in $props; do echo "$d $p"; done; done | xargs -P 10 -L 1 sh -c 'd=$0; p=$1; id=$(basename $d); o=$(tools/mutant.sh $d/patch.diff $p 2>&1); r=$(echo "$o" | grep -o "mutant-exit=[0-9]*"); echo "$id $p $r"; case "$r" in *=1|*=3) echo "$o" | grep -E "^(VIOLATION|CHECKER)" | head -3 | sed "s/^/   $id $p: /";; esac' > /tmp/eqmatrix.$$ 2>&1
grep -v "exit=0" /tmp/eqmatrix.$$ | sort
n1=$(grep -c "exit=1" /tmp/eqmatrix.$$); n2=$(grep -c "exit=2" /tmp/eqmatrix.$$); n0=$(grep -c "exit=0" /tmp/eqmatrix.$$)
echo "pairs: verified=$n0 undecided=$n2 false-alarms=$n1"
rm -f /tmp/eqmatrix.$$
[ "$n1" = 0 ]
