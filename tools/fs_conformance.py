#!/usr/bin/env python3
"""Differential test of the symbolic file-system model (pyvc/fsmodel_sym.py) against the real file system: random sequences of
the operations the repository uses (mkdir, open w/a/x/r + write + close, unlink, replace, rmtree, exists, is_dir, iterdir) run on
both; every step must agree on the outcome (exception class or value) and the final trees with their contents must be equal.
Exit 0 iff no difference.   usage: tools/fs_conformance.py [--runs N] [--len L]"""
import argparse
import os
import pathlib
import random
import shutil
import sys
import tempfile

HERE = os.path.dirname(os.path.dirname(os.path.abspath(__file__)))
sys.path.insert(0, HERE)

from pyvc import core  # noqa: E402
from pyvc.fsmodel_sym import SymFS, SymPath, DIR  # noqa: E402

PATHS = ["a", "a/b", "a/b/f", "a/g", "c", "c/h", "a/b/f.tmp", "d/e/x"]


def exc_class(e):
    # errors the library distinguishes; the rest are just "OSError"
    for k in (FileNotFoundError, FileExistsError, IsADirectoryError, NotADirectoryError):
        if isinstance(e, k):
            return k.__name__
    if isinstance(e, OSError):
        return "OSError"
    return type(e).__name__


def run(rng, length):
    ops = []
    for _ in range(length):
        kind = rng.choice(["mkdir", "mkdir_p", "write", "append", "create_x", "read", "unlink", "unlink_ok", "replace", "rmtree", "exists", "is_dir", "iterdir"])
        ops.append((kind, rng.choice(PATHS), rng.choice(PATHS), rng.randrange(1, 250)))
    real_root = tempfile.mkdtemp(prefix="fsconf_")
    diffs = []

    def body(ctx):
        fs = SymFS(ctx)
        ctx.ghost["fs"] = fs
        fs.put_dir("/root")
        for step, (kind, p, q, payload) in enumerate(ops):
            outcomes = []
            for side in ("model", "real"):
                P = SymPath("/root/" + p) if side == "model" else pathlib.Path(real_root, p)
                Q = SymPath("/root/" + q) if side == "model" else pathlib.Path(real_root, q)
                try:
                    if kind == "mkdir":
                        P.mkdir()
                        r = None
                    elif kind == "mkdir_p":
                        P.mkdir(parents=True, exist_ok=True)
                        r = None
                    elif kind in ("write", "append", "create_x"):
                        with P.open({"write": "wb", "append": "ab", "create_x": "xb"}[kind]) as f:
                            f.write(bytes([payload]))
                        r = None
                    elif kind == "read":
                        with P.open("rb") as f:
                            if side == "model":
                                r = [pt[1] for pt in f.read_parts]
                            else:
                                r = list(f.read())
                    elif kind == "unlink":
                        P.unlink()
                        r = None
                    elif kind == "unlink_ok":
                        P.unlink(missing_ok=True)
                        r = None
                    elif kind == "replace":
                        P.replace(Q)
                        r = None
                    elif kind == "rmtree":
                        if side == "model":
                            fs.rmtree(str(P))
                        else:
                            shutil.rmtree(P)
                        r = None
                    elif kind == "exists":
                        r = bool(P.exists())
                    elif kind == "is_dir":
                        r = bool(P.is_dir())
                    else:
                        r = sorted(str(c).rsplit("/", 1)[-1] for c in P.iterdir())
                    outcomes.append(("ok", r))
                except Exception as e:  # noqa: BLE001
                    outcomes.append(("raise", exc_class(e)))
            if outcomes[0] != outcomes[1]:
                diffs.append(f"step {step} {kind}({p}{', ' + q if kind == 'replace' else ''}): model {outcomes[0]} real {outcomes[1]}")
                return
        # final trees
        model_tree = {}
        for path, node in fs.nodes.items():
            if path.startswith("/root/"):
                model_tree[path[len("/root/"):]] = "DIR" if node is DIR else [pt[1] for pt in node.parts]
        real_tree = {}
        for dp, dns, fns in os.walk(real_root):
            for d in dns:
                real_tree[os.path.relpath(os.path.join(dp, d), real_root)] = "DIR"
            for fn in fns:
                real_tree[os.path.relpath(os.path.join(dp, fn), real_root)] = list(open(os.path.join(dp, fn), "rb").read())
        if model_tree != real_tree:
            diffs.append(f"final trees differ: model {model_tree} real {real_tree}")
    try:
        res = core.explore(body, "fsconf", opts={})
        if res.error:
            diffs.append(f"model error: {res.error[1][-300:]}")
    finally:
        shutil.rmtree(real_root, ignore_errors=True)
    return ops, diffs


def main():
    ap = argparse.ArgumentParser()
    ap.add_argument("--runs", type=int, default=300)
    ap.add_argument("--len", type=int, default=14)
    args = ap.parse_args()
    rng = random.Random(20260904)
    bad = 0
    for k in range(args.runs):
        ops, diffs = run(rng, args.len)
        if diffs:
            bad += 1
            if bad <= 5:
                print("DIFF", diffs[0])
                print("   ops:", [(o[0], o[1]) + ((o[2],) if o[0] == "replace" else ()) for o in ops][:16])
    print(f"FS-CONFORMANCE {'FAILED' if bad else 'ok'}: {args.runs} sequences, {bad} with differences")
    return 1 if bad else 0


if __name__ == "__main__":
    sys.exit(main())
