#!/bin/sh
# usage: tools/confirm_seed.sh <dir with patch.diff demo.py meta.json> 
# Confirms in a fresh scratch worktree of /repo HEAD: (1) patch applies, (2) existing suite passes with it,
# (3) demo fails with it, (4) demo passes without it.  Prints a one-line summary; removes the worktree.
set -u
src="$(realpath "$1")"
d="$(mktemp -d /tmp/yawseed.XXXXXX)"
git -C /repo worktree add --detach -q "$d/wt" HEAD || exit 3
cp /repo/src/yaw/_version.py "$d/wt/src/yaw/_version.py"
cd "$d/wt"
export PYTHONPATH="$d/wt/src"
timeout 300 /venv/bin/python "$src/demo.py" >"$d/demo_clean.log" 2>&1; clean=$?
if ! git apply "$src/patch.diff"; then echo "SEED $src: PATCH-DOES-NOT-APPLY"; cd /; git -C /repo worktree remove --force "$d/wt"; rm -rf "$d"; exit 3; fi
timeout 900 /venv/bin/python -m pytest -q -p no:cacheprovider --timeout=900 >"$d/suite.log" 2>&1; suite=$?
passed=$(grep -oE '[0-9]+ passed' "$d/suite.log" | tail -1)
timeout 300 /venv/bin/python "$src/demo.py" >"$d/demo_mut.log" 2>&1; mut=$?
echo "SEED $src: suite_exit=$suite ($passed) demo_with_change_exit=$mut demo_without_change_exit=$clean"
tail -3 "$d/demo_mut.log" | sed 's/^/   with: /'
cd /; git -C /repo worktree remove --force "$d/wt"; rm -rf "$d"
[ "$suite" = 0 ] && [ "$mut" != 0 ] && [ "$clean" = 0 ]
