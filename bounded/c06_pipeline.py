"""C06 bounded stand-in, part 2: the real library in MPI mode (bounded/mpi_sim.py) on simulated worlds: catalog creation,
catalog loading, tree building, pair counting, histogramming - root results compared with a single-process run of the same
library.  Labelled bounded - never counted as proved.  Returns a list of (case, ok, detail)."""
from __future__ import annotations

import itertools
import shutil
import sys
import tempfile


def _rows(d):
    import numpy as np
    a = np.column_stack([d[f] for f in d.dtype.names])
    return a[np.lexsort(a.T[::-1])]


def battery(quick=True):
    import numpy as np
    import pandas as pd
    from bounded import mpi_sim
    import yaw                                   # single-process reference
    Y = mpi_sim.load_mpi_copy()                  # the same source in MPI mode
    rng = np.random.default_rng(6)
    tmp = tempfile.mkdtemp(prefix="yawc06_")
    out = []
    n = 400
    df = pd.DataFrame(dict(ra=rng.uniform(0, 40, n), dec=rng.uniform(-10, 10, n), z=rng.uniform(0.1, 1.0, n), w=rng.uniform(0.5, 2.0, n), pid=rng.integers(0, 5, n)))
    df.loc[:4, "pid"] = [0, 1, 2, 3, 4]
    cen_deg = np.array([[5.0, -5.0], [35.0, 5.0], [15.0, 6.0], [25.0, -4.0], [20.0, 0.0]])
    k = [0]

    def target():
        k[0] += 1
        return f"{tmp}/cat{k[0]}"

    def create(lib, path, mode, chunksize, max_workers, progress=False):
        kw = dict(ra_name="ra", dec_name="dec", weight_name="w", redshift_name="z", chunksize=chunksize, overwrite=True, max_workers=max_workers,
                  progress=progress)
        if mode == "ids":
            kw["patch_name"] = "pid"
        else:
            kw["patch_centers"] = lib.AngularCoordinates(np.deg2rad(cen_deg))
        return lib.Catalog.from_dataframe(path, df, **kw)

    def summary(cat):
        return {int(pid): _rows(cat[pid].load_data()) for pid in cat.keys()}, np.asarray(cat.get_centers().data), np.asarray(cat.get_num_records())

    def same(a, b):
        ra, ca, na = a
        rb, cb, nb = b
        if sorted(ra) != sorted(rb):
            return f"patch ids {sorted(rb)} instead of {sorted(ra)}"
        for pid in ra:
            if ra[pid].shape != rb[pid].shape or not np.array_equal(ra[pid], rb[pid]):
                return f"patch {pid}: {len(rb[pid])} records instead of {len(ra[pid])} / records differ"
        if not np.allclose(ca, cb, rtol=0, atol=1e-12) or not np.array_equal(na, nb):
            return "patch centres / record counts differ"
        return True
    refs = {}
    try:
        for mode in ("ids", "centres"):
            refs[mode] = summary(create(yaw, target(), mode, 64, 1))
        sizes = (2, 3, 4) if quick else (2, 3, 4, 5)
        for size in sizes:
            for mode, chunksize, sync in itertools.product(("ids", "centres"), (64, 400) if quick else (1, 64, 399, 400), (False, True)):
                for max_workers in ([None] if quick else [None, 2, size]):
                    for policy, seed in ([("random", 0), ("lowest", 0)] if quick else [("random", 0), ("random", 1), ("lowest", 0), ("highest", 0)]):
                        path = target()

                        def main(rank, path=path, mode=mode, chunksize=chunksize, max_workers=max_workers):
                            cat = create(Y, path, mode, chunksize, max_workers)
                            again = Y.Catalog(path)                                       # loading on all ranks
                            return summary(cat), summary(again)
                        status, res, err, world = mpi_sim.run_world(size, main, sync=sync, seed=seed, policy=policy, timeout=60)
                        name = f"create+load[size={size},{mode},chunk={chunksize},max_workers={max_workers},{'synchronous' if sync else 'eager'},{policy}{seed}]"
                        if status != "ok":
                            out.append((name, False, f"{status}: {dict(list(err.items())[:2])}"))
                            continue
                        r = same(refs[mode], res[0][0])
                        if r is True:
                            r = same(refs[mode], res[0][1])
                        if r is True and any(same(res[0][1], res[q][1]) is not True for q in res):
                            r = "the loaded catalog differs between ranks"
                        out.append((name, r is True, "" if r is True else f"root result differs from the single-process run: {r}"))
        # the same with the progress display switched on: it must not change what any rank does
        import contextlib
        import io as _io
        import sys as _sys
        _lg = _sys.modules.get(Y.__name__ + ".utils.logging")
        if _lg is not None and not getattr(_lg.ProgressPrinter, "_vc_silenced", False):
            _orig_init = _lg.ProgressPrinter.__init__
            _lg.ProgressPrinter.__init__ = lambda self, num_items, stream, _o=_orig_init: _o(self, num_items, _io.StringIO())   # display sink only
            _lg.ProgressPrinter._vc_silenced = True
        for size, sync in itertools.product((3,) if quick else (2, 3, 4), (False, True)):
            path = target()

            def main_p(rank, path=path):
                cat = create(Y, path, "centres", 64, None, progress=True)
                return summary(cat), summary(Y.Catalog(path))
            with contextlib.redirect_stderr(_io.StringIO()), contextlib.redirect_stdout(_io.StringIO()):
                status, res, err, world = mpi_sim.run_world(size, main_p, sync=sync, seed=0, timeout=60)
            name = f"create+load[size={size},centres,chunk=64,progress display on,{'synchronous' if sync else 'eager'}]"
            if status != "ok":
                out.append((name, False, f"{status}: {dict(list(err.items())[:2])}"))
                continue
            r = same(refs["centres"], res[0][0])
            out.append((name, r is True, "" if r is True else f"root result differs from the single-process run: {r}"))
        # measurements under MPI
        cfg_kw = dict(rmin=500.0, rmax=5000.0, zmin=0.1, zmax=1.0, num_bins=3)
        ref_cat, unk_cat, rnd_cat = (create(yaw, target(), "centres", 400, 1) for _ in range(3))
        ref_cf = yaw.crosscorrelate(yaw.Configuration.create(**cfg_kw), ref_cat, unk_cat, ref_rand=rnd_cat, max_workers=1)[0]
        ref_hist = yaw.HistData.from_catalog(ref_cat, yaw.Configuration.create(**cfg_kw), max_workers=1)
        for size, sync, prog in [(a, b, False) for a, b in itertools.product((2, 3) if quick else (2, 3, 4), (False, True))] + [(3, False, True)]:
            paths = (target(), target(), target())

            def main2(rank, paths=paths, prog=prog):
                cat, unk, rnd = (create(Y, p, "centres", 400, None) for p in paths)
                cfg = Y.Configuration.create(**cfg_kw)
                cf = Y.crosscorrelate(cfg, cat, unk, ref_rand=rnd, progress=prog)[0]
                hist = Y.HistData.from_catalog(cat, cfg, progress=prog)
                # result I/O: the root writes, everybody reads back through a broadcast
                base = paths[0] + "_io"
                cf.to_file(base + ".hdf")
                cf2 = Y.CorrFunc.from_file(base + ".hdf")
                cfg.to_file(base + ".yml")
                cfg2 = Y.Configuration.from_file(base + ".yml")
                cd = cf.sample()
                cd.to_files(base + "_cd")
                cd2 = Y.CorrData.from_files(base + "_cd")
                # only the root's measurement is meaningful; what every rank reads back must be the root's result
                io = (cf2.dd.counts.counts, cf2.rd.counts.counts, bool(cfg2 == cfg), cd2.data, cd2.samples.shape, cd.data if rank == 0 else None)
                return cf.dd.counts.counts, cf.rd.counts.counts, cf.dd.sum_weights.sum_weights1, hist.data, hist.samples, io
            with contextlib.redirect_stderr(_io.StringIO()), contextlib.redirect_stdout(_io.StringIO()):
                status, res, err, world = mpi_sim.run_world(size, main2, sync=sync, seed=1, timeout=120)
            name = f"trees+crosscorrelate+histogram+result_io[size={size},{'synchronous' if sync else 'eager'}{',progress display on' if prog else ''}]"
            if status != "ok":
                out.append((name, False, f"{status}: {dict(list(err.items())[:2])}"))
                continue
            dd, rd, sw, hd, hs, _ = res[0]
            root_cd = res[0][5][5]
            bad_io = [q for q, r in res.items() if not (np.array_equal(r[5][0], dd) and np.array_equal(r[5][1], rd) and r[5][2]
                                                         and np.allclose(r[5][3], root_cd, atol=1e-6, equal_nan=True) and r[5][4] == res[0][5][4])]
            if bad_io:
                out.append((name, False, f"ranks {bad_io} did not read back what the root wrote"))
                continue
            ok = (np.allclose(dd, ref_cf.dd.counts.counts) and np.allclose(rd, ref_cf.rd.counts.counts) and np.allclose(sw, ref_cf.dd.sum_weights.sum_weights1)
                  and np.allclose(hd, ref_hist.data) and np.allclose(hs, ref_hist.samples))
            out.append((name, bool(ok), "" if ok else "root pair counts / histogram differ from the single-process run"))
    finally:
        shutil.rmtree(tmp, ignore_errors=True)
    return out
