"""C13 bounded stand-in: metamorphic relations on the real pipeline (catalog creation -> crosscorrelate/autocorrelate ->
sample -> redshift estimate): rigid rotations (generic, onto a pole, across RA = 0), row order (shuffled; sorted by position
and read in small chunks), relabelling of the patches by permuting the centres, positive weight factors, additivity of raw
pair counts under splitting a catalog.  Tolerance 1e-9 relative.  Labelled bounded - never counted as proved."""
from __future__ import annotations

import shutil
import tempfile


def battery(quick=True):
    import numpy as np
    import pandas as pd
    import yaw
    from yaw import AngularCoordinates, Catalog, Configuration, RedshiftData

    rng = np.random.default_rng(13)
    tmp = tempfile.mkdtemp(prefix="yawc13_")
    out = []
    k = [0]

    def target():
        k[0] += 1
        return f"{tmp}/cat{k[0]}"

    def xyz(ra, dec):
        return np.column_stack([np.cos(dec) * np.cos(ra), np.cos(dec) * np.sin(ra), np.sin(dec)])

    def radec(v):
        return np.arctan2(v[:, 1], v[:, 0]) % (2 * np.pi), np.arcsin(np.clip(v[:, 2], -1, 1))

    def rot(df, R):
        ra, dec = radec(xyz(df.ra.to_numpy(), df.dec.to_numpy()) @ R.T)
        return df.assign(ra=ra, dec=dec)

    def rotation_to(a, b):
        """rotation taking unit vector a to unit vector b"""
        v = np.cross(a, b)
        c = float(a @ b)
        if np.linalg.norm(v) < 1e-14:
            return np.eye(3)
        vx = np.array([[0, -v[2], v[1]], [v[2], 0, -v[0]], [-v[1], v[0], 0]])
        return np.eye(3) + vx + vx @ vx / (1 + c)

    deg = np.pi / 180
    n_ref, n_unk = (500, 700) if quick else (900, 1200)

    clusters = np.column_stack([rng.uniform(20 * deg, 32 * deg, 40), rng.uniform(-4 * deg, 4 * deg, 40), rng.uniform(0.2, 1.0, 40)])

    def sample(n, z=True, w=True, clustered=False):
        d = dict(ra=rng.uniform(20 * deg, 32 * deg, n), dec=rng.uniform(-4 * deg, 4 * deg, n))
        zz = rng.uniform(0.2, 1.0, n)
        if clustered:      # half of the objects sit in small clumps (in position and redshift): positive correlation amplitudes
            m = n // 2
            c = clusters[rng.integers(0, len(clusters), m)]
            d["ra"][:m] = c[:, 0] + rng.normal(0, 0.03 * deg, m)
            d["dec"][:m] = c[:, 1] + rng.normal(0, 0.03 * deg, m)
            zz[:m] = np.clip(c[:, 2] + rng.normal(0, 0.01, m), 0.2001, 0.9999)
        if z:
            d["z"] = zz
        if w:
            d["w"] = rng.uniform(0.5, 2.0, n)
        return pd.DataFrame(d)
    ref, unk, ref_rand, unk_rand = sample(n_ref, clustered=True), sample(n_unk, z=False, clustered=True), sample(2 * n_ref, w=False), sample(2 * n_unk, z=False, w=False)
    cen = pd.DataFrame(dict(ra=np.array([21.5, 24.5, 27.5, 30.5, 23.0, 29.0]) * deg, dec=np.array([-2.0, 2.0, -2.0, 2.0, 3.0, -3.0]) * deg))
    config = Configuration.create(rmin=500.0, rmax=5000.0, zmin=0.2, zmax=1.0, num_bins=3, max_workers=1)

    def measure(ref, unk, ref_rand, unk_rand, cen, chunksize=None, order=None):
        kw = dict(ra_name="ra", dec_name="dec", degrees=False, max_workers=1, chunksize=chunksize)
        centres = AngularCoordinates(np.column_stack([cen.ra, cen.dec]))
        pick = (lambda d: d) if order is None else order
        c_ref = Catalog.from_dataframe(target(), pick(ref), redshift_name="z", weight_name="w", patch_centers=centres, **kw)
        c_unk = Catalog.from_dataframe(target(), pick(unk), weight_name="w", patch_centers=c_ref, **kw)
        c_rr = Catalog.from_dataframe(target(), pick(ref_rand), redshift_name="z", patch_centers=c_ref, **kw)
        c_ur = Catalog.from_dataframe(target(), pick(unk_rand), patch_centers=c_ref, **kw)
        (cross,) = yaw.crosscorrelate(config, c_ref, c_unk, ref_rand=c_rr, unk_rand=c_ur, max_workers=1)
        (auto,) = yaw.autocorrelate(config, c_ref, c_rr, max_workers=1)
        cs, as_ = cross.sample(), auto.sample()
        nz = RedshiftData.from_corrfuncs(cross, ref_corr=auto)
        return dict(cross=cross, auto=auto, w_sp=cs.data, w_sp_samples=cs.samples, w_sp_cov=cs.covariance, w_ss=as_.data, w_ss_samples=as_.samples,
                    nz=nz.data, nz_samples=nz.samples, nz_cov=nz.covariance, dd=cross.dd.counts.counts, dr=cross.dr.counts.counts, cats=(c_ref, c_unk, c_rr, c_ur))

    def close(a, b, what, rtol=1e-9, atol=1e-12):
        a, b = np.asarray(a), np.asarray(b)
        if a.shape != b.shape:
            return f"{what}: shape {b.shape} instead of {a.shape}"
        if not np.allclose(a, b, rtol=rtol, atol=atol, equal_nan=True):
            idx = np.unravel_index(np.nanargmax(np.abs(a - b)), a.shape)
            return f"{what} differs: {a[idx]!r} vs {b[idx]!r} at {tuple(int(i) for i in idx)}"
        return True

    def same_results(base, other, perm=None, what_prefix=""):
        keys = ["w_sp", "w_ss", "nz", "w_sp_cov", "nz_cov"]
        for key in keys:
            r = close(base[key], other[key], what_prefix + key, rtol=1e-7 if "cov" in key else 1e-9)
            if r is not True:
                return r
        for key in ("w_sp_samples", "w_ss_samples", "nz_samples"):
            want = base[key] if perm is None else base[key][perm]
            r = close(want, other[key], what_prefix + key)
            if r is not True:
                return r
        return True

    def attempt(name, fn):
        try:
            r = fn()
        except Exception as ex:  # noqa: BLE001
            import traceback
            out.append((name, False, f"raised {type(ex).__name__}: {ex} | {traceback.format_exc(limit=2)[-200:]}"))
            return
        out.append((name, r is True, "" if r is True else str(r)))

    try:
        base = measure(ref, unk, ref_rand, unk_rand, cen)
        out.append(("baseline measurement is finite", bool(np.all(np.isfinite(base["w_sp"])) and np.all(np.isfinite(base["nz"]))), "non-finite amplitudes in the baseline"))
        centre = xyz(np.array([26 * deg]), np.array([0.0]))[0]
        rotations = {
            "generic": rotation_to(centre, xyz(np.array([200 * deg]), np.array([-35 * deg]))[0]),
            "onto_the_north_pole": rotation_to(centre, np.array([0.0, 0.0, 1.0])),
            "across_RA_0": rotation_to(centre, xyz(np.array([0.05 * deg]), np.array([10 * deg]))[0]),
        }
        if not quick:
            rotations["onto_the_south_pole"] = rotation_to(centre, np.array([0.0, 0.0, -1.0]))
        for name, R in rotations.items():
            attempt(f"rotation[{name}]", lambda R=R: same_results(base, measure(rot(ref, R), rot(unk, R), rot(ref_rand, R), rot(unk_rand, R), rot(cen, R))))
        shuffle = lambda d: d.sample(frac=1.0, random_state=5).reset_index(drop=True)      # noqa: E731
        by_pos = lambda d: d.sort_values("ra", ascending=False).reset_index(drop=True)     # noqa: E731
        attempt("row_order[shuffled]", lambda: same_results(base, measure(ref, unk, ref_rand, unk_rand, cen, order=shuffle)))
        attempt("row_order[sorted by position, chunks of 150]", lambda: same_results(base, measure(ref, unk, ref_rand, unk_rand, cen, chunksize=150, order=by_pos)))
        attempt("row_order[shuffled, chunks of 97]", lambda: same_results(base, measure(ref, unk, ref_rand, unk_rand, cen, chunksize=97, order=shuffle)))
        sigma = np.array([3, 0, 5, 1, 4, 2])          # new patch k has the centre of old patch sigma[k]

        def relabel():
            other = measure(ref, unk, ref_rand, unk_rand, cen.iloc[sigma].reset_index(drop=True))
            return same_results(base, other, perm=sigma)
        attempt("patch_labels[centres permuted: samples permute accordingly, data and covariance unchanged]", relabel)
        for c in ((3.7, 1e-14) if quick else (3.7, 1e-3, 250.0, 1e-14, 1e12)):
            attempt(f"weight_scale[unknown x {c}]", lambda c=c: same_results(base, measure(ref, unk.assign(w=unk.w * c), ref_rand, unk_rand, cen)))
            attempt(f"weight_scale[reference x {c}]", lambda c=c: same_results(base, measure(ref.assign(w=ref.w * c), unk, ref_rand, unk_rand, cen)))

        def additive():
            half = rng.uniform(size=len(unk)) < 0.4
            a = measure(ref, unk[half].reset_index(drop=True), ref_rand, unk_rand, cen)
            b = measure(ref, unk[~half].reset_index(drop=True), ref_rand, unk_rand, cen)
            r = close(base["dd"], a["dd"] + b["dd"], "DD counts of the two parts added")
            if r is not True:
                return r
            added = a["cross"].dd + b["cross"].dd if False else None
            return close(base["cross"].dd.sum_weights.sum_weights2, a["cross"].dd.sum_weights.sum_weights2 + b["cross"].dd.sum_weights.sum_weights2, "sums of weights of the parts")
        attempt("additivity[unknown catalog split into two disjoint parts on the same centres]", additive)

        def additive_ref():
            half = rng.uniform(size=len(ref)) < 0.5
            a = measure(ref[half].reset_index(drop=True), unk, ref_rand, unk_rand, cen)
            b = measure(ref[~half].reset_index(drop=True), unk, ref_rand, unk_rand, cen)
            return close(base["dd"], a["dd"] + b["dd"], "DD counts of the two parts added")
        attempt("additivity[reference catalog split into two disjoint parts on the same centres]", additive_ref)
    finally:
        shutil.rmtree(tmp, ignore_errors=True)
    return out
