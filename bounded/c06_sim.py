"""C06 bounded stand-in: the real dispatcher functions of yaw.utils.parallel on simulated MPI ranks (one thread per rank) with
scripted point-to-point channels: standard-mode sends complete either eagerly (buffered) or synchronously (rendezvous: the
send returns only when the matching receive has taken the message) - both are permitted by the MPI standard; wildcard
receives pick among the available senders in a seeded order.  Small worlds only; labelled bounded, never counted as proved.
Returns a list of (case, ok, detail)."""
from __future__ import annotations

import itertools
import random
import threading
import time


class Deadlock(Exception):
    pass


class World:
    def __init__(self, size, sync, seed):
        self.size, self.sync = size, sync
        self.rng = random.Random(seed)
        self.cv = threading.Condition()
        self.queues = {}            # (src, dst, tag) -> list of [payload, taken_flag]
        self.finished = 0
        self.dead = False
        self.last_progress = time.time()
        self.patience = 1.0
        self.barrier_count = 0
        self.barrier_gen = 0
        self.collectives = {r: [] for r in range(size)}

    def _progress(self):
        self.last_progress = time.time()
        self.cv.notify_all()

    def _wait(self):
        """wait on the condition; a global deadlock is declared when nothing has happened for a while"""
        if self.dead:
            raise Deadlock()
        self.cv.wait(timeout=0.05)
        if self.dead:
            raise Deadlock()
        if time.time() - self.last_progress > self.patience:
            self.dead = True
            self.cv.notify_all()
            raise Deadlock()

    def send(self, src, obj, dest, tag):
        with self.cv:
            entry = [obj, False]
            self.queues.setdefault((src, dest, tag), []).append(entry)
            self._progress()
            if self.sync:
                while not entry[1]:
                    self._wait()

    def recv(self, dst, source, tag):
        with self.cv:
            while True:
                keys = [k for k, q in self.queues.items() if k[1] == dst and k[2] == tag and q and (source == "ANY" or k[0] == source)]
                if keys:
                    k = self.rng.choice(sorted(keys))
                    entry = self.queues[k].pop(0)
                    entry[1] = True
                    self._progress()
                    return entry[0]
                self._wait()

    def barrier(self, rank):
        with self.cv:
            self.collectives[rank].append("Barrier")
            gen = self.barrier_gen
            self.barrier_count += 1
            self._progress()
            if self.barrier_count == self.size:
                self.barrier_count = 0
                self.barrier_gen += 1
                self._progress()
                return
            while gen == self.barrier_gen:
                self._wait()


class Comm:
    def __init__(self, world, rank):
        self.world, self.rank = world, rank

    def Get_rank(self):
        return self.rank

    def Get_size(self):
        return self.world.size

    def send(self, obj, dest, tag=0):
        self.world.send(self.rank, obj, dest, tag)

    def recv(self, source=None, tag=0):
        return self.world.recv(self.rank, "ANY" if source == "ANY" else source, tag)

    def Barrier(self):
        self.world.barrier(self.rank)


def run_world(size, ranks, items, sync, seed, func=lambda x: ("done", x)):
    """runs _mpi_iter_unordered on every simulated rank; returns (status, root results, per-rank errors)"""
    import types
    from yaw.utils import parallel as P
    world = World(size, sync, seed)
    local = threading.local()
    saved = {k: getattr(P, k, None) for k in ("on_root", "on_worker", "get_size", "MPI")}
    had_mpi = hasattr(P, "MPI")
    results, errors = {}, {}

    def rank_main(rank):
        local.rank = rank
        try:
            out = list(P._mpi_iter_unordered(func, list(items), func_args=(), func_kwargs={}, unpack=False, ranks=set(ranks), comm=Comm(world, rank)))
            results[rank] = out
        except Deadlock:
            errors[rank] = "deadlock"
        except Exception as ex:  # noqa: BLE001
            errors[rank] = f"{type(ex).__name__}: {ex}"
        finally:
            with world.cv:
                world.finished += 1
                world._progress()
    P.on_root = lambda *a, **k: local.rank == 0
    P.on_worker = lambda *a, **k: local.rank != 0
    P.get_size = lambda *a, **k: size
    P.MPI = types.SimpleNamespace(ANY_SOURCE="ANY")
    try:
        threads = [threading.Thread(target=rank_main, args=(r,), daemon=True) for r in range(size)]
        for t in threads:
            t.start()
        deadline = time.time() + 10
        for t in threads:
            t.join(max(0.0, deadline - time.time()))
        hung = [t for t in threads if t.is_alive()]
        if hung:
            with world.cv:
                world.dead = True
                world.cv.notify_all()
            for t in hung:
                t.join(1.0)
            return "timeout", results.get(0), errors
    finally:
        for k, v in saved.items():
            if k == "MPI" and not had_mpi:
                if hasattr(P, "MPI"):
                    delattr(P, "MPI")
            else:
                setattr(P, k, v)
    if any(e == "deadlock" for e in errors.values()):
        return "deadlock", results.get(0), errors
    if errors:
        return "error", results.get(0), errors
    return "ok", results.get(0), {r: world.collectives[r] for r in range(size)}


def battery(quick=True):
    out = []
    sizes = (2, 3, 4) if quick else (2, 3, 4, 5)
    nitems = (0, 1, 2, 5) if quick else (0, 1, 2, 3, 5, 9)
    seeds = (0, 1) if quick else (0, 1, 2, 3)
    for size in sizes:
        worker_sets = [set(range(size))]
        if size > 2:
            worker_sets.append(set(range(size - 1)))          # max_workers = size - 1: the last rank is unused
        worker_sets.append({0})                                  # max_workers = 1
        for ranks, n, sync in itertools.product(worker_sets, nitems, (False, True)):
            bad = None
            for seed in seeds:
                status, res, info = run_world(size, ranks, list(range(n)), sync, seed)
                want = sorted(("done", x) for x in range(n))
                if status != "ok":
                    bad = f"{status}: {info}"
                elif sorted(res) != want:
                    bad = f"root got {len(res)} results for {n} tasks"
                elif any(c != ["Barrier"] for c in info.values()):
                    bad = f"collectives differ between ranks: {info}"
                if bad:
                    break
            mw = "all" if len(ranks) == size else len(ranks)
            out.append((f"dispatcher[size={size},max_workers={mw},tasks={n},{'synchronous' if sync else 'eager'} sends]", bad is None, bad or ""))
    return out
