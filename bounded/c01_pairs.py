"""C01 bounded stand-in: autocorrelate / crosscorrelate of the real library against a brute-force evaluation of the
statement (all object pairs, chord distance on the unit sphere), for small catalogs in adversarial layouts.
Labelled bounded - never counted as proved.  Returns a list of (case, ok, detail)."""
from __future__ import annotations

import itertools
import shutil
import tempfile


def battery(quick=True):
    import numpy as np
    import pandas as pd
    import yaw

    rng = np.random.default_rng(101)
    tmp = tempfile.mkdtemp(prefix="yawc01_")
    out = []
    k = [0]

    def target():
        k[0] += 1
        return f"{tmp}/cat{k[0]}"

    def xyz(ra, dec):
        return np.column_stack([np.cos(dec) * np.cos(ra), np.cos(dec) * np.sin(ra), np.sin(dec)])

    def make_cat(df, centres=None):
        kw = dict(ra_name="ra", dec_name="dec", degrees=False, max_workers=1)
        if "w" in df:
            kw["weight_name"] = "w"
        if "z" in df:
            kw["redshift_name"] = "z"
        if centres is None:
            kw["patch_name"] = "pid"
        else:
            kw["patch_centers"] = centres
        return yaw.Catalog.from_dataframe(target(), df, **kw)

    def records(cat):
        """per patch: (xyz, w, z)"""
        res = {}
        for pid in cat.keys():
            d = cat[pid].load_data()
            res[pid] = (xyz(d["ra"], d["dec"]), d["weights"] if "weights" in d.dtype.names else np.ones(len(d)),
                        d["redshifts"] if "redshifts" in d.dtype.names else None)
        return res

    def in_bin(z, lo, hi, closed):
        return (z >= lo) & (z < hi) if closed == "left" else (z > lo) & (z <= hi)

    def fine_bins(amin, amax, rweight, res):
        lims = np.log10(np.column_stack([amin, amax]))
        if rweight is None:
            return 10.0 ** np.unique(lims.flatten())
        return 10.0 ** np.unique(np.concatenate([np.linspace(lims.min(), lims.max(), res + 1), lims.flatten()]))

    def pair_sum(A, B, wa, wb, amin, amax, rweight, res, same):
        """weighted number of pairs with amin < separation <= amax per scale; `same`: A is B, unordered pairs once"""
        ns = len(amin)
        if len(A) == 0 or len(B) == 0:
            return np.zeros(ns)
        chord = np.sqrt(np.maximum(0.0, ((A[:, None, :] - B[None, :, :]) ** 2).sum(axis=2)))
        ww = wa[:, None] * wb[None, :]
        if same:
            iu = np.triu_indices(len(A), 1)
            chord, ww = chord[iu], ww[iu]
        else:
            chord, ww = chord.ravel(), ww.ravel()
        c = lambda ang: 2.0 * np.sin(ang / 2.0)   # noqa: E731
        res_out = np.zeros(ns)
        if rweight is None:
            for s in range(ns):
                res_out[s] = ww[(chord > c(amin[s])) & (chord <= c(amax[s]))].sum()
            return res_out
        edges = fine_bins(amin, amax, rweight, res)
        mids = np.sqrt(edges[:-1] * edges[1:])
        omega = mids ** rweight
        omega = omega / omega.sum()
        for s in range(ns):
            for m in range(len(mids)):
                if edges[m] >= amin[s] * (1 - 1e-12) and edges[m + 1] <= amax[s] * (1 + 1e-12):
                    res_out[s] += omega[m] * ww[(chord > c(edges[m])) & (chord <= c(edges[m + 1]))].sum()
        return res_out

    def expected(config, cat1, cat2, bin2):
        """brute force counts[s][b,i,j], sum_weights1[b,i], sum_weights2[b,j]; cat2 None: autocorrelation of cat1"""
        auto = cat2 is None
        r1 = records(cat1)
        r2 = r1 if auto else records(cat2)
        ids = sorted(r1)
        edges = config.binning.binning.edges
        closed = str(config.binning.binning.closed)
        mids = (edges[:-1] + edges[1:]) / 2
        ns, nb, npatch = config.scales.num_scales, len(mids), len(ids)
        counts = np.zeros((ns, nb, npatch, npatch))
        sw1, sw2 = np.zeros((nb, npatch)), np.zeros((nb, npatch))
        for b in range(nb):
            amin, amax = config.scales.scales.get_angle_radian(mids[b], cosmology=config.cosmology)
            amin, amax = np.atleast_1d(amin), np.atleast_1d(amax)
            sel1 = {i: in_bin(r1[i][2], edges[b], edges[b + 1], closed) for i in ids}
            sel2 = {j: (in_bin(r2[j][2], edges[b], edges[b + 1], closed) if bin2 else np.ones(len(r2[j][0]), dtype=bool)) for j in ids}
            for i in ids:
                sw1[b, i] = r1[i][1][sel1[i]].sum()
                sw2[b, i] = r2[i][1][sel2[i]].sum()
            for i, j in itertools.product(ids, ids):
                if auto and j < i:
                    continue
                counts[:, b, i, j] = pair_sum(r1[i][0][sel1[i]], r2[j][0][sel2[j]], r1[i][1][sel1[i]], r2[j][1][sel2[j]], amin, amax,
                                              config.scales.rweight, config.scales.resolution, same=(auto and i == j))
        return counts, sw1, sw2

    def compare(nc_list, exp, what):
        counts, sw1, sw2 = exp
        for s, nc in enumerate(nc_list):
            got = nc.counts.counts
            if got.shape != counts[s].shape:
                return f"{what}: counts of scale {s} have shape {got.shape} instead of {counts[s].shape}"
            if not np.allclose(got, counts[s], rtol=1e-9, atol=1e-9):
                bad = np.argwhere(~np.isclose(got, counts[s], rtol=1e-9, atol=1e-9))[0]
                return (f"{what}: scale {s} bin {bad[0]} patches ({bad[1]},{bad[2]}): {got[tuple(bad)]!r} instead of {counts[s][tuple(bad)]!r}"
                        f" (total {got.sum()!r} vs {counts[s].sum()!r})")
            if not np.allclose(nc.sum_weights.sum_weights1, sw1, rtol=1e-12, atol=1e-12) or not np.allclose(nc.sum_weights.sum_weights2, sw2, rtol=1e-12, atol=1e-12):
                return f"{what}: sums of weights differ from the true per-bin per-patch sums"
        return True

    def run_auto(config, data, rand):
        cfs = yaw.autocorrelate(config, data, rand, count_rr=True, max_workers=1)
        for what, lst, exp in (("DD", [c.dd for c in cfs], expected(config, data, None, True)),
                               ("DR", [c.dr for c in cfs], expected(config, data, rand, True)),
                               ("RR", [c.rr for c in cfs], expected(config, rand, None, True))):
            r = compare(lst, exp, what)
            if r is not True:
                return r
        return True

    def run_cross(config, ref, unk, ref_rand, unk_rand):
        cfs = yaw.crosscorrelate(config, ref, unk, ref_rand=ref_rand, unk_rand=unk_rand, max_workers=1)
        checks = [("DD", [c.dd for c in cfs], (ref, unk))]
        if unk_rand is not None:
            checks.append(("DR", [c.dr for c in cfs], (ref, unk_rand)))
        if ref_rand is not None:
            checks.append(("RD", [c.rd for c in cfs], (ref_rand, unk)))
        if ref_rand is not None and unk_rand is not None:
            checks.append(("RR", [c.rr for c in cfs], (ref_rand, unk_rand)))
        for what, lst, (a, b) in checks:
            r = compare(lst, expected(config, a, b, False), what)
            if r is not True:
                return r
        return True

    def attempt(name, fn):
        try:
            r = fn()
        except Exception as ex:  # noqa: BLE001
            import traceback
            out.append((name, False, f"raised {type(ex).__name__}: {ex} | {traceback.format_exc(limit=3)[-300:]}"))
            return
        out.append((name, r is True, "" if r is True else str(r)))

    def points(n, ra0, dec0, extent, zlo=0.05, zhi=1.2, weights=True):
        """n points in a cap of `extent` radian around (ra0, dec0) (tangent-plane offsets, fine for small caps and poles)"""
        c = xyz(np.array([ra0]), np.array([dec0]))[0]
        e1 = np.cross(c, [0.0, 0.0, 1.0] if abs(c[2]) < 0.9 else [1.0, 0.0, 0.0])
        e1 /= np.linalg.norm(e1)
        e2 = np.cross(c, e1)
        r = extent * np.sqrt(rng.uniform(0, 1, n))
        phi = rng.uniform(0, 2 * np.pi, n)
        v = c[None, :] * np.cos(r)[:, None] + (e1[None, :] * np.cos(phi)[:, None] + e2[None, :] * np.sin(phi)[:, None]) * np.sin(r)[:, None]
        ra = np.arctan2(v[:, 1], v[:, 0]) % (2 * np.pi)
        dec = np.arcsin(np.clip(v[:, 2], -1, 1))
        d = dict(ra=ra, dec=dec, z=rng.uniform(zlo, zhi, n))
        if weights:
            d["w"] = rng.uniform(0.5, 2.0, n)
        return pd.DataFrame(d)

    def patched(layout, n_per, extent, **kw):
        """layout: list of patch centres (ra, dec); n_per: objects per patch (int or list)"""
        parts = []
        for pid, (ra0, dec0) in enumerate(layout):
            n = n_per if isinstance(n_per, int) else n_per[pid]
            ext = extent if not isinstance(extent, (list, tuple)) else extent[pid]
            parts.append(points(n, ra0, dec0, ext, **kw).assign(pid=pid))
        return pd.concat(parts, ignore_index=True)

    try:
        deg = np.pi / 180
        layouts = {
            "equator": [(10 * deg, 0.0), (12 * deg, 0.5 * deg), (14.5 * deg, -0.5 * deg), (30 * deg, 10 * deg)],
            "ra_wrap": [(359.2 * deg, 1 * deg), (0.8 * deg, -1 * deg), (2.5 * deg, 0.5 * deg)],
            "north_pole": [(0.0, 89.6 * deg), (120 * deg, 88.9 * deg), (240 * deg, 88.7 * deg)],
            "south_pole": [(40 * deg, -89.5 * deg), (200 * deg, -88.8 * deg)],
        }
        configs = {
            "kpc_1scale": dict(rmin=500.0, rmax=5000.0, unit="kpc", zmin=0.1, zmax=1.2, num_bins=3),
            "two_scales_right": dict(rmin=[200.0, 1000.0], rmax=[3000.0, 8000.0], unit="kpc", zmin=0.1, zmax=1.2, num_bins=2, closed="right"),
            "arcmin": dict(rmin=[5.0, 20.0], rmax=[40.0, 90.0], unit="arcmin", zmin=0.05, zmax=1.2, num_bins=4),
            "weighted": dict(rmin=500.0, rmax=6000.0, unit="kpc", rweight=-1.0, resolution=5, zmin=0.1, zmax=1.2, num_bins=2),
            "weighted_2scales": dict(rmin=[300.0, 2000.0], rmax=[2500.0, 9000.0], unit="kpc", rweight=0.5, resolution=7, zmin=0.1, zmax=1.2, num_bins=2),
            "Mpc_h_empty_bins": dict(rmin=0.5, rmax=4.0, unit="Mpc/h", zmin=0.1, zmax=3.0, num_bins=5),
        }
        sel = [("equator", "kpc_1scale"), ("ra_wrap", "two_scales_right"), ("north_pole", "arcmin"), ("south_pole", "weighted"),
               ("equator", "weighted_2scales"), ("ra_wrap", "Mpc_h_empty_bins")]
        if not quick:
            sel = list(itertools.product(layouts, configs))
        for lay, cfgname in sel:
            cfg = yaw.Configuration.create(**configs[cfgname])
            L = layouts[lay]
            n = 30 if quick else 40
            data = patched(L, n, 1.2 * deg)
            rand = patched(L, n + 10, 1.2 * deg)
            cen = None

            def auto_case(cfg=cfg, data=data, rand=rand):
                d = make_cat(data)
                r = make_cat(rand, centres=d)
                return run_auto(cfg, d, r)
            attempt(f"autocorrelate[{lay},{cfgname}]", auto_case)

            def cross_case(cfg=cfg, data=data, rand=rand, L=L, n=n):
                ref = make_cat(data)
                unk = make_cat(patched(L, n, 1.5 * deg, weights=False).drop(columns="z"), centres=ref)
                rr = make_cat(rand, centres=ref)
                ur = make_cat(patched(L, n, 1.5 * deg).drop(columns="z"), centres=ref)
                return run_cross(cfg, ref, unk, rr, ur)
            attempt(f"crosscorrelate[{lay},{cfgname}]", cross_case)

        # redshifts exactly on the bin edges: the closed side decides the bin (and whether zmin / zmax belong to the binning)
        def on_edges(closed):
            L = layouts["equator"]
            edges = np.array([0.1, 0.2, 0.3, 0.4])
            data = patched(L, 30, 1.2 * deg, zlo=0.05, zhi=0.45)
            rand = patched(L, 40, 1.2 * deg, zlo=0.05, zhi=0.45)
            for d_ in (data, rand):
                d_.loc[d_.index[::3], "z"] = rng.choice(edges, size=len(d_.index[::3]))
            cfg = yaw.Configuration.create(rmin=5.0, rmax=60.0, unit="arcmin", edges=edges, closed=closed)
            d = make_cat(data)
            r = make_cat(rand, centres=d)
            res = run_auto(cfg, d, r)
            if res is not True:
                return res
            unk = make_cat(patched(L, 30, 1.5 * deg, weights=False).drop(columns="z"), centres=d)
            return run_cross(cfg, d, unk, r, None)
        for closed in ("left", "right"):
            attempt(f"auto+crosscorrelate[redshifts on the bin edges, closed={closed}]", lambda closed=closed: on_edges(closed))

        # two patches that cover the whole sky (hemispheres around antipodal centres) and scales up to 100 degrees: patch radius +
        # patch radius + largest angle exceeds pi, where chord lengths stop growing with the angle
        def hemispheres():
            L = [(20 * deg, 5 * deg), (200 * deg, -5 * deg)]
            data = patched(L, 30, 0.5 * np.pi)
            rand = patched(L, 40, 0.5 * np.pi)
            cfg = yaw.Configuration.create(rmin=[600.0, 3000.0], rmax=[6000.0, 9000.0], unit="arcmin", zmin=0.05, zmax=1.2, num_bins=2)
            d = make_cat(data)
            r = make_cat(rand, centres=d)
            res = run_auto(cfg, d, r)
            if res is not True:
                return res
            unk = make_cat(patched(L, 30, 0.5 * np.pi, weights=False).drop(columns="z"), centres=d)
            return run_cross(cfg, d, unk, r, None)
        attempt("auto+crosscorrelate[two hemispheres, scales up to 150 degrees]", hemispheres)

        # given centres with the objects of a patch sitting off-centre (a clump at the border): the stored radius must be measured
        # around the stored (given) centre, otherwise the neighbouring patch is pruned although it holds pairs
        def off_centre():
            cen = np.array([[10.0, 0.0], [12.0, 0.0], [14.0, 0.0]]) * deg
            centres = yaw.AngularCoordinates(cen)

            def clumped(n):
                a = points(n, 10.85 * deg, 0.0, 0.12 * deg)            # patch 0: clump near the border to patch 1
                b = points(n, 11.25 * deg, 0.0, 0.12 * deg)            # patch 1: clump near the border to patch 0
                c = points(n, 14.0 * deg, 0.0, 0.5 * deg)
                return pd.concat([a, b, c], ignore_index=True)
            data, rand = clumped(30), clumped(40)
            kw = dict(ra_name="ra", dec_name="dec", degrees=False, max_workers=1, weight_name="w", redshift_name="z", patch_centers=centres)
            d = yaw.Catalog.from_dataframe(target(), data, **kw)
            r = yaw.Catalog.from_dataframe(target(), rand, **kw)
            cfg = yaw.Configuration.create(rmin=5.0, rmax=40.0, unit="arcmin", zmin=0.05, zmax=1.2, num_bins=2)
            return run_auto(cfg, d, r)
        attempt("autocorrelate[given centres, objects clumped off-centre at the patch border]", off_centre)

        # single-object patches and a patch without objects in any bin
        def singles():
            L = layouts["equator"]
            # centres are given by the data catalog: keep every random point nearest to its own centre (0.3 + 0.6 < half the
            # smallest centre separation), otherwise a centre without objects makes the creation fail - correctly
            data = patched(L, [1, 1, 25, 1], 0.3 * deg)
            rand = patched(L, [20, 1, 20, 20], 0.6 * deg)
            rand.loc[rand.pid == 3, "z"] = 2.5          # patch 3 of the randoms lies outside every bin
            d = make_cat(data)
            r = make_cat(rand, centres=d)
            return run_auto(yaw.Configuration.create(**configs["kpc_1scale"]), d, r)
        attempt("autocorrelate[single-object patches, patch outside the binning]", singles)

        # pruning 1: the link angle must cover the angle used for the lowest bin (angles are taken at bin centres; the angle of
        # a physical scale is not monotone in z at low z together with max(zmin, 0.05))
        def low_z():
            L = [(10 * deg, 0.0), (10.75 * deg, 0.0), (11.5 * deg, 0.3 * deg), (12.3 * deg, 0.0)]
            data = patched(L, 40, 0.15 * deg, zlo=0.011, zhi=0.05)
            rand = patched(L, 40, 0.15 * deg, zlo=0.011, zhi=0.05)
            cfg = yaw.Configuration.create(rmin=100.0, rmax=1000.0, unit="kpc", zmin=0.01, zmax=0.05, num_bins=2)
            d = make_cat(data)
            r = make_cat(rand, centres=d)
            return run_auto(cfg, d, r)
        attempt("autocorrelate[bin centres below z=0.05: the angle of a physical scale grows towards z=0]", low_z)

        def high_z():
            L = [(10 * deg, 0.0), (10.22 * deg, 0.0), (10.44 * deg, 0.1 * deg)]
            data = patched(L, 40, 0.04 * deg, zlo=1.0, zhi=6.0)
            rand = patched(L, 40, 0.04 * deg, zlo=1.0, zhi=6.0)
            cfg = yaw.Configuration.create(rmin=500.0, rmax=4000.0, unit="kpc", zmin=1.0, zmax=6.0, num_bins=5)
            d = make_cat(data)
            r = make_cat(rand, centres=d)
            return run_auto(cfg, d, r)
        attempt("autocorrelate[bins up to z=6: the angle of a physical scale grows again beyond z~1.6]", high_z)

        # pruning 2: a dense-compact sample and a sparse-wide sample on the same centres
        def dense_sparse():
            L = [(10 * deg, 0.0), (12.2 * deg, 0.0), (14.4 * deg, 0.0)]
            ref = patched(L, 60, 0.25 * deg)                      # dense, compact: defines small radii
            unk = patched(L, 25, 1.05 * deg, weights=False).drop(columns="z")   # sparse, wide
            cfg = yaw.Configuration.create(rmin=10.0, rmax=80.0, unit="arcmin", zmin=0.3, zmax=1.2, num_bins=2)
            r = make_cat(ref)
            u = make_cat(unk, centres=r)
            rr = make_cat(patched(L, 60, 0.25 * deg), centres=r)
            return run_cross(cfg, r, u, rr, None)
        attempt("crosscorrelate[dense-compact reference x sparse-wide unknown on the same patches]", dense_sparse)
    finally:
        shutil.rmtree(tmp, ignore_errors=True)
    return out


def iter_pairs_exhaustive(max_n=5):
    """PatchLinkage.iter_patch_id_pairs on every symmetric, reflexive link graph with up to max_n patches (both modes):
    every (i, i) once, every linked pair once (auto: once as (min, max)), nothing else.  Returns (evaluated, failures)."""
    import itertools
    from collections import Counter
    from yaw.correlation.measurements import PatchLinkage
    fails, count = [], 0
    for n in range(1, max_n + 1):
        pairs = list(itertools.combinations(range(n), 2))
        for mask in range(1 << len(pairs)):
            links = {i: {i} for i in range(n)}
            for k, (i, j) in enumerate(pairs):
                if mask >> k & 1:
                    links[i].add(j)
                    links[j].add(i)
            for auto in (False, True):
                count += 1
                pl = PatchLinkage.__new__(PatchLinkage)
                pl.patch_links = {i: set(s) for i, s in links.items()}
                try:
                    got = Counter(pl.iter_patch_id_pairs(auto=auto))
                except Exception as ex:  # noqa: BLE001
                    fails.append(f"n={n} links={links} auto={auto}: raised {type(ex).__name__}: {ex}")
                    continue
                want = Counter((i, i) for i in range(n))
                for i in range(n):
                    for j in links[i]:
                        if i != j and (not auto or i < j):
                            want[(i, j)] += 1
                if got != want:
                    fails.append(f"n={n} links={links} auto={auto}: emitted {sorted(got.elements())} instead of {sorted(want.elements())}")
                if pl.patch_links != links:
                    fails.append(f"n={n} auto={auto}: the linkage itself was modified")
                if len(fails) > 5:
                    return count, fails
    return count, fails
