"""Bounded stand-in for C09 (run as a subprocess per worker count, under a watchdog):
real Catalog.from_dataframe with every fault of the statement at the first / middle / last chunk.
Prints one JSON line per case: {"case":..., "outcome": "raised:<Type>" | "returned", "opens_afterwards": bool, "untouched": bool}"""
import json
import os
import shutil
import signal
import sys
import tempfile

import numpy as np
import pandas as pd

nthreads = sys.argv[1]
os.environ["YAW_NUM_THREADS"] = nthreads
import yaw  # noqa: E402
from yaw import AngularCoordinates, Catalog  # noqa: E402

CASE_TIMEOUT = 20
tmp = tempfile.mkdtemp(prefix="c09bounded")
rng = np.random.default_rng(9)
n, chunk = 600, 100
base = pd.DataFrame(dict(ra=rng.uniform(0, 20, n), dec=rng.uniform(-5, 5, n), z=rng.uniform(0.1, 1, n), w=rng.uniform(0.5, 2, n),
                         pid=np.repeat(np.arange(4), n // 4)))
kw = dict(ra_name="ra", dec_name="dec", redshift_name="z", weight_name="w", chunksize=chunk)
where = {"first": 5, "middle": 305, "last": 595}


def listing(path):
    out = []
    for r, d, f in os.walk(path):
        for x in f:
            p = os.path.join(r, x)
            out.append((os.path.relpath(p, path), os.path.getsize(p)))
    return sorted(out)


def attempt(name, make, target=None, prepare=None, expect_ok=False):
    target = target or f"{tmp}/{name.replace(' ', '_').replace('/', '_')}"
    before = None
    if prepare:
        prepare(target)
        before = listing(target)
    def on_alarm(signum, frame):
        raise TimeoutError("watchdog: no result within the time limit")
    signal.signal(signal.SIGALRM, on_alarm)
    signal.alarm(CASE_TIMEOUT)
    try:
        cat = make(target)
        outcome = "returned"
        nrec = int(sum(cat.get_num_records()))
    except TimeoutError:
        outcome, nrec = "HANG", None
    except BaseException as e:  # noqa: BLE001
        outcome, nrec = f"raised:{type(e).__name__}", None
    finally:
        signal.alarm(0)
    if outcome == "HANG":
        # leftover worker / writer processes of the hung call
        import multiprocessing
        for ch in multiprocessing.active_children():
            ch.kill()
    opens = None
    try:
        c2 = Catalog(target)
        opens = int(sum(c2.get_num_records()))
    except Exception:  # noqa: BLE001
        opens = None
    untouched = (listing(target) == before) if before is not None else None
    print(json.dumps(dict(case=name, threads=nthreads, outcome=outcome, records=nrec, opens_afterwards_with_records=opens,
                          untouched=untouched, expect_ok=expect_ok)), flush=True)


for pos, row in where.items():
    for col, val, label in (("ra", np.nan, "NaN"), ("dec", np.inf, "inf"), ("w", -np.inf, "-inf weight"), ("z", np.nan, "NaN redshift")):
        df = base.copy()
        df.loc[row, col] = val
        attempt(f"{label} in {pos} chunk", lambda t, df=df: Catalog.from_dataframe(t, df, patch_name="pid", **kw))
    for bad in (-1, 32768, 40000, 65536, 65539, 1000000):
        df = base.copy()
        df.loc[row, "pid"] = bad
        attempt(f"patch index {bad} in {pos} chunk", lambda t, df=df: Catalog.from_dataframe(t, df, patch_name="pid", **kw))
attempt("missing column", lambda t: Catalog.from_dataframe(t, base.drop(columns=["w"]), patch_name="pid", **kw))
attempt("missing patch column", lambda t: Catalog.from_dataframe(t, base, patch_name="nope", **kw))
attempt("no patch method", lambda t: Catalog.from_dataframe(t, base, **kw))
cen_far = AngularCoordinates(np.deg2rad([[5.0, 0.0], [15.0, 0.0], [200.0, 60.0]]))
attempt("centre without objects", lambda t: Catalog.from_dataframe(t, base, patch_centers=cen_far, **kw))


def make_catalog(t):
    Catalog.from_dataframe(t, base.iloc[:200], patch_name="pid", **kw)


def make_precious(t):
    os.makedirs(t)
    open(t + "/thesis.tex", "w").write("precious")


def make_file(t):
    open(t, "w").write("a file")


attempt("existing catalog without overwrite", lambda t: Catalog.from_dataframe(t, base, patch_name="pid", **kw), prepare=make_catalog)
attempt("existing other directory with overwrite", lambda t: Catalog.from_dataframe(t, base, patch_name="pid", overwrite=True, **kw), prepare=make_precious)
attempt("existing other directory without overwrite", lambda t: Catalog.from_dataframe(t, base, patch_name="pid", **kw), prepare=make_precious)
attempt("unusable location (parent missing)", lambda t: Catalog.from_dataframe(t + "/a/b", base, patch_name="pid", **kw))
attempt("valid input", lambda t: Catalog.from_dataframe(t, base, patch_name="pid", **kw), expect_ok=True)
attempt("valid input overwriting a catalog", lambda t: Catalog.from_dataframe(t, base, patch_name="pid", overwrite=True, **kw), prepare=make_catalog, expect_ok=True)
shutil.rmtree(tmp, ignore_errors=True)
print(json.dumps(dict(done=True, threads=nthreads)), flush=True)
