"""C02 bounded stand-in: catalogs created by the real library from data frames, FITS/HDF5/Parquet files and random
generators; the records found in the patch caches are compared with the input as multisets (weights/redshifts
bit-identical, coordinates within 2 ulp of the radian value), per patch where the patch of a record is determined by
the input.  Labelled bounded - never counted as proved.  Returns a list of (case, ok, detail)."""
from __future__ import annotations

import itertools
import shutil
import tempfile


def _rows(arrs):
    import numpy as np
    a = np.column_stack(arrs) if len(arrs) > 1 else np.asarray(arrs[0])[:, None]
    return a[np.lexsort(a.T[::-1])]


def battery(quick=True):
    import numpy as np
    import pandas as pd
    import yaw
    from yaw.randoms import BoxRandoms

    rng = np.random.default_rng(2)
    tmp = tempfile.mkdtemp(prefix="yawc02_")
    out = []
    centres_deg = np.array([[5.0, -5.0], [35.0, 5.0], [15.0, 6.0], [25.0, -4.0]])
    centres = yaw.AngularCoordinates(np.deg2rad(centres_deg))

    def make_df(n):
        df = pd.DataFrame(dict(ra=rng.uniform(0, 40, n), dec=rng.uniform(-10, 10, n), z=rng.uniform(0.01, 2.0, n),
                               w=rng.uniform(0.5, 2.0, n), pid=rng.integers(0, 4, n).astype(np.int64)))
        if n >= 4:
            df.loc[:3, "pid"] = [0, 1, 2, 3]
            df.loc[:3, "ra"], df.loc[:3, "dec"] = centres_deg[:, 0], centres_deg[:, 1]
        else:
            df["pid"] = np.arange(n)
            df["ra"], df["dec"] = centres_deg[:n, 0], centres_deg[:n, 1]
        return df

    def nearest(df, cen):
        co = yaw.AngularCoordinates(np.deg2rad(df[["ra", "dec"]].to_numpy()))
        d = np.array([co.distance(cen[k]).data for k in range(len(cen))])
        return np.argmin(d, axis=0)

    def compare(cat, df, cols, expect_pid, reopen=True):
        """cols: names of the optional columns given; expect_pid: array of the patch every input row must be in, or None"""
        want_fields = ["ra", "dec"] + (["weights"] if "w" in cols else []) + (["redshifts"] if "z" in cols else [])
        src = {"ra": np.deg2rad(df.ra.to_numpy()), "dec": np.deg2rad(df.dec.to_numpy()), "weights": df.w.to_numpy(), "redshifts": df.z.to_numpy()}
        views = [("created", cat)]
        if reopen:
            views.append(("reopened", yaw.Catalog(cat.cache_directory)))
        for label, c in views:
            total = 0
            pids = sorted(c.keys())
            if expect_pid is not None and pids != sorted(set(int(p) for p in expect_pid)):
                return f"{label}: patch ids {pids} instead of {sorted(set(int(p) for p in expect_pid))}"
            for pid in pids:
                d = c[pid].load_data()
                if list(d.dtype.names) != want_fields:
                    return f"{label}: patch {pid} has fields {d.dtype.names} instead of {want_fields}"
                total += len(d)
                if expect_pid is None:
                    continue
                sel = np.asarray(expect_pid) == pid
                got, want = _rows([d[f] for f in want_fields]), _rows([src[f][sel] for f in want_fields])
                if got.shape != want.shape:
                    return f"{label}: patch {pid} holds {len(got)} records instead of {len(want)}"
                for k, f in enumerate(want_fields):
                    if f in ("ra", "dec"):
                        if not np.all(np.abs(got[:, k] - want[:, k]) <= 2 * np.spacing(np.abs(want[:, k]))):
                            return f"{label}: patch {pid}: {f} differs from the radian value of the input by more than rounding"
                    elif not np.array_equal(got[:, k], want[:, k]):
                        return f"{label}: patch {pid}: {f} not bit-identical to the input"
            if expect_pid is None:
                alld = np.concatenate([c[pid].load_data() for pid in pids])
                got, want = _rows([alld[f] for f in want_fields]), _rows([src[f] for f in want_fields])
                if got.shape != want.shape:
                    return f"{label}: {len(got)} records stored instead of {len(want)}"
                if not np.all(np.abs(got - want) <= 2 * np.spacing(np.abs(want))):
                    return f"{label}: the stored records are not the input records"
            elif total != len(df):
                return f"{label}: {total} records stored instead of {len(df)}"
        return True

    def attempt(name, fn):
        try:
            r = fn()
        except Exception as ex:  # noqa: BLE001
            out.append((name, False, f"raised {type(ex).__name__}: {ex}"))
            return
        out.append((name, r is True, "" if r is True else str(r)))

    k = [0]

    def target():
        k[0] += 1
        return f"{tmp}/cat{k[0]}"

    try:
        # ---- data frames: lengths around multiples of the chunk size -------------------------------
        lens_for = lambda c: sorted({max(1, c - 1), c, c + 1, 2 * c, 2 * c + 1, 3 * c - 1})   # noqa: E731
        chunks = (1, 2, 7, 64) if not quick else (1, 7, 64)
        colsets = [(), ("w",), ("z",), ("w", "z")]
        for c in chunks:
            for n in lens_for(c):
                if n < 4:
                    continue
                df = make_df(n)
                for mode in ("ids", "centres", "centres+ids"):
                    for cols in (colsets if (not quick or (c, mode) == (7, "ids")) else [("w", "z")]):
                        kw = dict(ra_name="ra", dec_name="dec", chunksize=c, max_workers=1)
                        if "w" in cols:
                            kw["weight_name"] = "w"
                        if "z" in cols:
                            kw["redshift_name"] = "z"
                        if mode in ("ids", "centres+ids"):
                            kw["patch_name"] = "pid"
                        if mode in ("centres", "centres+ids"):
                            kw["patch_centers"] = centres
                            if mode == "centres+ids":
                                kw.pop("patch_name")      # only one patch method is accepted by the public interface
                                continue
                        expect = df.pid.to_numpy() if mode == "ids" else nearest(df, centres)
                        attempt(f"dataframe[n={n},chunk={c},{mode},cols={'+'.join(cols) or 'none'}]",
                                lambda df=df, kw=kw, cols=cols, expect=expect: compare(yaw.Catalog.from_dataframe(target(), df, **kw), df, cols, expect))
        # progress display on: nothing that is stored may change
        dfp = make_df(200)
        for workers in (1, 2):
            attempt(f"dataframe[n=200,chunk=64,progress=True,workers={workers}]",
                    lambda workers=workers: compare(yaw.Catalog.from_dataframe(target(), dfp, ra_name="ra", dec_name="dec", weight_name="w", patch_name="pid", chunksize=64,
                                                                               max_workers=workers, progress=True), dfp, ("w",), dfp.pid.to_numpy()))
        # patch_num: centres are generated; only the union can be compared
        df = make_df(500)
        attempt("dataframe[n=500,chunk=64,patch_num=5]",
                lambda: compare(yaw.Catalog.from_dataframe(target(), df, ra_name="ra", dec_name="dec", weight_name="w", patch_num=5, chunksize=64, max_workers=1,
                                                           probe_size=200), df, ("w",), None))
        # radian input is stored unchanged
        def radian():
            d2 = df.assign(ra=np.deg2rad(df.ra), dec=np.deg2rad(df.dec))
            cat = yaw.Catalog.from_dataframe(target(), d2, ra_name="ra", dec_name="dec", patch_name="pid", degrees=False, chunksize=100, max_workers=1)
            for pid in cat.keys():
                d = cat[pid].load_data()
                sel = d2[d2.pid == pid]
                if not np.array_equal(_rows([d["ra"], d["dec"]]), _rows([sel.ra.to_numpy(), sel.dec.to_numpy()])):
                    return f"patch {pid}: radian coordinates not bit-identical"
            return True
        attempt("dataframe[radian input]", radian)
        # dtypes castable to float
        def dtypes():
            d2 = pd.DataFrame(dict(ra=np.arange(0, 40, dtype=np.int32), dec=np.arange(-20, 20).astype(np.float32), w=np.arange(1, 41, dtype=np.int64),
                                   z=np.linspace(0.1, 1, 40).astype(np.float32), pid=(np.arange(40) % 3).astype(np.uint8)))
            cat = yaw.Catalog.from_dataframe(target(), d2, ra_name="ra", dec_name="dec", weight_name="w", redshift_name="z", patch_name="pid", chunksize=7, max_workers=1)
            return compare(cat, d2.astype(dict(ra=float, dec=float, w=float, z=float)), ("w", "z"), d2.pid.to_numpy())
        attempt("dataframe[int32/float32/int64/uint8 columns]", dtypes)

        # ---- workers: the per-patch multisets do not depend on the number of workers ----------------
        df = make_df(777)
        for workers, c in ([(2, 100), (4, 64)] if quick else [(2, 1000), (2, 100), (3, 50), (4, 64), (4, 7)]):
            attempt(f"dataframe[n=777,chunk={c},workers={workers},ids]",
                    lambda workers=workers, c=c: compare(yaw.Catalog.from_dataframe(target(), df, ra_name="ra", dec_name="dec", weight_name="w", redshift_name="z",
                                                                                   patch_name="pid", chunksize=c, max_workers=workers), df, ("w", "z"), df.pid.to_numpy()))
            attempt(f"dataframe[n=777,chunk={c},workers={workers},centres]",
                    lambda workers=workers, c=c: compare(yaw.Catalog.from_dataframe(target(), df, ra_name="ra", dec_name="dec", weight_name="w",
                                                                                   patch_centers=centres, chunksize=c, max_workers=workers), df, ("w",), nearest(df, centres)))

        # ---- files -----------------------------------------------------------------------------------
        df = make_df(333)
        paths = {}
        try:
            import pyarrow as pa
            import pyarrow.parquet as pq
            paths["parquet"] = f"{tmp}/in.parquet"
            pq.write_table(pa.Table.from_pandas(df), paths["parquet"], row_group_size=50)
        except Exception:  # noqa: BLE001
            pass
        try:
            import h5py
            paths["hdf5"] = f"{tmp}/in.hdf5"
            with h5py.File(paths["hdf5"], "w") as f:
                for col in df.columns:
                    f.create_dataset(col, data=df[col].to_numpy())
        except Exception:  # noqa: BLE001
            pass
        try:
            from astropy.table import Table
            paths["fits"] = f"{tmp}/in.fits"
            Table.from_pandas(df).write(paths["fits"])
        except Exception:  # noqa: BLE001
            pass
        for fmt, pth in paths.items():
            for c in ((1, 49, 50, 51, 332, 333, 334, 100000) if not quick else (49, 51, 333)):
                if c == 1 and fmt != "hdf5":
                    continue
                attempt(f"file[{fmt},n=333,chunk={c},ids]",
                        lambda pth=pth, c=c: compare(yaw.Catalog.from_file(target(), pth, ra_name="ra", dec_name="dec", weight_name="w", redshift_name="z",
                                                                           patch_name="pid", chunksize=c, max_workers=1), df, ("w", "z"), df.pid.to_numpy()))
            attempt(f"file[{fmt},n=333,chunk=40,centres,workers=2]",
                    lambda pth=pth: compare(yaw.Catalog.from_file(target(), pth, ra_name="ra", dec_name="dec", redshift_name="z", patch_centers=centres, chunksize=40,
                                                                  max_workers=2), df, ("z",), nearest(df, centres)))
        # radian input from files is stored unchanged (degrees=False must reach every reader)
        df_rad = df.assign(ra=np.deg2rad(df.ra), dec=np.deg2rad(df.dec))
        rad_paths = {}
        try:
            rad_paths["parquet"] = f"{tmp}/in_rad.parquet"
            pq.write_table(pa.Table.from_pandas(df_rad), rad_paths["parquet"], row_group_size=50)
            rad_paths["hdf5"] = f"{tmp}/in_rad.hdf5"
            with h5py.File(rad_paths["hdf5"], "w") as f:
                for col in df_rad.columns:
                    f.create_dataset(col, data=df_rad[col].to_numpy())
            rad_paths["fits"] = f"{tmp}/in_rad.fits"
            Table.from_pandas(df_rad).write(rad_paths["fits"])
        except Exception:  # noqa: BLE001
            pass

        def radian_file(pth):
            cat = yaw.Catalog.from_file(target(), pth, ra_name="ra", dec_name="dec", weight_name="w", patch_name="pid", degrees=False, chunksize=100, max_workers=1)
            for pid in cat.keys():
                d = cat[pid].load_data()
                sel = df_rad[df_rad.pid == pid]
                if not np.array_equal(_rows([d["ra"], d["dec"]]), _rows([sel.ra.to_numpy(), sel.dec.to_numpy()])):
                    return f"patch {pid}: radian coordinates were changed"
            return True
        for fmt, pth in rad_paths.items():
            attempt(f"file[{fmt},radian input]", lambda pth=pth: radian_file(pth))
        if len(paths) < 3:
            out.append(("file sources available", False, f"only {sorted(paths)} could be written in this environment"))

        # ---- random generator ----------------------------------------------------------------------
        def random_source(chunks, workers):
            res = []
            for c in chunks:
                gen = BoxRandoms(0, 40, -10, 10, weights=np.linspace(1, 2, 50), redshifts=np.linspace(0.1, 1, 50), seed=12345)
                cat = yaw.Catalog.from_random(target(), gen, 1000, patch_centers=centres, chunksize=c, max_workers=workers)
                alld = np.concatenate([cat[p].load_data() for p in sorted(cat.keys())])
                if len(alld) != 1000:
                    return f"chunk={c}: {len(alld)} records instead of 1000"
                for p in cat.keys():
                    d = cat[p].load_data()
                    co = yaw.AngularCoordinates(np.column_stack([d["ra"], d["dec"]]))
                    dist = np.array([co.distance(centres[q]).data for q in range(4)])
                    if not np.all(np.argmin(dist, axis=0) == p):
                        return f"chunk={c}: patch {p} holds records nearer to another centre"
                res.append(_rows([alld[f] for f in alld.dtype.names]))
            for a in res[1:]:
                if a.shape != res[0].shape or not np.array_equal(a, res[0]):
                    return "differs"
            return True
        attempt("random[1000 points, same chunk size, workers 1 vs 2]", lambda: (random_source([250], 1) is True and random_source([250], 2) is True) or "failed")

        def random_chunks():
            r = random_source([300, 1000], 1)
            return True if r is True else ("the generated records depend on the chunk size (same seed, chunksize 300 vs 1000)" if r == "differs" else r)
        attempt("random[chunk size independence]", random_chunks)
    finally:
        shutil.rmtree(tmp, ignore_errors=True)
    return out
