"""Bounded stand-in for C18 on the real library: every reader over real sources (data frame, HDF5, FITS, Parquet with uniform
and non-uniform row groups, random generator), several sizes and chunk sizes, two passes each: the chunks of a pass are the
input cut at multiples of the chunk size, in order, each record once, no chunk longer than the chunk size; the Parquet reader
asks for every row group exactly once per pass.  Labelled bounded, never counted as proved."""
from __future__ import annotations

import os
import shutil
import tempfile


def battery(quick=True):
    import numpy as np
    import pandas as pd
    import h5py
    import pyarrow as pa
    from pyarrow import parquet
    from astropy.io import fits
    import yaw  # noqa: F401
    from yaw.catalog import readers as R
    from yaw.randoms import BoxRandoms

    tmp = tempfile.mkdtemp(prefix="yawc18_")
    out = []
    rng = np.random.default_rng(18)

    def frame(n):
        return pd.DataFrame(dict(ra=np.arange(n, dtype="f8") * 0.25 % 360.0, dec=rng.uniform(-60, 60, n), z=rng.uniform(0.1, 1.0, n), w=rng.uniform(0.5, 2.0, n)))

    def one_pass(reader, n, c, what):
        ras, lens = [], []
        for chunk in reader:
            d = chunk
            lens.append(len(d))
            ras.append(np.rad2deg(np.asarray(d["ra"], dtype="f8")))
        want_lens = [c] * (n // c) + ([n % c] if n % c else [])
        if lens != want_lens:
            return f"{what}: chunk lengths {lens[:8]}{'...' if len(lens) > 8 else ''} (sum {sum(lens)}) instead of {want_lens[:8]} (n={n}, chunksize={c})"
        got = np.concatenate(ras) if ras else np.zeros(0)
        want = np.arange(n, dtype="f8") * 0.25 % 360.0
        if len(got) != n or not np.allclose(got, want, rtol=0, atol=1e-9):
            return f"{what}: the records of the pass are not the input in order (n={n}, chunksize={c})"
        return True

    def two_passes(make, n, c, what):
        with make() as reader:
            for k in (1, 2):
                r = one_pass(reader, n, c, f"{what} pass {k}")
                if r is not True:
                    return r
        return True

    def attempt(name, fn):
        try:
            r = fn()
        except Exception as ex:  # noqa: BLE001
            import traceback
            out.append((name, False, f"raised {type(ex).__name__}: {ex} | {traceback.format_exc(limit=3)[-300:]}"))
            return
        out.append((name, r is True, "" if r is True else str(r)))

    kw = dict(ra_name="ra", dec_name="dec", weight_name="w", redshift_name="z")
    try:
        sizes = (1, 7, 100, 280) if quick else (1, 2, 7, 64, 100, 280, 1000)
        chunks = (1, 3, 80, 100, 1000) if quick else (1, 2, 3, 7, 40, 80, 100, 250, 1000, 5000)
        for n in sizes:
            df = frame(n)
            h5 = f"{tmp}/d{n}.hdf5"
            with h5py.File(h5, "w") as f:
                for col in df:
                    f.create_dataset(col, data=df[col].to_numpy())
            ft = f"{tmp}/d{n}.fits"
            fits.BinTableHDU.from_columns([fits.Column(name=col, format="D", array=df[col].to_numpy()) for col in df]).writeto(ft)
            pq_uniform = f"{tmp}/u{n}.parquet"
            parquet.write_table(pa.Table.from_pandas(df), pq_uniform, row_group_size=max(1, min(50, n)))
            layouts = {"uniform": pq_uniform}
            if n >= 100:
                for tag, groups in (("ragged_a", [100, 50, 100, 30]), ("ragged_b", [40, 100, 60, 80]), ("ragged_c", [1, 99, 7, 173])):
                    groups = [g for g in groups]
                    if sum(groups) != n:
                        continue
                    path = f"{tmp}/{tag}{n}.parquet"
                    with parquet.ParquetWriter(path, pa.Table.from_pandas(df).schema) as wr:
                        lo = 0
                        for g in groups:
                            wr.write_table(pa.Table.from_pandas(df.iloc[lo:lo + g]), row_group_size=g)
                            lo += g
                    layouts[tag] = path
            for c in chunks:
                if c > 4 * n and c != 1000:
                    continue
                attempt(f"DataFrameReader[n={n},chunksize={c}]", lambda: two_passes(lambda: R.DataFrameReader(df, chunksize=c, **kw), n, c, "data frame"))
                attempt(f"HDFReader[n={n},chunksize={c}]", lambda: two_passes(lambda: R.HDFReader(h5, chunksize=c, **kw), n, c, "HDF5"))
                attempt(f"FitsReader[n={n},chunksize={c}]", lambda: two_passes(lambda: R.FitsReader(ft, chunksize=c, **kw), n, c, "FITS"))
                for tag, path in layouts.items():
                    def pq(path=path, tag=tag):
                        asked = []
                        orig = parquet.ParquetFile.read_row_group
                        orig_many = parquet.ParquetFile.read_row_groups

                        def one(self, i, *a, **k):
                            asked.append(int(i))
                            return orig(self, i, *a, **k)

                        def many(self, idx, *a, **k):
                            asked.extend(int(i) for i in idx)
                            return orig_many(self, idx, *a, **k)
                        parquet.ParquetFile.read_row_group, parquet.ParquetFile.read_row_groups = one, many
                        try:
                            with R.ParquetReader(path, chunksize=c, **kw) as reader:
                                ng = parquet.ParquetFile(path).num_row_groups
                                for k in (1, 2):
                                    del asked[:]
                                    r = one_pass(reader, n, c, f"Parquet[{tag}] pass {k}")
                                    if r is not True:
                                        return r
                                    # the reader finds the end of the file by asking for the group after the last one
                                    if sorted(a for a in asked if a < ng) != list(range(ng)):
                                        return f"Parquet[{tag}] pass {k}: row groups requested {asked} instead of each of 0..{ng - 1} once (n={n}, chunksize={c})"
                        finally:
                            parquet.ParquetFile.read_row_group, parquet.ParquetFile.read_row_groups = orig, orig_many
                        return True
                    attempt(f"ParquetReader[{tag},n={n},chunksize={c}]", pq)

                def rnd():
                    gen = BoxRandoms(0, 10, -5, 5, seed=3)
                    reader = R.RandomReader(gen, n, c)
                    lens1 = [len(ch) for ch in reader]
                    lens2 = [len(ch) for ch in reader]
                    want = [c] * (n // c) + ([n % c] if n % c else [])
                    if lens1 != want or lens2 != want:
                        return f"RandomReader: chunk lengths {lens1[:6]} / {lens2[:6]} instead of {want[:6]} (n={n}, chunksize={c})"
                    return True
                attempt(f"RandomReader[n={n},chunksize={c}]", rnd)
    finally:
        shutil.rmtree(tmp, ignore_errors=True)
    return out


if __name__ == "__main__":
    import sys
    os.environ.setdefault("YAW_NUM_THREADS", "1")
    res = battery(True)
    bad = [r for r in res if not r[1]]
    print(len(res), "cases", len(bad), "failed")
    for r in bad[:10]:
        print(r)
    sys.exit(1 if bad else 0)
