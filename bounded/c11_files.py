"""C11 bounded stand-in: round trips of the real library through real files (HDF5, YAML, text, cache directory).

Labelled bounded - never counted as proved.  Returns a list of (case, ok, detail)."""
from __future__ import annotations

import itertools
import math
import shutil
import tempfile


def battery(quick=True):
    import numpy as np
    import yaw
    from yaw.binning import Binning
    from yaw.correlation.paircounts import NormalisedCounts, PatchedCounts, PatchedSumWeights
    from yaw.correlation.corrfunc import CorrFunc
    from yaw.correlation.corrdata import CorrData
    from yaw.catalog.patch import Metadata

    rng = np.random.default_rng(11)
    tmp = tempfile.mkdtemp(prefix="yawc11_")
    out = []

    def attempt(name, fn):
        try:
            r = fn()
        except Exception as ex:  # noqa: BLE001
            out.append((name, False, f"raised {type(ex).__name__}: {ex}"))
            return
        out.append((name, r is True, "" if r is True else str(r)))

    try:
        # ---- pair counts through HDF5 ------------------------------------------------------------
        def counts_patterns(nb, npatch):
            z = np.zeros((nb, npatch, npatch))
            yield "all_zero", z.copy()
            a = rng.normal(size=(nb, npatch, npatch))
            yield "dense_signed", a
            s = z.copy()
            s[0, 0, npatch - 1] = 3.5
            yield "single_cell", s
            if nb >= 2:
                c = z.copy()
                c[0, 1 % npatch, 0], c[1, 1 % npatch, 0] = 2.0, -2.0          # cancels over the bins
                c[:, 0, 0] = np.resize([1.5, 1.0, -2.5], nb) if nb >= 3 else [1.0, -1.0]
                yield "cancelling_over_bins", c
            n = rng.uniform(size=(nb, npatch, npatch))
            n[0, 0, 0], n[nb - 1, npatch - 1, 0] = np.nan, np.inf
            yield "nan_inf", n

        def make_nc(binning, counts, auto):
            nb, npatch = counts.shape[0], counts.shape[1]
            sw = PatchedSumWeights(binning, rng.uniform(1, 2, size=(nb, npatch)), rng.uniform(1, 2, size=(nb, npatch)), auto=auto)
            return NormalisedCounts(PatchedCounts(binning, counts, auto=auto), sw)

        def same_nc(a, b):
            if (a is None) != (b is None):
                return False
            if a is None:
                return True
            return (np.array_equal(a.counts.counts, b.counts.counts, equal_nan=True) and a.sum_weights == b.sum_weights
                    and a.counts.binning == b.counts.binning and a.counts.auto == b.counts.auto)

        shapes = [(1, 1), (2, 3), (3, 4)] if quick else [(1, 1), (1, 3), (2, 1), (2, 3), (3, 4), (5, 7)]
        k = 0
        for (nb, npatch), closed in itertools.product(shapes, ("left", "right")):
            binning = Binning(np.linspace(0.1, 1.0, nb + 1), closed=closed)
            for pname, counts in counts_patterns(nb, npatch):
                for dr, rd, rr in itertools.product((False, True), repeat=3):
                    if not (dr or rd or rr):
                        continue
                    if quick and pname not in ("dense_signed", "cancelling_over_bins") and (dr, rd, rr) != (True, False, True):
                        continue
                    k += 1
                    parts = [make_nc(binning, counts * (q + 1), False) if present else None for q, present in enumerate((True, dr, rd, rr))]

                    def run(parts=parts, k=k):
                        cf = CorrFunc(*parts)
                        p = f"{tmp}/cf{k}.hdf"
                        cf.to_file(p)
                        back = CorrFunc.from_file(p)
                        for nme, x, y in zip(("dd", "dr", "rd", "rr"), parts, (back.dd, back.dr, back.rd, back.rr)):
                            if not same_nc(x, y):
                                return f"member {nme} differs after the round trip"
                        return True
                    attempt(f"hdf:CorrFunc[{nb}x{npatch},{closed},{pname},dr={dr},rd={rd},rr={rr}]", run)

        # ---- text files --------------------------------------------------------------------------
        def tol(v):
            if not math.isfinite(v):
                return 0.0
            digits = len(str(int(abs(v))))
            return 10.0 ** -(max(0, 8 - digits)) * 1.0000001

        def close(a, b):
            a, b = np.asarray(a, dtype=float), np.asarray(b, dtype=float)
            if a.shape != b.shape:
                return f"shape {b.shape} instead of {a.shape}"
            for x, y in zip(a.ravel(), b.ravel()):
                if math.isnan(x) or math.isnan(y):
                    if not (math.isnan(x) and math.isnan(y)):
                        return f"{x!r} read back as {y!r}"
                elif math.isinf(x) or math.isinf(y):
                    if x != y:
                        return f"{x!r} read back as {y!r}"
                elif abs(x - y) > tol(x):
                    return f"{x!r} read back as {y!r} (tolerance {tol(x):g})"
            return True

        values = [0.0, 1.0, -1.0, 0.123456789012, -0.987654321098, 9.99999999, 12.3456789, -123.456789, 1234.56789, 99999.9999, 1234567.891, -7654321.0,
                  12345678.9, 1e-9, -1e-12, 5e-8, 123456789.5, -9876543210.25, 1e15, float("nan"), float("inf"), float("-inf")]
        for nb, nsamp, closed in itertools.product((1, 2, 3, 7), (1, 2, 5), ("left", "right")):
            if quick and (nb, nsamp) not in ((1, 1), (1, 5), (2, 2), (3, 1), (7, 5)):
                continue
            edges = np.cumsum(rng.uniform(0.01, 0.5, size=nb + 1))
            binning = Binning(edges, closed=closed)
            pick = rng.choice(values, size=(nsamp + 1, nb))
            data, samples = pick[0], pick[1:]

            def run(binning=binning, data=data, samples=samples, nb=nb, nsamp=nsamp):
                cd = CorrData(binning, data, samples)
                p = f"{tmp}/cd_{nb}_{nsamp}_{binning.closed}"
                cd.to_files(p)
                back = CorrData.from_files(p)
                if str(back.binning.closed) != str(binning.closed):
                    return "closed side differs"
                for what, x, y in (("edges", binning.edges, back.binning.edges), ("data", data, back.data), ("samples", samples, back.samples)):
                    r = close(x, y)
                    if r is not True:
                        return f"{what}: {r}"
                return True
            attempt(f"text:CorrData[{nb} bins,{nsamp} samples,{closed}]", run)

        # ---- configuration through YAML ----------------------------------------------------------
        scale_sets = [(100.0, 1000.0), ([100.0, 500.0], [1000.0, 1500.0])]
        units = ("kpc", "Mpc", "rad", "deg", "arcmin", "arcsec", "kpc/h", "Mpc/h")
        k = 0
        for method, closed in itertools.product(("linear", "comoving", "logspace", "custom"), ("left", "right")):
            for (rmin, rmax), unit in itertools.product(scale_sets, units):
                k += 1
                if quick and (k % 5):
                    continue
                f = {"kpc": 1.0, "Mpc": 1e-3, "rad": 1e-5, "deg": 1e-4, "arcmin": 1e-2, "arcsec": 1.0, "kpc/h": 1.0, "Mpc/h": 1e-3}[unit]
                sc = dict(rmin=(np.asarray(rmin) * f).tolist(), rmax=(np.asarray(rmax) * f).tolist(), unit=unit)
                if method == "custom":
                    kw = dict(edges=[0.1, 0.25, 0.7, 1.3], closed=closed)
                else:
                    kw = dict(zmin=0.07, zmax=1.42, num_bins=7, method=method, closed=closed)

                def run(sc=sc, kw=kw, k=k):
                    cfg = yaw.Configuration.create(**sc, **kw, cosmology="WMAP9" if k % 2 else None)
                    p = f"{tmp}/cfg{k}.yml"
                    cfg.to_file(p)
                    back = yaw.Configuration.from_file(p)
                    if not np.array_equal(back.binning.binning.edges, cfg.binning.binning.edges):
                        return "bin edges differ"
                    if str(back.binning.binning.closed) != str(cfg.binning.binning.closed) or str(back.binning.method) != str(cfg.binning.method):
                        return "closed side / method differ"
                    if not (np.array_equal(back.scales.scales.scale_min, cfg.scales.scales.scale_min)
                            and np.array_equal(back.scales.scales.scale_max, cfg.scales.scales.scale_max)) or str(back.scales.scales.unit) != str(cfg.scales.scales.unit):
                        return "scales differ"
                    if back.cosmology.name != cfg.cosmology.name or back.max_workers != cfg.max_workers:
                        return "cosmology / max_workers differ"
                    return back == cfg or "restored configuration does not compare equal"
                attempt(f"yaml:Configuration[{method},{closed},{unit},{'list' if isinstance(rmin, list) else 'scalar'}]", run)

        # numbers that YAML writes in exponent notation (below 1e-4, above 1e16) and negative numbers
        def tiny_config():
            cfg = yaw.Configuration.create(rmin=[6e-5, 2.5e-5], rmax=[3e-4, 1e-4], unit="rad", edges=[5e-5, 3e-3, 0.25, 1.3], closed="left", rweight=-1.5e-5)
            p = f"{tmp}/cfg_tiny.yml"
            cfg.to_file(p)
            back = yaw.Configuration.from_file(p)
            if not np.array_equal(back.binning.binning.edges, cfg.binning.binning.edges):
                return "bin edges differ"
            if not (np.array_equal(back.scales.scales.scale_min, cfg.scales.scales.scale_min) and np.array_equal(back.scales.scales.scale_max, cfg.scales.scales.scale_max)):
                return "scales differ"
            if back.scales.rweight != cfg.scales.rweight:
                return "rweight differs"
            return back == cfg or "restored configuration does not compare equal"
        attempt("yaml:Configuration[radian scales and edges below 1e-4, negative rweight]", tiny_config)

        def tiny_catalog():
            import pandas as pd
            m = 40
            d = pd.DataFrame(dict(ra=np.concatenate([10 + rng.uniform(0, 1e-6, m), 20 + rng.uniform(0, 1e-6, m)]), dec=rng.uniform(-1e-6, 1e-6, 2 * m),
                                  w=rng.uniform(1e-7, 9e-7, 2 * m), pid=np.repeat([0, 1], m)))
            cat = yaw.Catalog.from_dataframe(f"{tmp}/cat_tiny", d, ra_name="ra", dec_name="dec", weight_name="w", patch_name="pid", degrees=True)
            back = yaw.Catalog(f"{tmp}/cat_tiny")
            for i in cat.keys():
                ma, mb = cat[i].meta, back[i].meta
                if (ma.num_records, ma.sum_weights) != (mb.num_records, mb.sum_weights) or type(mb.sum_weights) is not type(ma.sum_weights):
                    return f"patch {i}: num_records / sum_weights differ after re-opening ({ma.sum_weights!r} vs {mb.sum_weights!r})"
                if not np.array_equal(ma.center.data, mb.center.data) or not np.array_equal(ma.radius.data, mb.radius.data):
                    return f"patch {i}: centre / radius differ after re-opening"
            return True
        attempt("cache:Catalog[compact patches: radius and sum of weights below 1e-4]", tiny_catalog)

        # ---- patch metadata through YAML, catalogs through their cache ----------------------------
        import pandas as pd
        n = 300
        df = pd.DataFrame(dict(ra=rng.uniform(0, 40, n), dec=rng.uniform(-10, 10, n), z=rng.uniform(0.1, 1.0, n), w=rng.uniform(0.5, 2.0, n),
                               pid=rng.integers(0, 4, n)))
        df.loc[:3, "pid"] = [0, 1, 2, 3]
        for cols in (dict(), dict(weight_name="w"), dict(redshift_name="z"), dict(weight_name="w", redshift_name="z")):
            def run(cols=cols):
                tag = "_".join(sorted(cols)) or "plain"
                cat = yaw.Catalog.from_dataframe(f"{tmp}/cat_{tag}", df, ra_name="ra", dec_name="dec", patch_name="pid", degrees=True, **cols)
                back = yaw.Catalog(f"{tmp}/cat_{tag}")
                if list(back.keys()) != list(cat.keys()):
                    return "patch ids differ"
                for i in cat.keys():
                    a, b = cat[i], back[i]
                    ma, mb = a.meta, b.meta
                    if (ma.num_records, ma.sum_weights) != (mb.num_records, mb.sum_weights) or not np.array_equal(ma.center.data, mb.center.data) \
                            or not np.array_equal(ma.radius.data, mb.radius.data):
                        return f"patch {i}: metadata differ after re-opening the cache"
                    da, db = a.load_data(), b.load_data()
                    if da.dtype != db.dtype or not np.array_equal(da, db):
                        return f"patch {i}: records differ after re-opening the cache"
                    sel = df[df.pid == i]
                    if sorted(np.rad2deg(da["ra"]).round(9)) != sorted(sel.ra.round(9)):
                        return f"patch {i}: stored records are not the input records"
                    m2 = Metadata.from_dict(ma.to_dict())
                    if (m2.num_records, m2.sum_weights) != (ma.num_records, ma.sum_weights) or not np.array_equal(m2.center.data, ma.center.data) \
                            or not np.array_equal(m2.radius.data, ma.radius.data):
                        return f"patch {i}: Metadata dict round trip not exact"
                return True
            attempt(f"cache:Catalog[{','.join(sorted(cols)) or 'plain'}]", run)
    finally:
        shutil.rmtree(tmp, ignore_errors=True)
    return out
