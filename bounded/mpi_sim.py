"""A small in-process model of MPI for running the *real* library in its MPI mode on simulated ranks (bounded stand-in for C06).

* `load_mpi_copy()` imports $VERIF_REPO/src/yaw a second time as package `yaw_mpi` from the same bytes; the only change is the
  package name in `import yaw...` statements.  During the import a scripted `mpi4py` module is visible, so `parallel.use_mpi()`
  is true and the MPI variants of the functions (defined under `if parallel.use_mpi():`) are the ones that get defined.
* every rank is a thread; `MPI.COMM_WORLD` is a proxy that dispatches to the communicator of the calling thread.
* point-to-point: per (source, destination, tag) FIFO (non-overtaking between one pair of ranks, as in the standard); a standard
  send completes eagerly (buffered) or synchronously (rendezvous) - chosen per world; a wildcard receive picks among the
  senders that have a message available in a seeded order.  Payloads are pickled (separate address spaces).
* collectives: Barrier, bcast, Bcast, gather, Split (colour/key), Free.
* a watchdog declares a deadlock when no operation has completed for `patience` seconds.
"""
from __future__ import annotations

import ast
import importlib
import importlib.abc
import importlib.util
import os
import pickle
import random
import sys
import threading
import time
import types

PKG = "yaw_mpi"
_local = threading.local()


class Deadlock(BaseException):
    pass


class World:
    def __init__(self, size, sync, seed, patience=1.5, policy="random"):
        self.size, self.sync, self.policy = size, sync, policy
        self.rng = random.Random(seed)
        self.cv = threading.Condition()
        self.dead = False
        self.last_progress = time.time()
        self.patience = patience
        self.ncomm = 0
        self.comms = {}
        self.world_comm = {r: Comm(self, "world", r, list(range(size))) for r in range(size)}
        self.log = {r: [] for r in range(size)}

    def progress(self):
        self.last_progress = time.time()
        self.cv.notify_all()

    def wait(self):
        if self.dead:
            raise Deadlock()
        self.cv.wait(timeout=0.05)
        if self.dead:
            raise Deadlock()
        if time.time() - self.last_progress > self.patience:
            self.dead = True
            self.cv.notify_all()
            raise Deadlock()


class _Shared:
    """state shared by the members of one communicator"""

    def __init__(self):
        self.queues = {}
        self.coll = {}       # generation -> {rank: value}
        self.coll_result = {}
        self.gen = {}


class Comm:
    def __init__(self, world, name, rank, members, shared=None):
        self.world, self.name, self.rank, self.members = world, name, rank, members   # members: world ranks by comm rank
        self.shared = shared if shared is not None else world.comms.setdefault(name, _Shared())
        self.count = 0

    def __reduce__(self):
        # like MPI.COMM_WORLD, the world communicator unpickles to the world communicator of the receiving rank
        if self.name != "world":
            raise pickle.PicklingError("only the world communicator can be sent to another rank")
        return (_current_world_comm, ())

    # -- basics
    def Get_rank(self):
        return self.rank

    def Get_size(self):
        return len(self.members)

    def Free(self):
        return None

    # -- point to point
    def send(self, obj, dest, tag=0):
        w, sh = self.world, self.shared
        payload = pickle.dumps(obj)
        with w.cv:
            entry = [payload, False]
            sh.queues.setdefault((self.rank, dest, tag), []).append(entry)
            w.log[self.members[self.rank]].append(("send", self.name, dest, tag))
            w.progress()
            if w.sync:
                while not entry[1]:
                    w.wait()

    def recv(self, source=None, tag=0):
        w, sh = self.world, self.shared
        with w.cv:
            while True:
                keys = [k for k, q in sh.queues.items() if k[1] == self.rank and k[2] == tag and q and (source in (ANY_SOURCE, None) or k[0] == source)]
                if keys:
                    ks = sorted(keys)
                    k = ks[0] if w.policy == "lowest" else ks[-1] if w.policy == "highest" else w.rng.choice(ks)
                    entry = sh.queues[k].pop(0)
                    entry[1] = True
                    w.progress()
                    return pickle.loads(entry[0])
                w.wait()

    # -- collectives (every member must call; the k-th collective call of each member belongs together)
    def _collective(self, kind, value, compute):
        w, sh = self.world, self.shared
        with w.cv:
            g = self.count
            self.count += 1
            w.log[self.members[self.rank]].append((kind, self.name))
            slot = sh.coll.setdefault(g, {})
            slot[self.rank] = (kind, value)
            w.progress()
            while len(slot) < len(self.members):
                w.wait()
            kinds = {k for k, _ in slot.values()}
            if len(kinds) != 1:
                w.dead = True
                w.cv.notify_all()
                raise RuntimeError(f"mismatched collectives on communicator {self.name}: {sorted(kinds)}")
            if g not in sh.coll_result:
                sh.coll_result[g] = compute({r: v for r, (_, v) in slot.items()})
                w.progress()
            return sh.coll_result[g]

    def Barrier(self):
        self._collective("Barrier", None, lambda vals: None)

    def bcast(self, value, root=0):
        payload = self._collective("bcast", pickle.dumps(value) if self.rank == root else None, lambda vals: vals[root])
        return pickle.loads(payload)

    def Bcast(self, buf, root=0):
        import numpy as np
        data = self._collective("Bcast", np.array(buf, copy=True) if self.rank == root else None, lambda vals: vals[root])
        if self.rank != root:
            buf[...] = data

    def gather(self, value, root=0):
        res = self._collective("gather", value, lambda vals: [vals[r] for r in range(len(self.members))])
        return list(res) if self.rank == root else None

    def Split(self, color, key=0):
        w = self.world
        res = self._collective("Split", (color, key), lambda vals: vals)
        with w.cv:
            g = self.count - 1
        if color == UNDEFINED:
            return COMM_NULL
        same = sorted((k, r) for r, (c, k) in res.items() if c == color)
        members = [self.members[r] for _, r in same]
        name = f"{self.name}/split{g}/{color}"
        return Comm(w, name, [r for _, r in same].index(self.rank), members)


ANY_SOURCE = -1
UNDEFINED = -32766
COMM_NULL = None


def _current_world_comm():
    return _local.comm


def _world_proxy():
    return sys.modules["mpi4py.MPI"].COMM_WORLD


class _WorldProxy:
    """MPI.COMM_WORLD: dispatches to the communicator of the rank that runs on the calling thread"""

    def __reduce__(self):
        return (_world_proxy, ())

    def __getattr__(self, name):
        comm = getattr(_local, "comm", None)
        if comm is None:
            # import time / outside a simulation: a one-rank... no: MPI mode must be on while the package is imported
            if name == "Get_size":
                return lambda: 2
            if name == "Get_rank":
                return lambda: 0
            raise RuntimeError(f"MPI.COMM_WORLD.{name} used outside a simulated world")
        return getattr(comm, name)


def fake_mpi4py():
    m = types.ModuleType("mpi4py")
    mpi = types.ModuleType("mpi4py.MPI")
    mpi.COMM_WORLD = _WorldProxy()
    mpi.ANY_SOURCE = ANY_SOURCE
    mpi.UNDEFINED = UNDEFINED
    mpi.COMM_NULL = COMM_NULL
    mpi.Comm = Comm
    mpi.Get_processor_name = lambda: "node0"
    m.MPI = mpi
    return m, mpi


# -- loading the repository a second time in MPI mode -------------------------------------------------------------------

class _Rename(ast.NodeTransformer):
    def visit_Import(self, node):
        for a in node.names:
            if a.name == "yaw" or a.name.startswith("yaw."):
                if a.asname is None:
                    a.asname = a.name.split(".")[0] if "." not in a.name else None
                a.name = PKG + a.name[3:]
        return node

    def visit_ImportFrom(self, node):
        if node.level == 0 and node.module and (node.module == "yaw" or node.module.startswith("yaw.")):
            node.module = PKG + node.module[3:]
        return node


class _Loader(importlib.abc.Loader):
    def __init__(self, path):
        self.path = path

    def create_module(self, spec):
        return None

    def exec_module(self, module):
        with open(self.path, encoding="utf-8") as f:
            src = f.read()
        tree = _Rename().visit(ast.parse(src, self.path))
        ast.fix_missing_locations(tree)
        exec(compile(tree, self.path, "exec"), module.__dict__)


class _Finder(importlib.abc.MetaPathFinder):
    def __init__(self, src_dir):
        self.src_dir = src_dir

    def find_spec(self, fullname, path, target=None):
        if fullname != PKG and not fullname.startswith(PKG + "."):
            return None
        rel = fullname.split(".")[1:]
        base = os.path.join(self.src_dir, "yaw", *rel)
        if os.path.isdir(base) and os.path.exists(os.path.join(base, "__init__.py")):
            p = os.path.join(base, "__init__.py")
            spec = importlib.util.spec_from_loader(fullname, _Loader(p), origin=p, is_package=True)
            spec.submodule_search_locations = [base]
            return spec
        if os.path.exists(base + ".py"):
            return importlib.util.spec_from_loader(fullname, _Loader(base + ".py"), origin=base + ".py")
        return None


_loaded = {}


def load_mpi_copy():
    """returns the package `yaw_mpi` (the repository source imported with MPI mode on)"""
    if "pkg" in _loaded:
        return _loaded["pkg"]
    src_dir = os.path.join(os.environ.get("VERIF_REPO", "/repo"), "src")
    m, mpi = fake_mpi4py()
    saved = {k: sys.modules.get(k) for k in ("mpi4py", "mpi4py.MPI")}
    sys.modules["mpi4py"], sys.modules["mpi4py.MPI"] = m, mpi
    finder = _Finder(src_dir)
    sys.meta_path.insert(0, finder)
    os.environ.setdefault("YAW_NUM_THREADS", "1")
    try:
        pkg = importlib.import_module(PKG)
        importlib.import_module(PKG + ".catalog.catalog")
        importlib.import_module(PKG + ".correlation.measurements")
        importlib.import_module(PKG + ".redshifts")
    finally:
        # the scripted mpi4py stays importable: functions import it lazily (`from mpi4py import MPI` inside blocks)
        pass
    _loaded["pkg"] = pkg
    _loaded["restore"] = saved
    return pkg


def run_world(size, main, sync=False, seed=0, timeout=60.0, patience=1.5, policy="random"):
    """runs main(rank) on `size` simulated ranks; returns (status, {rank: result}, {rank: error}, world)"""
    world = World(size, sync, seed, patience, policy)
    results, errors = {}, {}

    def rank_main(rank):
        _local.comm = world.world_comm[rank]
        try:
            results[rank] = main(rank)
        except Deadlock:
            errors[rank] = "deadlock"
        except BaseException as ex:  # noqa: BLE001
            import traceback
            errors[rank] = f"{type(ex).__name__}: {ex} | {traceback.format_exc(limit=4)[-400:]}"
            with world.cv:
                world.dead = True       # a crashed rank aborts the job (MPI_Abort)
                world.cv.notify_all()
        finally:
            _local.comm = None
            with world.cv:
                world.progress()
    threads = [threading.Thread(target=rank_main, args=(r,), daemon=True) for r in range(size)]
    for t in threads:
        t.start()
    deadline = time.time() + timeout
    for t in threads:
        t.join(max(0.0, deadline - time.time()))
    if any(t.is_alive() for t in threads):
        with world.cv:
            world.dead = True
            world.cv.notify_all()
        for t in threads:
            t.join(1.0)
        return "timeout", results, errors, world
    if any(e == "deadlock" for e in errors.values()):
        real = {r: e for r, e in errors.items() if e != "deadlock"}
        return ("error" if real else "deadlock"), results, errors, world
    if errors:
        return "error", results, errors, world
    return "ok", results, errors, world
