#!/usr/bin/env python3
"""Regenerates MANIFEST.json from claims.py (the single source of truth about what is claimed)."""
import json, os, sys
HERE = os.path.dirname(os.path.abspath(__file__))
sys.path.insert(0, HERE)
from claims import CLAIMS, NOT_APPLICABLE, NOTES

BASE_CMD = ("cd /repo && /venv/bin/python -m pytest -ra -q -p no:cacheprovider --timeout=900 "
            "--continue-on-collection-errors")

def main():
    ids = [json.loads(l)["id"] for l in open(os.path.join(HERE, "properties.jsonl"))]
    checks = []
    for pid in ids:
        if pid not in CLAIMS:
            continue
        c = CLAIMS[pid]
        checks.append({
            "property_id": pid,
            "quick_cmd": f"./check {pid} --tier quick",
            "thorough_cmd": f"./check {pid} --tier thorough",
            "evidence_file": f"evidence/{pid}.json",
            "replay_cmd_template": f"./check {pid} --replay {{path}}",
            "engine": "pyvc",
            "level_claimed": {"category": c["category"], "text": c["text"], "design_ref": c["design_ref"]},
            "level_note": c["note"],
            "technique": c["technique"],
        })
    na = [{"property_id": p, "reason": NOT_APPLICABLE[p]} for p in ids if p not in CLAIMS]
    missing = [p for p in ids if p not in CLAIMS and p not in NOT_APPLICABLE]
    assert not missing, missing
    m = {
        "version": 1,
        "setup_cmd": "./setup.sh",
        "hooks": {
            "guard": "YAW_VERIF",
            "enable": "no source hooks: contracts are sidecar files under /verif/contracts; the checker re-reads "
                      "/repo/src/yaw on every run and rebinds names only in its own transformed in-memory copy",
            "baseline_off_cmd": BASE_CMD,
            "source_commits": [],
            "add_only": True,
        },
        "engines": [{
            "name": "pyvc",
            "path": "pyvc/",
            "serves_properties": [c["property_id"] for c in checks],
            "kind_free_text": "verification-condition generator: mechanical AST transform of the real source "
                              "(shadow package), executed on z3-backed proxy values, modular callee contracts, loop "
                              "cutting with sidecar invariants; obligations discharged by z3 5.1 and cvc5 1.4",
        }],
        "checks": checks,
        "notes": NOTES,
        "not_applicable": na,
    }
    with open(os.path.join(HERE, "MANIFEST.json"), "w") as f:
        json.dump(m, f, indent=1)
        f.write("\n")
    import jsonschema
    jsonschema.validate(m, json.load(open("/root/.vp/MANIFEST.schema.json")))
    print("MANIFEST.json ok:", len(checks), "claimed,", len(na), "not applicable")

if __name__ == "__main__":
    main()
