"""C10 - redshift-bin membership follows the closed-side rule everywhere.

Specification (taken from the property statement):
    InBin(z, b) = edges[b] <  z <= edges[b+1]     (closed = right)
                  edges[b] <= z <  edges[b+1]     (closed = left)
Obligations, for an arbitrary record t and an arbitrary bin b (no bound on the number of records or bins):
  * _redshift_histogram : hist[b] = Σ_t w_t [InBin(z_t, b)]
  * build_trees         : tree b holds record t  <=>  InBin(z_t, b); unbinned: the tree holds every record;
                          a patch or bin without records yields dummy trees, no exception
  * AngularTree.__init__/empty : num_records, weights and sum_weights (= Σ w, or the count) describe the rows given
  * Binning.__init__/parse_binning : class invariant (>= 2 strictly increasing edges) that the rule relies on
"""
from __future__ import annotations

import z3

from pyvc import core, shadow, sigma
from pyvc.core import SNum, SBool, Ctx, EndPath, to_term, tob, to_real
from pyvc.arrays import SArr, SRec, bv, in_range, forall, dim_term
from pyvc.builtins_shim import SymIterable, SSeq
from .common import And, Or, Implies, Not, Min, ForAll, Exists, mod, unit, call, Raised, expect_no_exception, fail, \
    use_loops, LoopSpec, Patches

P = "C10"
EXPLANATION = (
    "Deductive: _redshift_histogram, build_trees, AngularTree.__init__/empty, Binning.__init__/parse_binning are "
    "re-read from the current source, transformed mechanically and executed on symbolic arrays of symbolic length; "
    "membership of an arbitrary record in an arbitrary bin is compared with the closed-side rule of the statement. "
    "Sums are Σ-terms; pointwise congruence is proved by induction (lemma unit).")
TRUSTED = []
NOT_DECIDED = ["floating-point comparison of a redshift with an edge is exact in IEEE arithmetic; nothing else about "
               "floats is used on these paths"]
ASSUMPTIONS = ["Binning class invariant (strictly increasing edges) - established by Binning.__init__ (unit below)"]

CLOSED = ["left", "right"]


def in_bin(z, lo, hi, closed):
    """the rule of the statement, on z3 terms"""
    if closed == "right":
        return z3.And(lo < z, z <= hi)
    return z3.And(lo <= z, z < hi)


def make_binning(ctx, closed, name="edges"):
    B = mod("yaw.binning")
    O = mod("yaw.options")
    nb = ctx.fresh_int("num_bins", lo=1, size=True)
    edges = SArr.fresh(ctx, name, (nb + 1,), "f", register=True)
    t = bv("e")
    ctx.assume(forall([t], z3.Implies(z3.And(t >= 0, t < nb.t), edges._elem(t) < edges._elem(t + 1)),
                      patterns=[edges._elem(t)]), "type:Binning invariant (strictly increasing edges)")
    b = B.Binning.__new__(B.Binning)
    b.edges = edges
    b.closed = O.Closed(closed)
    ctx.inputs["num_bins"] = ("int", nb)
    return b, nb, edges


def monotone_instances(ctx, edges, nb, terms):
    """consequences of strict monotonicity that the proofs need: edges[a] < edges[b] for a < b (instances)"""
    a, b = bv("a"), bv("b")
    f = edges.meta["fn"]
    ctx.assume(forall([a, b], z3.Implies(z3.And(a >= 0, a < b, b <= nb.t), f(a) < f(b)),
                      patterns=[z3.MultiPattern(f(a), f(b))]),
               "lemma:strictly increasing implies ordered (transitivity; proved in unit monotone_lemma)")


@unit(P, "monotone_lemma", kind="lemma")
def u_monotone(ctx):
    """(forall t. e(t) < e(t+1))  ->  a < b -> e(a) < e(b)   by induction on b"""
    e = z3.Function("e?mono", z3.IntSort(), z3.RealSort())
    n = ctx.fresh_int("n", lo=1)
    a = ctx.fresh_int("a", lo=0)
    m = ctx.fresh_int("m")
    t = bv("t")
    ctx.assume(z3.ForAll([t], z3.Implies(z3.And(t >= 0, t < n.t), e(t) < e(t + 1))), "lemma:hypothesis")
    ctx.canary()
    # P(m): a < m <= n -> e(a) < e(m).  base m = a+1, step m -> m+1
    ctx.check("C10/monotone_lemma/base", z3.Implies(a.t + 1 <= n.t, e(a.t) < e(a.t + 1)), kind="lemma")
    ctx.assume(z3.And(m.t > a.t, m.t + 1 <= n.t, e(a.t) < e(m.t)), "lemma:induction hypothesis")
    ctx.check("C10/monotone_lemma/step", e(a.t) < e(m.t + 1), kind="lemma")


@unit(P, "sigma_schemas", kind="lemma")
def u_sigma(ctx):
    """induction proofs of the Σ-library lemma schemas used below (congruence, ...)"""
    ctx.canary()
    sigma.prove_schemas(ctx)


class PatchProxy:
    def __init__(self, ctx, has_weights, has_redshifts=True):
        self.n = ctx.fresh_int("n", lo=0, size=True)
        self.z = SArr.fresh(ctx, "z", (self.n,), "f", register=True)
        self.w = SArr.fresh(ctx, "w", (self.n,), "f", register=True)
        self.ra = SArr.fresh(ctx, "ra", (self.n,), "f")
        self.dec = SArr.fresh(ctx, "dec", (self.n,), "f")
        self.has_weights = has_weights
        self.has_redshifts = has_redshifts
        ctx.inputs["n"] = ("int", self.n)
        self.loads = 0

    @property
    def redshifts(self):
        return self.z if self.has_redshifts else None

    @property
    def weights(self):
        return self.w if self.has_weights else None

    def load_data(self):
        self.loads += 1
        f = {"ra": self.ra, "dec": self.dec}
        if self.has_weights:
            f["weights"] = self.w
        if self.has_redshifts:
            f["redshifts"] = self.z
        return SRec(self.n, f)


@unit(P, "_redshift_histogram", fuc=["yaw.redshifts:_redshift_histogram"],
      cases=[dict(closed=c, has_weights=w) for c in CLOSED for w in (False, True)])
def u_hist(ctx, closed, has_weights):
    """hist[b] = Σ_t w_t [InBin(z_t, b)] for an arbitrary bin b"""
    R = mod("yaw.redshifts")
    binning, nb, edges = make_binning(ctx, closed)
    patch = PatchProxy(ctx, has_weights)
    monotone_instances(ctx, edges, nb, [])
    ctx.canary()
    name = "C10/_redshift_histogram"
    res = expect_no_exception(ctx, call(R._redshift_histogram, patch, binning), name)
    ctx.check(f"{name}/post:one_count_per_bin", And(res.ndim == 1, res.shape[0] == nb))
    b = ctx.fresh_int("b", lo=0)
    ctx.assume(b.t < nb.t, "post:arbitrary bin")
    ctx.inputs["b"] = ("int", b)
    ze, we, ee = patch.z._elem, patch.w._elem, edges._elem

    def spec(t):
        w = we(t) if has_weights else z3.RealVal(1)
        return z3.If(in_bin(ze(t), ee(b.t), ee(b.t + 1), closed), w, z3.RealVal(0))
    # whatever expression the code built its sums with (bincount of the selected records, bincount with under-/overflow bins
    # that are dropped, ...): every Σ-term in the result equals Σ spec if its summand does (instances of the congruence schema)
    sigma.congruent_sums(ctx, to_term(res.elem(b.t)), spec, patch.n.t, name="record_counts_in_bin_b_iff_closed_rule")
    ctx.check(f"{name}/post:hist_is_weighted_count_by_closed_rule", res.elem(b.t) == sigma.total(spec, patch.n.t))


# ---------------------------------------------------------------------------------------------------------
# build_trees
# ---------------------------------------------------------------------------------------------------------

class Groups(SymIterable):
    """ASSUMED contract of yaw.utils.misc.groupby(key_array, value_array) (np.argsort/unique/split):
    G groups with strictly increasing keys; group with key k holds the rows {t : key[t] == k} (cnt(k) >= 1 of
    them, enumerated by the bijection sel(k, .) with inverse inv); every row belongs to the group of its key."""

    def __init__(self, ctx, keys, values):
        self.ctx, self.keys, self.values = ctx, keys, values
        n = keys.shape[0]
        self.n = n
        I = z3.IntSort()
        self.G = ctx.fresh_int("num_groups", lo=0, size=True)
        self.key = ctx.fresh_fn("group_key", I, I)
        self.cnt = ctx.fresh_fn("group_cnt", I, I)
        self.sel = ctx.fresh_fn("group_sel", I, I, I)
        self.inv = ctx.fresh_fn("group_inv", I, I)
        self.gi = ctx.fresh_fn("group_of_row", I, I)
        self.gidx = ctx.fresh_fn("group_index_of_key", I, I)   # skolem function: index of the group with key k
        g, h, k, u, t = bv("g"), bv("h"), bv("k"), bv("u"), bv("t")
        ke = keys._elem
        A = lambda f, pats=(): ctx.assume(f, "contract:groupby")  # noqa: E731
        A(forall([g, h], z3.Implies(z3.And(g >= 0, g < h, h < self.G.t), self.key(g) < self.key(h)),
                 patterns=[z3.MultiPattern(self.key(g), self.key(h))]))
        A(forall([g], z3.Implies(z3.And(g >= 0, g < self.G.t), self.cnt(self.key(g)) >= 1), patterns=[self.key(g)]))
        A(forall([k, u], z3.Implies(z3.And(u >= 0, u < self.cnt(k)),
                                    z3.And(self.sel(k, u) >= 0, self.sel(k, u) < dim_term(n),
                                           ke(self.sel(k, u)) == k, self.inv(self.sel(k, u)) == u)),
                 patterns=[self.sel(k, u)]))
        A(forall([t], z3.Implies(in_range(t, n),
                                 z3.And(self.inv(t) >= 0, self.inv(t) < self.cnt(ke(t)),
                                        self.sel(ke(t), self.inv(t)) == t,
                                        self.gi(t) >= 0, self.gi(t) < self.G.t, self.key(self.gi(t)) == ke(t))),
                 patterns=[ke(t)]))
        A(forall([k], self.cnt(k) >= 0, patterns=[self.cnt(k)]))
        A(forall([g], z3.Implies(z3.And(g >= 0, g < self.G.t), self.gidx(self.key(g)) == g), patterns=[self.key(g)]))
        ctx.trust("yaw.utils.misc.groupby contract (partition of the rows by key; np.argsort/unique/split)")

    def vc_len(self):
        return self.G

    def rows(self, k):
        """the value rows of the group with key k (an SRec/SArr of length cnt(k))"""
        kt = to_term(k)
        m = SNum(self.cnt(kt))
        sel = self.sel

        def pick(a):
            old = a._elem
            return SArr((m,) + tuple(a.shape[1:]), lambda u, *r: old(sel(kt, u), *r), a.kind, dtype_name=a.dtype_name)
        v = self.values
        if isinstance(v, SRec):
            return SRec(m, {f: pick(a) for f, a in v.fields.items()})
        return pick(v)

    def item(self, j):
        k = SNum(self.key(to_term(j)))
        return (k, self.rows(k))


class TreeStub:
    """stands for AngularTree: remembers exactly what it was built from"""
    built = None  # list collecting constructor calls (set per unit)

    def __init__(self, coords, weights=None, *, leafsize=16):
        from pyvc.builtins_shim import vc_len
        self.n = vc_len(coords)
        d = coords.data
        self.ra = lambda u: d._elem(u, z3.IntVal(0))
        self.dec = lambda u: d._elem(u, z3.IntVal(1))
        self.has_weights = weights is not None
        if weights is not None:
            wl = vc_len(weights)
            if bool(SBool(to_term(wl) != to_term(self.n))):
                raise ValueError("shape of 'coords' and 'weights' does not match")
            self.w = weights._elem
        else:
            self.w = None
        self.leafsize = leafsize
        self.is_dummy = False

    @classmethod
    def empty(cls, *, has_weights):
        new = cls.__new__(cls)
        new.n, new.ra, new.dec = 0, (lambda u: z3.RealVal(0)), (lambda u: z3.RealVal(0))
        new.has_weights = has_weights
        new.w = (lambda u: z3.RealVal(0)) if has_weights else None
        new.leafsize = None
        new.is_dummy = True
        return new


def canonical_tree(groups, patch, k, has_weights, leafsize):
    """the tree the specification expects for digitize index k: the rows of the group with key k"""
    t = TreeStub.__new__(TreeStub)
    kt = to_term(k)
    sel = groups.sel
    t.n = SNum(groups.cnt(kt))
    t.ra = lambda u: patch.ra._elem(sel(kt, u))
    t.dec = lambda u: patch.dec._elem(sel(kt, u))
    t.has_weights = has_weights
    t.w = (lambda u: patch.w._elem(sel(kt, u))) if has_weights else None
    t.leafsize = leafsize
    t.is_dummy = False
    return t


def same_tree(a, b):
    """extensional equality of two tree stubs (clause)"""
    u = bv("u")
    cs = [to_term(a.n) == to_term(b.n), z3.BoolVal(a.has_weights == b.has_weights)]
    rng = z3.And(u >= 0, u < to_term(a.n))
    body = [a.ra(u) == b.ra(u), a.dec(u) == b.dec(u)]
    if a.w is not None and b.w is not None:
        body.append(a.w(u) == b.w(u))
    cs.append(z3.ForAll([u], z3.Implies(rng, z3.And(body))))
    return SBool(z3.And(cs))


class TreesMap:
    """summary of the local dict `trees` after j iterations of the loop over the groups:
       k in trees  <=>  exists g < j: key(g) == k and 0 < k <= num_bins ;   trees[k] = canonical_tree(k)"""

    def __init__(self, groups, patch, j, nb, has_weights, leafsize):
        self.groups, self.patch, self.j, self.nb, self.has_weights, self.leafsize = groups, patch, j, nb, has_weights, leafsize
        self.writes = []

    def contains_summary(self, k, j=None):
        j = self.j if j is None else j
        kt = to_term(k)
        gx = self.groups.gidx(kt)   # (exists g < j: key(g) == k)  <=>  0 <= gidx(k) < j and key(gidx(k)) == k
        return z3.And(kt > 0, kt <= to_term(self.nb), gx >= 0, gx < to_term(j), self.groups.key(gx) == kt)

    def __setitem__(self, k, v):
        self.writes.append((k, v))

    def contains(self, k):
        c = self.contains_summary(k)
        for wk, _ in self.writes:
            c = z3.Or(to_term(wk) == to_term(k), c)
        return SBool(c)

    def get(self, k, default=None):
        for wk, wv in reversed(self.writes):
            if bool(SBool(to_term(wk) == to_term(k))):
                return wv
        if bool(SBool(self.contains_summary(k))):
            return canonical_tree(self.groups, self.patch, k, self.has_weights, self.leafsize)
        return default

    def __getitem__(self, k):
        r = self.get(k, _MISSING)
        if r is _MISSING:
            raise KeyError(k)
        return r


_MISSING = object()


def trees_state_is(actual, groups, patch, j, nb, has_weights, leafsize):
    """clauses: the dict `actual` (empty literal, or summary + writes) equals the summary for j iterations"""
    from pyvc.containers import SymDict
    k = bv("k")
    target = TreesMap(groups, patch, j, nb, has_weights, leafsize)
    out = {}
    if isinstance(actual, SymDict) or isinstance(actual, dict):
        if len(dict.keys(actual)) or getattr(actual, "sym", []):
            raise core.Unsupported("unexpected initial content of `trees`")
        out["keys"] = SBool(z3.ForAll([k], z3.Not(target.contains_summary(k))))
        return out
    if not isinstance(actual, TreesMap):
        raise core.Unsupported(f"`trees` has unexpected type {type(actual).__name__}")
    out["keys"] = SBool(z3.ForAll([k], actual.contains(k).t == target.contains_summary(k)))
    for n_w, (wk, wv) in enumerate(actual.writes):
        if not isinstance(wv, TreeStub):
            raise core.Unsupported("value stored in `trees` is not a tree")
        out[f"tree_written_{n_w}_is_the_group_of_its_key"] = same_tree(wv, canonical_tree(groups, patch, wk, has_weights, leafsize))
        out[f"tree_written_{n_w}_leafsize"] = SBool(to_term(wv.leafsize) == to_term(leafsize)) if wv.leafsize is not None else False
    return out


def _build_trees_unit(ctx, closed, has_weights, binned):
    T = mod("yaw.catalog.trees")
    name = "C10/build_trees"
    patch = PatchProxy(ctx, has_weights)
    leafsize = ctx.fresh_int("leafsize", lo=1)
    state = {}
    with Patches() as pt:
        pt.set(T, "AngularTree", TreeStub)
        if not binned:
            ctx.canary()
            res = expect_no_exception(ctx, call(T.build_trees, patch, None, leafsize=leafsize), name)
            ctx.check(f"{name}/post:single_tree", isinstance(res, TreeStub))
            want = TreeStub.__new__(TreeStub)
            want.n, want.ra, want.dec = patch.n, patch.ra._elem, patch.dec._elem
            want.has_weights, want.w, want.leafsize = has_weights, (patch.w._elem if has_weights else None), leafsize
            ctx.check(f"{name}/post:unbinned_tree_holds_every_record", same_tree(res, want))
            ctx.check(f"{name}/post:leafsize_passed_on", res.leafsize == leafsize)
            ctx.check(f"{name}/post:data_loaded_once", patch.loads == 1)
            return
        binning, nb, edges = make_binning(ctx, closed)
        monotone_instances(ctx, edges, nb, [])

        def groupby_stub(keys, values):
            g = Groups(ctx, keys, values)
            state["groups"] = g
            state["bin_idx"] = keys
            return g
        pt.replace_function("yaw.utils.misc:groupby", groupby_stub)
        site = "yaw.catalog.trees:build_trees#1"

        def inv(L):
            return trees_state_is(L.trees, state["groups"], patch, L.j, nb, has_weights, leafsize)
        spec = LoopSpec(inv=inv, fresh={"trees": lambda L: TreesMap(state["groups"], patch, L.j, nb, has_weights, leafsize)})
        with use_loops({site: spec}):
            ctx.canary()
            res = expect_no_exception(ctx, call(T.build_trees, patch, binning, leafsize=leafsize), name)
    from pyvc.builtins_shim import vc_len
    ctx.check(f"{name}/post:one_tree_per_bin", vc_len(res) == nb)
    b = ctx.fresh_int("b", lo=0)
    ctx.assume(b.t < nb.t, "post:arbitrary bin")
    ctx.inputs["b"] = ("int", b)
    tree = res[b] if not hasattr(res, "item") else res.item(b)
    ctx.check(f"{name}/post:is_a_tree", isinstance(tree, TreeStub))
    g = state["groups"]
    t = ctx.fresh_int("t", lo=0)
    ctx.assume(t.t < patch.n.t, "post:arbitrary record")
    ctx.inputs["t"] = ("int", t)
    u = bv("u")
    # record t is held by tree b  <=>  some slot u of the tree is row t
    if tree.is_dummy:
        member = z3.BoolVal(False)
        ctx.cover("dummy_tree")
    else:
        kt = b.t + 1
        # (exists u < n: sel(k,u) == t)  <=>  0 <= inv(t) < n and sel(k, inv(t)) == t     (inv is the inverse of sel)
        member = z3.And(g.inv(t.t) >= 0, g.inv(t.t) < to_term(tree.n), g.sel(kt, g.inv(t.t)) == t.t)
        ctx.check(f"{name}/post:tree_b_is_group_b+1", same_tree(tree, canonical_tree(g, patch, SNum(kt), has_weights, leafsize)))
        ctx.cover("real_tree")
    rule = in_bin(patch.z._elem(t.t), edges._elem(b.t), edges._elem(b.t + 1), closed)
    ctx.check(f"{name}/post:record_in_tree_b_iff_closed_rule", SBool(member == rule),
              detail="membership of an arbitrary record in the tree of an arbitrary bin vs the closed-side rule")
    ctx.check(f"{name}/post:weights_flag", tree.has_weights == has_weights)
    ctx.check(f"{name}/post:data_loaded_once", patch.loads == 1)


@unit(P, "build_trees", fuc=["yaw.catalog.trees:build_trees", "yaw.datachunk:DataChunk.get_coords",
                            "yaw.datachunk:DataChunk.getattr", "yaw.datachunk:DataChunk.hasattr",
                            "yaw.coordinates:AngularCoordinates.__init__", "yaw.binning:Binning.__len__"],
      cases=[dict(closed=c, has_weights=w, binned=True) for c in CLOSED for w in (False, True)]
      + [dict(closed="right", has_weights=w, binned=False) for w in (False, True)],
      trusted=["groupby contract", "np.digitize"], inlined=["DataChunk.get_coords", "DataChunk.getattr",
                                                            "DataChunk.hasattr", "AngularCoordinates.__init__"])
def u_build(ctx, closed, has_weights, binned):
    """tree b holds record t  <=>  InBin(z_t, b); dummy trees for bins without records; no exception"""
    _build_trees_unit(ctx, closed, has_weights, binned)


@unit(P, "build_trees.raises", fuc=["yaw.catalog.trees:build_trees"])
def u_build_raises(ctx):
    """a binning without redshifts is rejected before any data is read"""
    T = mod("yaw.catalog.trees")
    patch = PatchProxy(ctx, False, has_redshifts=False)
    binning, nb, edges = make_binning(ctx, "right")
    ctx.canary()
    res = call(T.build_trees, patch, binning, leafsize=16)
    ctx.check("C10/build_trees/post_exc[ValueError]:no_redshifts", isinstance(res, Raised) and isinstance(res.exc, ValueError))
    ctx.check("C10/build_trees/post_exc:nothing_loaded", patch.loads == 0)


# ---------------------------------------------------------------------------------------------------------
# AngularTree constructors and the Binning invariant
# ---------------------------------------------------------------------------------------------------------

@unit(P, "AngularTree.__init__", fuc=["yaw.catalog.trees:AngularTree.__init__", "yaw.catalog.trees:AngularTree.empty",
                                      "yaw.coordinates:AngularCoordinates.to_3d"],
      cases=[dict(has_weights=False), dict(has_weights=True)])
def u_tree_init(ctx, has_weights):
    """a tree stores the number of rows, the weights unchanged and their sum (the count without weights); the
    KD-tree is built from the unit vectors of exactly these rows"""
    T = mod("yaw.catalog.trees")
    C = mod("yaw.coordinates")
    n = ctx.fresh_int("n", lo=0, size=True)
    data = SArr.fresh(ctx, "coords", (n, 2), "f")
    coords = C.AngularCoordinates.__new__(C.AngularCoordinates)
    coords.data = data
    w = SArr.fresh(ctx, "w", (n,), "f") if has_weights else None
    ctx.canary()
    name = "C10/AngularTree.__init__"
    tree = T.AngularTree.__new__(T.AngularTree)
    res = expect_no_exception(ctx, call(T.AngularTree.__init__, tree, coords, w, leafsize=16), name)
    ctx.check(f"{name}/post:num_records", tree.num_records == n)
    if has_weights:
        ctx.check(f"{name}/post:weights_unchanged", ForAll("t", lambda t: Implies(And(t >= 0, t < n), tree.weights.at(t) == w.at(t))))
        ctx.check(f"{name}/post:sum_weights_is_sum", tree.sum_weights == SNum(sigma.total(lambda t: w._elem(t), n.t)))
    else:
        ctx.check(f"{name}/post:no_weights", tree.weights is None)
        ctx.check(f"{name}/post:sum_weights_is_count", tree.sum_weights == n)
    kd = tree.tree
    ctx.check(f"{name}/post:kdtree_built_from_all_rows", And(kd.data.shape[0] == n, kd.data.shape[1] == 3))
    # the rows of the kd-tree are the unit vectors of the rows of coords, in the same order
    from pyvc import realfn
    t = ctx.fresh_int("t", lo=0)
    ctx.assume(t.t < n.t, "post:arbitrary row")
    ra, dec = data._elem(t.t, z3.IntVal(0)), data._elem(t.t, z3.IntVal(1))
    cos, sin = realfn.F["cos"], realfn.F["sin"]
    ctx.check(f"{name}/post:kdtree_rows_are_unit_vectors_of_the_rows",
              And(kd.data.at(t, 0) == SNum(cos(ra) * cos(dec)), kd.data.at(t, 1) == SNum(sin(ra) * cos(dec)),
                  kd.data.at(t, 2) == SNum(sin(dec))))
    # dummy tree
    e = expect_no_exception(ctx, call(T.AngularTree.empty, has_weights=has_weights), "C10/AngularTree.empty")
    ctx.check("C10/AngularTree.empty/post:no_records_zero_weight", And(e.num_records == 0, e.sum_weights == 0, e.tree is None))
    ctx.check("C10/AngularTree.empty/post:weights_flag", (e.weights is not None) == has_weights)


@unit(P, "AngularTree.__init__.raises", fuc=["yaw.catalog.trees:AngularTree.__init__"])
def u_tree_init_raises(ctx):
    T = mod("yaw.catalog.trees")
    C = mod("yaw.coordinates")
    n = ctx.fresh_int("n", lo=0, size=True)
    m = ctx.fresh_int("m", lo=0, size=True)
    coords = C.AngularCoordinates.__new__(C.AngularCoordinates)
    coords.data = SArr.fresh(ctx, "coords", (n, 2), "f")
    w = SArr.fresh(ctx, "w", (m,), "f")
    ctx.canary()
    tree = T.AngularTree.__new__(T.AngularTree)
    res = call(T.AngularTree.__init__, tree, coords, w, leafsize=16)
    if isinstance(res, Raised):
        ctx.check("C10/AngularTree.__init__/post_exc[ValueError]:iff_lengths_differ",
                  And(isinstance(res.exc, ValueError), n != m))
    else:
        ctx.check("C10/AngularTree.__init__/post:lengths_equal", n == m)


@unit(P, "Binning.__init__", fuc=["yaw.binning:Binning.__init__", "yaw.binning:parse_binning"],
      cases=[dict(closed=c) for c in CLOSED])
def u_binning_init(ctx, closed):
    """the class invariant the rule relies on: >= 2 edges, strictly increasing; anything else raises ValueError"""
    B = mod("yaw.binning")
    m = ctx.fresh_int("num_edges", lo=0, size=True)
    edges = SArr.fresh(ctx, "edges", (m,), "f", register=True)
    ctx.inputs["num_edges"] = ("int", m)
    ctx.canary()
    b = B.Binning.__new__(B.Binning)
    res = call(B.Binning.__init__, b, edges, closed)
    valid = And(m >= 2, ForAll("t", lambda t: Implies(And(t >= 0, t + 1 < m), edges.at(t) < edges.at(t + 1))))
    if isinstance(res, Raised):
        ctx.check("C10/Binning.__init__/post_exc[ValueError]:only_for_invalid_edges", And(isinstance(res.exc, ValueError), Not(valid)))
        ctx.cover("rejects")
    else:
        ctx.cover("accepts")
        ctx.check("C10/Binning.__init__/post:invariant", valid)
        ctx.check("C10/Binning.__init__/post:edges_kept", And(b.edges.shape[0] == m,
                                                               ForAll("t", lambda t: Implies(And(t >= 0, t < m), b.edges.at(t) == edges.at(t)))))
        ctx.check("C10/Binning.__init__/post:closed_kept", str(b.closed) == closed)
        ctx.check("C10/Binning.__init__/post:len_is_number_of_bins", type(b).__len__(b) == m - 1)


# ---------------------------------------------------------------------------------------------------------
# replay on the real code
# ---------------------------------------------------------------------------------------------------------

def _candidates(w):
    """the verifier's witness first (repaired to satisfy the type invariants), then a small neighbourhood"""
    import itertools
    import numpy as np
    out = []
    e = w.get("edges")
    z = w.get("z")
    if isinstance(e, list) and isinstance(z, list) and len(e) >= 2:
        e = sorted(set(float(x) for x in e))
        if len(e) >= 2:
            wt = w.get("w") if isinstance(w.get("w"), list) else None
            out.append((np.array(e), np.array([float(x) for x in z]),
                        np.array([abs(float(x)) + 1.0 for x in wt]) if wt and len(wt) == len(z) else None))
    e = np.array([0.0, 0.125, 0.25, 0.5])
    grid = np.array([-0.1, 0.0, 0.0625, 0.125, 0.125, 0.25, 0.3, 0.5, 0.5, 0.7])
    out.append((e, grid, np.arange(1.0, len(grid) + 1.0)))
    out.append((e, np.array([]), np.array([])))
    out.append((e, np.array([0.7, -1.0]), np.array([2.0, 3.0])))
    out.append((np.array([0.1, 0.2]), np.array([0.1, 0.2, 0.15]), np.array([1.0, 2.0, 4.0])))
    return out


def _spec_mask(z, lo, hi, closed):
    return ((z > lo) & (z <= hi)) if closed == "right" else ((z >= lo) & (z < hi))


def replay_witness(unit_name, case, ob):
    import importlib
    import shutil
    import tempfile
    import numpy as np
    w = ob.get("witness") or {}
    closed = case.get("closed", "right")
    has_w = case.get("has_weights") in (True, "True")
    from yaw.binning import Binning
    if unit_name == "_redshift_histogram":
        from types import SimpleNamespace
        red = importlib.import_module("yaw.redshifts")
        for e, z, wt in _candidates(w):
            wt = wt if wt is not None else np.ones(len(z))
            try:
                got = red._redshift_histogram(SimpleNamespace(redshifts=z, weights=wt, has_weights=has_w), Binning(e, closed=closed))
            except Exception as ex:  # noqa: BLE001
                return {"reproduced": True, "inputs": dict(edges=e.tolist(), z=z.tolist(), closed=closed), "observed": repr(ex),
                        "expected": "a histogram"}
            exp = np.array([(wt[_spec_mask(z, e[b], e[b + 1], closed)].sum() if has_w else _spec_mask(z, e[b], e[b + 1], closed).sum())
                            for b in range(len(e) - 1)], dtype=float)
            if got.shape != exp.shape or not np.array_equal(got, exp):
                return {"reproduced": True, "inputs": dict(edges=e.tolist(), z=z.tolist(), weights=wt.tolist() if has_w else None, closed=closed),
                        "observed": got.tolist(), "expected": exp.tolist()}
        return {"reproduced": False, "tried": len(_candidates(w))}
    if unit_name.startswith("build_trees"):
        trees = importlib.import_module("yaw.catalog.trees")
        patchmod = importlib.import_module("yaw.catalog.patch")
        from yaw.datachunk import DataChunk, DataChunkInfo
        binned = case.get("binned") in (True, "True")
        for e, z, wt in _candidates(w):
            tmp = tempfile.mkdtemp(prefix="c10replay")
            try:
                n = len(z)
                ra, dec = np.linspace(0.1, 0.2, n), np.linspace(-0.1, 0.1, n)
                wt = wt if wt is not None else np.ones(n)
                info, chunk = DataChunk.create(ra, dec, weights=wt if has_w else None, redshifts=z, degrees=False)
                pw = patchmod.PatchWriter(tmp + "/patch_0", chunk_info=info, buffersize=-1)
                pw.process_chunk(chunk)
                pw.close()
                if n == 0:
                    patch = patchmod.Patch.__new__(patchmod.Patch)
                    patch.cache_path = patchmod.Path(tmp + "/patch_0")
                    patch._chunk_info = info
                else:
                    patch = patchmod.Patch(tmp + "/patch_0")
                try:
                    res = trees.build_trees(patch, Binning(e, closed=closed) if binned else None, leafsize=16)
                except Exception as ex:  # noqa: BLE001
                    return {"reproduced": True, "inputs": dict(edges=e.tolist(), z=z.tolist(), closed=closed, has_weights=has_w),
                            "observed": repr(ex), "expected": "one tree per bin, dummy trees for empty bins"}
                if not binned:
                    ok = res.num_records == n
                    if not ok:
                        return {"reproduced": True, "observed": res.num_records, "expected": n}
                    continue
                for b in range(len(e) - 1):
                    m = _spec_mask(z, e[b], e[b + 1], closed)
                    t = res[b]
                    exp_w = float(wt[m].sum()) if has_w else float(m.sum())
                    if t.num_records != int(m.sum()) or abs(t.sum_weights - exp_w) > 1e-12 or ((t.weights is not None) != has_w):
                        return {"reproduced": True, "inputs": dict(edges=e.tolist(), z=z.tolist(), closed=closed, has_weights=has_w, bin=b),
                                "observed": dict(num_records=t.num_records, sum_weights=t.sum_weights, has_weights=t.weights is not None),
                                "expected": dict(num_records=int(m.sum()), sum_weights=exp_w, has_weights=has_w)}
            finally:
                shutil.rmtree(tmp, ignore_errors=True)
        return {"reproduced": False, "tried": len(_candidates(w))}
    return {"reproduced": False, "note": "no concrete replay harness for this obligation"}


# ---------------------------------------------------------------------------------------------------------
# bounded stand-in (labelled bounded, never counted as proved): the same rule evaluated at run time on the real
# functions over an enumerated input space.  It is the safety net for the case that a restructured implementation
# takes the deductive part out of reach (verdict UNDECIDED).
# ---------------------------------------------------------------------------------------------------------

def bounded(opts):
    import importlib
    import itertools
    import shutil
    import tempfile
    import time
    import numpy as np
    from types import SimpleNamespace
    from yaw.binning import Binning
    red = importlib.import_module("yaw.redshifts")
    trees = importlib.import_module("yaw.catalog.trees")
    patchmod = importlib.import_module("yaw.catalog.patch")
    from yaw.datachunk import DataChunk
    t0 = time.time()
    e = np.array([0.0, 0.125, 0.25, 0.5])
    grid = [-0.1, 0.0, 0.06, 0.125, 0.2, 0.25, 0.3, 0.5, 0.7]
    kmax = 3 if opts.get("tier") != "thorough" else 4
    zsets = [()] + [c for k in range(1, kmax + 1) for c in itertools.combinations_with_replacement(grid, k)]
    viol, evals, nontrivial, samples = [], 0, 0, []
    tmp = tempfile.mkdtemp(prefix="c10bounded")
    try:
        for closed in CLOSED:
            binning = Binning(e, closed=closed)
            for has_w in (False, True):
                for n_case, zs in enumerate(zsets):
                    z = np.array(zs, dtype=float)
                    w = 1.0 + np.arange(len(z)) * 0.5
                    exp_n = np.array([_spec_mask(z, e[b], e[b + 1], closed).sum() for b in range(3)])
                    exp_w = np.array([(w[_spec_mask(z, e[b], e[b + 1], closed)].sum() if has_w else
                                       _spec_mask(z, e[b], e[b + 1], closed).sum()) for b in range(3)], dtype=float)
                    evals += 1
                    if len(z) and (np.isin(z, e).any() or (z < e[0]).any() or (z > e[-1]).any() or (exp_n == 0).any()):
                        nontrivial += 1
                    case = dict(closed=closed, has_weights=has_w, z=list(zs))
                    try:
                        got = red._redshift_histogram(SimpleNamespace(redshifts=z, weights=w, has_weights=has_w), binning)
                        ok = got.shape == exp_w.shape and np.array_equal(got, exp_w)
                        obs = got.tolist()
                    except Exception as ex:  # noqa: BLE001
                        ok, obs = False, repr(ex)
                    if not ok and len(viol) < 5:
                        viol.append(dict(id="bounded:_redshift_histogram", case=case, observed=obs, expected=exp_w.tolist()))
                    # build_trees on a real patch directory (every 3rd case in the quick tier to stay fast)
                    if opts.get("tier") != "thorough" and n_case % 3 and len(zs) > 1:
                        continue
                    d = f"{tmp}/p{evals}"
                    try:
                        n = len(z)
                        info, chunk = DataChunk.create(np.linspace(0.1, 0.2, n), np.linspace(-0.1, 0.1, n),
                                                       weights=w if has_w else None, redshifts=z, degrees=False)
                        pw = patchmod.PatchWriter(d, chunk_info=info, buffersize=-1)
                        pw.process_chunk(chunk)
                        pw.close()
                        patch = patchmod.Patch.__new__(patchmod.Patch)
                        patch.cache_path = patchmod.Path(d)
                        patch._chunk_info = info
                        res = trees.build_trees(patch, binning, leafsize=16)
                        got_n = [t.num_records for t in res]
                        got_w = [t.sum_weights for t in res]
                        ok = len(res) == 3 and got_n == exp_n.tolist() and np.allclose(got_w, exp_w) and \
                            all((t.weights is not None) == has_w for t in res)
                        obs = dict(num_records=got_n, sum_weights=got_w)
                    except Exception as ex:  # noqa: BLE001
                        ok, obs = False, repr(ex)
                    finally:
                        shutil.rmtree(d, ignore_errors=True)
                    evals += 1
                    if not ok and len(viol) < 5:
                        viol.append(dict(id="bounded:build_trees", case=case, observed=obs,
                                         expected=dict(num_records=exp_n.tolist(), sum_weights=exp_w.tolist())))
                    if len(samples) < 3 and len(zs) == 2:
                        samples.append(dict(case=case, trees=obs))
    finally:
        shutil.rmtree(tmp, ignore_errors=True)
    return dict(kind="bounded", bound=f"edges {e.tolist()}, redshift multisets of size <= {kmax} from the grid {grid} (contains "
                "every edge, values below/above the binning), both closed sides, with/without weights",
                evaluations=evals, distinct_nontrivial=nontrivial, violations=viol, samples=samples,
                wall_s=round(time.time() - t0, 2),
                note="run-time evaluation of the same rule on the real functions; labelled bounded, not counted as proved")



# every consumer of the binning gets the configured closed side: which catalogs the measurements bin with (edges, closed) and
# which they leave unbinned (the C01 wiring unit on autocorrelate / crosscorrelate, run here as well)
def _register_shared():
    from . import C01 as _C01
    unit(P, "correlate.wiring", fuc=["yaw.correlation.measurements:autocorrelate", "yaw.correlation.measurements:crosscorrelate"],
         cases=[dict(fn="auto", rr=True), dict(fn="auto", rr=False), dict(fn="cross", rand="ref"), dict(fn="cross", rand="unk"), dict(fn="cross", rand="both")])(_C01.u_wiring)


# _register_shared() is called by the driver after this module is fully imported (no import cycles)



# trees cached under one closed side are never reused for the other one (the C07 unit on BinnedTrees.build for the priors /
# requests that differ only in the closed side, run here as well)
def _register_shared_cache():
    from . import C07 as _C07
    unit(P, "BinnedTrees.build", fuc=["yaw.catalog.trees:BinnedTrees.build", "yaw.catalog.trees:BinnedTrees.__init__", "yaw.catalog.trees:BinnedTrees.binning_equal"],
         cases=[dict(prior=a, request=b) for a in ("left", "right") for b in ("left", "right")])(_C07.u_build)


# _register_shared_cache() is called by the driver after this module is fully imported (no import cycles)


# "under the configured closed side": the binning a configuration hands to trees and histograms carries the closed side that was asked
# for, for every binning method (C15 unit on BinningConfig.create)
def _register_shared_round9():
    from . import C15 as _C15
    unit(P, "BinningConfig.create", fuc=["yaw.config.binning:BinningConfig.create", "yaw.cosmology:RedshiftBinningFactory.linear",
                                         "yaw.cosmology:RedshiftBinningFactory.comoving", "yaw.cosmology:RedshiftBinningFactory.logspace"],
         cases=[dict(method=m, closed=c, cosmo="none") for m in ("linear", "comoving", "logspace") for c in ("left", "right")],
         trusted=["np.linspace", "np.logspace", "z_at_value"])(_C15.u_create)


# _register_shared_round9() is called by the driver after this module is fully imported (no import cycles)


# "the per-bin weight sums of a measurement": column b of the sums of weights of a patch pair is the weight sum of tree b (C01 unit on
# process_patch_pair), and tree b holds the records of bin b under the closed-side rule (build_trees units above)
def _register_shared_weights():
    from . import C01 as _C01
    unit(P, "process_patch_pair", fuc=["yaw.correlation.measurements:process_patch_pair"],
         cases=[dict(second=s, weighted=False) for s in ("binned", "unbinned")], trusted=["BinnedTrees.__iter__ (C07)"])(_C01.u_ppp)


# _register_shared_weights() is called by the driver after this module is fully imported (no import cycles)


# the binning that reaches a worker process is rebuilt from its pickled state: it must carry the closed side (C05 unit)
def _register_shared_round10():
    from . import C05 as _C05
    unit(P, "pickle_state", fuc=["yaw.binning:Binning.__getstate__", "yaw.binning:Binning.__setstate__"])(_C05.u_pickle_state)


# _register_shared_round10() is called by the driver after this module is fully imported (no import cycles)
