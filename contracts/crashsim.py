"""Crash simulation on the REAL library (bounded stand-in and replay vehicle for C08/C09).

The real writer runs once under an audit hook (PEP 578).  Before every file-system operation that the hook sees
(open for writing, mkdir, remove, rename, rmdir) the work directory is copied: the copy is exactly what a process that
died at that instant would leave behind (python-level buffers are not on disk yet).  For every open-for-writing the
state "file created/truncated but nothing written yet" is synthesised in addition.  The real readers then run on each
survivor.
"""
from __future__ import annotations

import os
import shutil
import sys
import tempfile

_STATE = {"active": False, "root": None, "out": None, "n": 0, "events": []}
_INSTALLED = [False]
_WRITE_EVENTS = {"os.mkdir", "os.remove", "os.rename", "os.rmdir", "shutil.rmtree", "os.unlink"}


def _hook(event, args):
    st = _STATE
    if not st["active"]:
        return
    try:
        if event == "open":
            path, mode = args[0], args[1]
            if not isinstance(path, (str, bytes, os.PathLike)) or mode is None:
                return
            path = os.fspath(path)
            if isinstance(path, bytes):
                path = path.decode()
            if not os.path.abspath(path).startswith(st["root"]) or not any(c in mode for c in "wax+"):
                return
            _snap(("open:" + mode, os.path.relpath(path, st["root"])), path if ("w" in mode or not os.path.exists(path)) else None)
        elif event in _WRITE_EVENTS:
            path = os.fspath(args[0]) if args and isinstance(args[0], (str, bytes, os.PathLike)) else None
            if path is None or not os.path.abspath(path if isinstance(path, str) else path.decode()).startswith(st["root"]):
                return
            _snap((event, os.path.relpath(path, st["root"])), None)
    except Exception:  # noqa: BLE001 - never disturb the traced program
        pass


def _snap(event, created):
    st = _STATE
    st["active"] = False
    try:
        d = os.path.join(st["out"], f"s{st['n']:04d}")
        shutil.copytree(st["root"], d)
        st["events"].append((event, d))
        st["n"] += 1
        if created is not None:
            # the operation itself creates/truncates the file: state right after it, before any data is written
            d2 = os.path.join(st["out"], f"s{st['n']:04d}")
            shutil.copytree(st["root"], d2)
            rel = os.path.relpath(created, st["root"])
            os.makedirs(os.path.dirname(os.path.join(d2, rel)), exist_ok=True)
            open(os.path.join(d2, rel), "wb").close()
            st["events"].append((("created-empty", rel), d2))
            st["n"] += 1
    finally:
        st["active"] = True


def record(root, fn):
    """run fn() and return [(event, survivor_dir)], the last entry being the final state"""
    if not _INSTALLED[0]:
        sys.addaudithook(_hook)
        _INSTALLED[0] = True
    out = tempfile.mkdtemp(prefix="crashsim")
    _STATE.update(active=True, root=os.path.abspath(root), out=out, n=0, events=[])
    err = None
    try:
        fn()
    except BaseException as e:  # noqa: BLE001
        err = e
    finally:
        _STATE["active"] = False
    d = os.path.join(out, "final")
    shutil.copytree(root, d)
    events = list(_STATE["events"]) + [(("final", ""), d)]
    return events, out, err
