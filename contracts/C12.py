"""C12 - patch metadata describe the patch, and patch i belongs to centre i.

  Metadata.compute   num_records = number of coordinates, sum_weights = Σ w (or the count), centre = the given centre if one
                     is given, else the (weighted) spherical mean; every record lies within `radius` of the centre
                     (radius = max of the distances to that centre)
  load_patches       with N given centres the stored ids must be exactly 0..N-1 (else ValueError and the cache is
                     invalidated) and patch i is built from (path_i, centre_i): proved in C05/load_patches for every arrival
                     order; here: the guard
  accessors          get_centers/get_radii/get_num_records/get_sum_weights follow ascending patch id
  guards             measurements raise InconsistentPatchesError for differing id sets and when some pair of corresponding
                     centres is farther apart than rtol (0.5) x radius - stronger than the statement's "patch radius"
  assign_patch_centers  the id of a record is the index vq returns for it (ASSUMED: index of the nearest centre)
"""
from __future__ import annotations

import z3

from pyvc import core, shadow, sigma, realfn
from pyvc.core import SNum, SBool, Ctx, EndPath, to_term, tob
from pyvc.arrays import SArr, SRec, bv, forall, dim_term
from pyvc.builtins_shim import vc_len
from .common import And, Or, Implies, Not, ForAll, mod, unit, call, Raised, expect_no_exception, fail, Patches

P = "C12"
EXPLANATION = (
    "Deductive: Metadata.compute, the catalog accessors, check_patch_conistency, the id-set guard of "
    "PatchLinkage.from_catalogs, the centre/id guard of load_patches and assign_patch_centers are re-read from the current "
    "source and executed on symbolic coordinates, weights, centres and radii (any number of records / patches); distances "
    "are the library's own formula (C14) and the radius is related to them through the contract of max().")
TRUSTED = ["scipy.cluster.vq.vq returns the index of the nearest code book entry (ties: any)", "np.max bounds every element and is attained"]
NOT_DECIDED = ["floating point: a record exactly on the radius after rounding"]
ASSUMPTIONS = ["patch radii are positive in check_patch_conistency (a zero radius divides by zero; floats give inf/NaN there)"]


ANG = z3.Function("angdist", z3.RealSort(), z3.RealSort(), z3.RealSort(), z3.RealSort(), z3.RealSort())


def distance_contract(self, other):
    """contract of AngularCoordinates.distance (proved in C14): element t is the angular distance between point t of self
    and point t of other (a single point is broadcast); non-negative; never raises for coordinates"""
    CO = mod("yaw.coordinates")
    if not isinstance(other, type(self)):
        raise TypeError(f"cannot compute distance with type {type(other)}")
    a, b = self.data, other.data
    from pyvc.arrays import dim_const, same_dim
    one_b, one_a = dim_const(b.shape[0]) == 1, dim_const(a.shape[0]) == 1
    if not (one_a or one_b):
        same_dim(a.shape[0], b.shape[0])
    n = b.shape[0] if (one_a and not one_b) else a.shape[0]
    ae, be = a._elem, b._elem
    z0, z1 = z3.IntVal(0), z3.IntVal(1)

    def el(t):
        ta, tb = (z0 if one_a and not one_b else t), (z0 if one_b and not one_a else t)
        return ANG(ae(ta, z0), ae(ta, z1), be(tb, z0), be(tb, z1))
    r = CO.AngularDistances.__new__(CO.AngularDistances)
    r.data = SArr((n,), el, "f")
    Ctx.cur.trust("contract:AngularCoordinates.distance (C14): elementwise angular distance, no exception")
    return r


def coords(ctx, n, hint):
    CO = mod("yaw.coordinates")
    a = CO.AngularCoordinates.__new__(CO.AngularCoordinates)
    a.data = SArr.fresh(ctx, hint, (n, 2), "f", register=True)
    return a


@unit(P, "Metadata.compute", fuc=["yaw.catalog.patch:Metadata.compute", "yaw.coordinates:AngularDistances.max",
                                 "yaw.coordinates:CustomNumpyArray.copy", "yaw.coordinates:CustomNumpyArray.__len__"],
      cases=[dict(weighted=w, given=g) for w in (False, True) for g in (False, True)])
def u_compute(ctx, weighted, given):
    PA = mod("yaw.catalog.patch")
    CO = mod("yaw.coordinates")
    n = ctx.fresh_int("n", lo=1, size=True)
    p = coords(ctx, n, "coords")
    w = SArr.fresh(ctx, "w", (n,), "f", register=True) if weighted else None
    c = coords(ctx, 1, "centre") if given else None
    mean_tok = coords(ctx, 1, "mean")
    seen = {}
    name = "C12/Metadata.compute"
    with Patches() as pt:
        pt.set(CO.AngularCoordinates, "distance", distance_contract)
        pt.set(CO.AngularCoordinates, "mean", lambda self, weights=None: seen.update(mean=(self, weights)) or mean_tok)
        ctx.canary()
        m = expect_no_exception(ctx, call(PA.Metadata.compute.__func__, PA.Metadata, p, weights=w, center=c), name)
        ctx.check(f"{name}/post:num_records", m.num_records == n)
        if weighted:
            ctx.check(f"{name}/post:sum_weights_is_sum", m.sum_weights == SNum(sigma.total(lambda t: w._elem(t), n.t)))
        else:
            ctx.check(f"{name}/post:sum_weights_is_count", m.sum_weights == n)
        if given:
            ctx.check(f"{name}/post:centre_is_the_given_centre", And(m.center.data.at(0, 0) == c.data.at(0, 0), m.center.data.at(0, 1) == c.data.at(0, 1)))
            def shares_storage(a, b):
                # a is b, or a is a numpy view (basic slice) taken from b, directly or through other views
                seen_ids = set()
                while a is not None and id(a) not in seen_ids:
                    if a is b:
                        return True
                    seen_ids.add(id(a))
                    v = getattr(a, "_view_of", None)
                    a = v[0] if v is not None else None
                return False
            ctx.check(f"{name}/post:given_centre_is_copied_not_shared", m.center is not c and not shares_storage(m.center.data, c.data) and "mean" not in seen,
                      detail="the stored centre must not alias the array the caller passed (a later in-place change of that array would move the patch centre)")
        else:
            ctx.check(f"{name}/post:centre_is_the_weighted_mean_of_the_records", m.center is mean_tok and seen["mean"][0] is p and seen["mean"][1] is w)
        # every record lies within the radius of the stored centre
        dist = expect_no_exception(ctx, call(type(p).distance, p, m.center), name)
        t = ctx.fresh_int("t", lo=0)
        ctx.assume(t.t < n.t, "post:arbitrary record")
        ctx.check(f"{name}/post:radius_is_one_number", vc_len(m.radius) == 1)
        ctx.check(f"{name}/post:every_record_within_radius_of_the_stored_centre", dist.data.at(t) <= m.radius.data.at(0),
                  detail="angular distance of an arbitrary record to the stored centre vs the stored radius")
        some = bv("s")
        ctx.check(f"{name}/post:radius_is_attained_by_some_record",
                  SBool(z3.Exists([some], z3.And(some >= 0, some < n.t, dist.data._elem(some) == m.radius.data._elem(z3.IntVal(0))))))
        if given:
            two = coords(ctx, 2, "two_centres")
            r = call(PA.Metadata.compute.__func__, PA.Metadata, p, weights=w, center=two)
            ctx.check(f"{name}/post_exc[ValueError]:centre_must_be_a_single_coordinate", isinstance(r, Raised) and isinstance(r.exc, ValueError))


class PatchTok:
    def __init__(self, ctx, k):
        CO = mod("yaw.coordinates")
        PA = mod("yaw.catalog.patch")
        self.meta = PA.Metadata.__new__(PA.Metadata)
        self.meta.num_records = ctx.fresh_int(f"nrec{k}", lo=1)
        self.meta.sum_weights = ctx.fresh_real(f"sumw{k}")
        self.meta.center = coords(ctx, 1, f"center{k}")
        self.meta.radius = CO.AngularDistances.__new__(CO.AngularDistances)
        self.meta.radius.data = SArr.fresh(ctx, f"radius{k}", (1,), "f")


@unit(P, "Catalog.accessors", fuc=["yaw.catalog.catalog:Catalog.__iter__", "yaw.catalog.catalog:Catalog.__len__", "yaw.catalog.catalog:Catalog.__getitem__",
                                  "yaw.catalog.catalog:Catalog.get_centers", "yaw.catalog.catalog:Catalog.get_radii",
                                  "yaw.catalog.catalog:Catalog.get_num_records", "yaw.catalog.catalog:Catalog.get_sum_weights",
                                  "yaw.coordinates:AngularCoordinates.from_coords", "yaw.coordinates:AngularDistances.from_dists"], kind="bounded")
def u_accessors(ctx):
    """BOUNDED in the number of patches (4 patches inserted in the order 2,0,3,1), symbolic metadata: every accessor
    reports patch i at position i (ascending id), i.e. independent of the order in which patches were loaded"""
    C = mod("yaw.catalog.catalog")
    cat = C.Catalog.__new__(C.Catalog)
    toks = {k: PatchTok(ctx, k) for k in (2, 0, 3, 1)}
    cat._patches = dict(toks)
    cat.cache_directory = "/cat"
    ctx.canary()
    name = "C12/Catalog.accessors"
    ids = expect_no_exception(ctx, call(lambda: list(iter(cat))), name)
    ctx.check(f"{name}/post:iteration_in_ascending_id_order", ids == [0, 1, 2, 3])
    cen = expect_no_exception(ctx, call(cat.get_centers), name)
    rad = expect_no_exception(ctx, call(cat.get_radii), name)
    nrec = expect_no_exception(ctx, call(cat.get_num_records), name)
    sw = expect_no_exception(ctx, call(cat.get_sum_weights), name)
    ctx.check(f"{name}/post:lengths", And(vc_len(cen) == 4, vc_len(rad) == 4) and len(nrec) == 4 and len(sw) == 4)
    for i in range(4):
        ctx.check(f"{name}/post:centre_{i}_is_that_of_patch_{i}", And(cen.data.at(i, 0) == toks[i].meta.center.data.at(0, 0),
                                                                  cen.data.at(i, 1) == toks[i].meta.center.data.at(0, 1)))
        ctx.check(f"{name}/post:radius_{i}_is_that_of_patch_{i}", rad.data.at(i) == toks[i].meta.radius.data.at(0))
        ctx.check(f"{name}/post:num_records_and_sum_weights_{i}", And(nrec[i] == toks[i].meta.num_records, sw[i] == toks[i].meta.sum_weights))


@unit(P, "check_patch_conistency", fuc=["yaw.correlation.measurements:check_patch_conistency"])
def u_consistency(ctx):
    """raises iff some pair of corresponding centres is farther apart than rtol x the reference radius (rtol = 0.5 <= 1)"""
    M = mod("yaw.correlation.measurements")
    CO = mod("yaw.coordinates")
    N = ctx.fresh_int("num_patches", lo=1, size=True)

    class Cat:
        def __init__(self, tag):
            self.centers = coords(ctx, N, f"centers_{tag}")
            self.radii = CO.AngularDistances.__new__(CO.AngularDistances)
            self.radii.data = SArr.fresh(ctx, f"radii_{tag}", (N,), "f", register=True)

        def get_centers(self):
            return self.centers

        def get_radii(self):
            return self.radii
    a, b = Cat("ref"), Cat("other")
    t = bv("t")
    ctx.assume(forall([t], z3.Implies(z3.And(t >= 0, t < N.t), a.radii.data._elem(t) > 0)), "pre:positive radii")
    ctx.canary()
    name = "C12/check_patch_conistency"
    with Patches() as pt:
        pt.set(CO.AngularCoordinates, "distance", distance_contract)
        res = call(M.check_patch_conistency, a, b)
        dist = expect_no_exception(ctx, call(type(a.centers).distance, a.centers, b.centers), name)
    far = SBool(z3.Exists([t], z3.And(t >= 0, t < N.t, dist.data._elem(t) > a.radii.data._elem(t) / 2)))
    if isinstance(res, Raised):
        ctx.cover("rejects")
        ctx.check(f"{name}/post_exc[InconsistentPatchesError]:only_if_some_centre_pair_is_too_far_apart",
                  And(isinstance(res.exc, mod("yaw.catalog.catalog").InconsistentPatchesError), far))
    else:
        ctx.cover("accepts")
        i = ctx.fresh_int("i", lo=0)
        ctx.assume(i.t < N.t, "post:arbitrary patch")
        ctx.check(f"{name}/post:accepted_centres_are_within_half_a_radius", dist.data.at(i) <= a.radii.data.at(i) / 2)
        ctx.check(f"{name}/post:hence_within_the_patch_radius", dist.data.at(i) <= a.radii.data.at(i))


@unit(P, "from_catalogs.id_guard", fuc=["yaw.correlation.measurements:PatchLinkage.from_catalogs"],
      cases=[dict(same=True), dict(same=False)])
def u_id_guard(ctx, same):
    """catalogs whose patch id sets differ are refused before anything else happens"""
    M = mod("yaw.correlation.measurements")
    C = mod("yaw.catalog.catalog")
    log = []

    class Cat:
        def __init__(self, ids):
            self.ids = ids

        def keys(self):
            return dict.fromkeys(self.ids).keys()

        def get_num_records(self):
            log.append("used")
            raise RuntimeError("stop")
    a = Cat([0, 1, 2])
    b = Cat([2, 1, 0] if same else [0, 1, 3])
    with Patches() as pt:
        pt.set(M, "get_max_angle", lambda cfg: log.append("max_angle") or "ANGLE")
        ctx.canary()
        res = call(M.PatchLinkage.from_catalogs.__func__, M.PatchLinkage, "CFG", a, b)
    if same:
        ctx.check("C12/from_catalogs/post:same_id_sets_in_any_order_are_accepted", isinstance(res, Raised) and isinstance(res.exc, RuntimeError))
    else:
        ctx.check("C12/from_catalogs/post_exc[InconsistentPatchesError]:different_id_sets",
                  isinstance(res, Raised) and isinstance(res.exc, C.InconsistentPatchesError) and log == [])


@unit(P, "load_patches.centres", fuc=["yaw.catalog.catalog:load_patches"], trusted=["iter_unordered contract"],
      cases=[dict(centers=True), dict(centers="catalog")])
def u_load_centres(ctx, centers=True):
    """with N given centres: the stored ids must be exactly 0..N-1 (otherwise the creation is rejected and the cache
    invalidated); then the patch with id i is built with centre i (pairing by position proved in C05 for every arrival order)"""
    from . import C05 as _C05
    state = {}
    orig_check = ctx.check

    def spy(name, clause, **kw):
        if name.endswith("post:key_is_the_id_parsed_from_the_path"):
            state["returned_normally"] = True
        return orig_check(name, clause, **kw)
    ctx.check = spy
    try:
        _C05.u_load_patches(ctx, centers=centers)
    finally:
        ctx.check = orig_check
    if state.get("returned_normally"):
        # normal return: ids were 0..n-1, hence id == position == centre index
        ids, n = ctx.inputs["patch_ids"][1], None
        i = ctx.fresh_int("pos", lo=0)
        ctx.assume(i.t < dim_term(ids.shape[0]), "post:arbitrary stored position")
        ctx.check("C12/load_patches/post:patch_id_equals_centre_index", ids.at(i) == i,
                  detail="a catalog created from N centres must have patches 0..N-1, patch i belonging to centre i")


@unit(P, "assign_patch_centers", fuc=["yaw.catalog.catalog:assign_patch_centers", "yaw.datachunk:DataChunk.get_coords"], trusted=["vq.vq"])
def u_assign(ctx):
    """the patch id of a record is what vq returns for the unit vector of exactly that record against the given centres"""
    C = mod("yaw.catalog.catalog")
    n = ctx.fresh_int("n", lo=0, size=True)
    N = ctx.fresh_int("num_centres", lo=1, hi=32767, size=True)
    chunk = SRec(n, {"ra": SArr.fresh(ctx, "ra", (n,), "f"), "dec": SArr.fresh(ctx, "dec", (n,), "f")})
    centres = SArr.fresh(ctx, "centres_xyz", (N, 3), "f")
    got = {}

    def vq(obs, code_book):
        got.update(obs=obs, code_book=code_book)
        idx = SArr.fresh(ctx, "vq_index", (obs.shape[0],), "i")
        t = bv("t")
        ctx.assume(forall([t], z3.Implies(z3.And(t >= 0, t < dim_term(obs.shape[0])), z3.And(idx._elem(t) >= 0, idx._elem(t) < N.t)),
                          patterns=[idx._elem(t)]), "contract:vq index in range")
        got["idx"] = idx
        return idx, SArr.fresh(ctx, "vq_dist", (obs.shape[0],), "f")
    ctx.ghost["vq"] = vq
    ctx.canary()
    name = "C12/assign_patch_centers"
    ids = expect_no_exception(ctx, call(C.assign_patch_centers, centres, chunk), name)
    t = ctx.fresh_int("t", lo=0)
    ctx.assume(t.t < n.t, "post:arbitrary record")
    S, C_ = realfn.F["sin"], realfn.F["cos"]
    ra, dec = chunk.fields["ra"]._elem(t.t), chunk.fields["dec"]._elem(t.t)
    ctx.check(f"{name}/post:code_book_is_the_given_centres", got.get("code_book") is centres)
    ctx.check(f"{name}/post:observations_are_the_unit_vectors_of_the_records_in_order",
              And(got["obs"].shape[0] == n, got["obs"].at(t, 0) == SNum(C_(ra) * C_(dec)), got["obs"].at(t, 1) == SNum(S(ra) * C_(dec)),
                  got["obs"].at(t, 2) == SNum(S(dec))))
    ctx.check(f"{name}/post:id_is_the_vq_index_of_the_record", And(ids.shape[0] == n, ids.at(t) == got["idx"].at(t)))
    ctx.check(f"{name}/post:ids_fit_the_patch_id_type", And(ids.at(t) >= 0, ids.at(t) <= 32767))


def replay_witness(unit_name, case, ob):
    """real catalogs: metadata vs records, centre i <-> patch i, guards"""
    import shutil
    import tempfile
    import numpy as np
    import pandas as pd
    import os
    os.environ["YAW_NUM_THREADS"] = "1"
    import yaw
    from yaw.catalog.catalog import InconsistentPatchesError
    fails = []
    tmp = tempfile.mkdtemp(prefix="c12replay")
    try:
        rng = np.random.default_rng(12)
        n = 400
        df = pd.DataFrame(dict(ra=rng.uniform(0, 40, n), dec=rng.uniform(-5, 5, n), w=rng.uniform(0.5, 2, n)))
        # input sorted by position and read in small chunks: patches appear in non-ascending id order
        df = df.sort_values("ra", ascending=False).reset_index(drop=True)
        cen = yaw.AngularCoordinates(np.deg2rad([[5.0, 0.0], [35.0, 0.0], [15.0, 0.0], [25.0, 0.0]]))
        for weights in (None, "w"):
            try:
                cat = yaw.Catalog.from_dataframe(f"{tmp}/c{weights}", df, ra_name="ra", dec_name="dec", weight_name=weights, patch_centers=cen, chunksize=64)
            except Exception as ex:  # noqa: BLE001
                fails.append(f"creation from 4 given centres (every centre has objects) raised {type(ex).__name__}: {ex}")
                continue
            if list(cat.keys()) != [0, 1, 2, 3]:
                fails.append(f"ids {list(cat.keys())}")
            if not np.array_equal(cat.get_centers().data, cen.data):
                fails.append("reported centres are not the given centres in order")
            again = yaw.Catalog.from_dataframe(f"{tmp}/again{weights}", df, ra_name="ra", dec_name="dec", weight_name=weights, patch_centers=cat, chunksize=400)
            for i, p in cat.items():
                d = p.load_data()
                co = yaw.AngularCoordinates(np.column_stack([d["ra"], d["dec"]]))
                dist = co.distance(p.meta.center).data
                if p.meta.num_records != len(d) or abs(p.meta.sum_weights - (d["weights"].sum() if weights else len(d))) > 1e-9:
                    fails.append(f"patch {i}: num_records/sum_weights do not describe the records")
                if dist.max() > p.meta.radius.data[0] * (1 + 1e-12):
                    fails.append(f"patch {i}: a record lies outside the stored radius")
                near = np.argmin(co.distance(cen[0]).data[:, None] * 0 + np.array([co.distance(cen[k]).data for k in range(4)]).T, axis=1)
                if not np.all(near == i):
                    fails.append(f"patch {i} holds records whose nearest centre is not centre {i}")
                if sorted(again[i].load_data()["ra"].tolist()) != sorted(d["ra"].tolist()):
                    fails.append(f"re-partitioning with the reported centres changes patch {i}")
        if fails:
            return {"reproduced": True, "failed": fails[:8], "note": "real catalogs created from 4 given centres with position-sorted input in small chunks"}
        cfg = yaw.Configuration.create(rmin=100, rmax=1000, zmin=0.1, zmax=1.0, num_bins=2)
        other = yaw.Catalog.from_dataframe(f"{tmp}/other", df.assign(pid=np.arange(n) % 3), ra_name="ra", dec_name="dec", patch_name="pid")
        try:
            yaw.correlation.measurements.PatchLinkage.from_catalogs(cfg, cat, other)
            fails.append("different id sets accepted")
        except InconsistentPatchesError:
            pass
        shifted = yaw.Catalog.from_dataframe(f"{tmp}/shifted", df.assign(pid=(np.digitize(df.ra, [10, 20, 30]) + 1) % 4), ra_name="ra", dec_name="dec", patch_name="pid")
        try:
            yaw.correlation.measurements.PatchLinkage.from_catalogs(cfg, cat, shifted)
            fails.append("misaligned centres accepted")
        except InconsistentPatchesError:
            pass
        # three catalogs: an aligned catalog with wide patches between the reference and a misaligned one must not hide the
        # misalignment (every catalog is checked against the radii of the reference patches)
        cen = cat.get_centers()
        cra, cdec = np.rad2deg(cen.ra), np.rad2deg(cen.dec)
        rmax = float(np.rad2deg(np.max(cat.get_radii().data)))
        k4 = np.arange(len(cra))
        wide = yaw.Catalog.from_dataframe(f"{tmp}/wide", pd.DataFrame(dict(ra=np.tile(cra, 2), dec=np.concatenate([cdec - 3 * rmax, cdec + 3 * rmax]), pid=np.tile(k4, 2))),
                                          ra_name="ra", dec_name="dec", patch_name="pid")
        off = yaw.Catalog.from_dataframe(f"{tmp}/off", pd.DataFrame(dict(ra=cra, dec=cdec + 0.75 * rmax, pid=k4)), ra_name="ra", dec_name="dec", patch_name="pid")
        for label, order in (("reference, wide aligned, misaligned", (cat, wide, off)), ("misaligned, wide aligned, reference", (off, wide, cat))):
            try:
                yaw.correlation.measurements.PatchLinkage.from_catalogs(cfg, *order)
                fails.append(f"misaligned third catalog accepted ({label})")
            except InconsistentPatchesError:
                pass
        try:
            yaw.correlation.measurements.PatchLinkage.from_catalogs(cfg, cat, wide)
        except InconsistentPatchesError:
            fails.append("aligned catalog with wide patches refused")
    finally:
        shutil.rmtree(tmp, ignore_errors=True)
    return {"reproduced": bool(fails), "failed": fails[:8], "note": "real catalogs created from 4 given centres with position-sorted input in small chunks"}


def bounded(opts):
    import time
    t0 = time.time()
    r = replay_witness(None, {}, {})
    return dict(kind="bounded", bound="2 catalogs (with/without weights) of 400 records from 4 given centres, input sorted by position and read in chunks of 64; "
                "re-partitioning with the reported centres; id-set and centre-distance guards (two and three catalogs, a wide aligned catalog "
                "before a misaligned one)", evaluations=2 * 4 * 5 + 5,
                distinct_nontrivial=2 * 4 * 5 + 5, violations=[dict(id="bounded:metadata", detail=f) for f in r["failed"]], samples=["centres at ra 5,35,15,25 deg"],
                wall_s=round(time.time() - t0, 2), note="real library; labelled bounded, not counted as proved")


def u_rejects_misaligned(ctx, ncat, ref):
    """composite, with the real consistency check inside the real from_catalogs (whatever its internal structure): the linkage is
    refused with InconsistentPatchesError if and only if for some other catalog and some patch the centre of that catalog's
    patch is farther from the reference centre than half the radius of the *reference* patch - for every catalog taking part,
    in whatever order they are given (reference = the catalog with the most records)"""
    from . import C01 as _C01
    from .common import use_loops, LoopSpec
    from pyvc.unit import find_site
    M = mod("yaw.correlation.measurements")
    C = mod("yaw.catalog.catalog")
    N = ctx.fresh_int("num_patches", lo=1, size=True)
    nrecs = [ctx.fresh_int(f"num_records_{k}", lo=1) for k in range(ncat)]
    for k in range(ncat):
        if k != ref:
            ctx.assume(nrecs[ref].t > nrecs[k].t, "pre:the reference catalog has the most records (no ties)")
    cats = [_C01.CatFx(ctx, f"cat{k}", N, nrecs[k]) for k in range(ncat)]
    I, R = z3.IntSort(), z3.RealSort()
    dfun = {}

    def dist(tag_a, i, tag_b, j):
        key = tuple(sorted((tag_a, tag_b)))
        f = dfun.setdefault(key, z3.Function(f"d_{key[0]}_{key[1]}", I, I, R))
        if tag_a == tag_b:
            return z3.If(i <= j, f(i, j), f(j, i))
        return f(i, j) if (tag_a, tag_b) == key else f(j, i)
    ctx.ghost["centre_dist"] = dist
    t = bv("t")
    rc = cats[ref]
    ctx.assume(forall([t], z3.Implies(z3.And(t >= 0, t < N.t), rc.rad(t) > 0), patterns=[rc.rad(t)]), "pre:positive reference radii")
    for c in cats:
        if c is not rc:
            ctx.assume(forall([t], z3.Implies(z3.And(t >= 0, t < N.t), dist(rc.tag, t, c.tag, t) >= 0)), "metric:distances are not negative")
    theta = ctx.fresh_real("theta_link")
    ctx.assume(theta.t >= 0, "contract:get_max_angle is an angle")
    th = _C01.dists(SArr((1,), lambda q: theta.t, "f"))
    name = "C12/from_catalogs.rejects_misaligned"

    class Links:
        def __init__(self, config, patch_links):
            self.config, self.patch_links = config, patch_links
    site = find_site("yaw.correlation.measurements:PatchLinkage.from_catalogs", "zip(patch_ids")
    specs = {site: LoopSpec(inv=lambda L: True, fresh={"patch_links": lambda L: _C01.LinksMap(ctx)})}
    with Patches() as pt, use_loops(specs):
        pt.set(M, "get_max_angle", lambda config: th)
        ctx.canary()
        res = call(M.PatchLinkage.from_catalogs.__func__, Links, "CFG", *cats)
    far = Or(*[SBool(z3.Exists([t], z3.And(t >= 0, t < N.t, dist(rc.tag, t, c.tag, t) > rc.rad(t) / 2))) for c in cats if c is not rc])
    if isinstance(res, Raised):
        ctx.cover("rejects")
        ctx.check(f"{name}/post_exc[InconsistentPatchesError]:only_if_some_catalog_is_misaligned", And(isinstance(res.exc, C.InconsistentPatchesError), far),
                  detail=f"raised {type(res.exc).__name__}: {res.exc}")
    else:
        ctx.cover("accepts")
        ctx.check(f"{name}/post:accepted_only_if_every_catalog_is_aligned_with_the_reference", Not(far),
                  detail="some centre of another catalog is farther than half the reference patch radius from the reference centre, yet the linkage was built")


# every participating catalog is checked against the reference before anything is linked (the C01 unit on
# PatchLinkage.from_catalogs: "all other catalogs checked against the reference", extents cover every catalog)
def _register_shared():
    from . import C01 as _C01
    unit(P, "from_catalogs.consistency_check_covers_every_catalog", fuc=["yaw.correlation.measurements:PatchLinkage.from_catalogs"],
         cases=[dict(ncat=n) for n in (2, 3)], trusted=["metric axioms", "itertools.compress"])(_C01.u_links)
    unit(P, "from_catalogs.rejects_misaligned", fuc=["yaw.correlation.measurements:PatchLinkage.from_catalogs", "yaw.correlation.measurements:check_patch_conistency"],
         cases=[dict(ncat=n, ref=r) for n in (2, 3) for r in range(n)], trusted=["abstract metric between centres"])(u_rejects_misaligned)


# _register_shared() is called by the driver after this module is fully imported (no import cycles)



# with given centres the records of patch i are the ones nearest to centre i - also when the input carries a patch-id column
# (the C02 unit on split_into_patches, run here as well)
def _register_shared_split():
    from . import C02 as _C02
    unit(P, "split_into_patches", fuc=["yaw.catalog.catalog:split_into_patches"],
         cases=[dict(mode=m, w=False, z=False) for m in ("ids", "centres", "centres+ids")])(_C02.u_split)


# _register_shared_split() is called by the driver after this module is fully imported (no import cycles)


# "a catalog created from N given centres has ... the given ones in order": on every creation route the given centres reach the writer
# and the loader, also when a patch number is passed in addition (C18 unit on the constructor arguments)
def _register_shared_round10():
    from . import C18 as _C18
    unit(P, "Catalog.from_*.arguments", fuc=["yaw.catalog.catalog:Catalog.from_dataframe", "yaw.catalog.catalog:Catalog.from_file", "yaw.catalog.catalog:Catalog.from_random"],
         cases=[dict(which=w, mode=m) for w in ("from_dataframe", "from_file", "from_random") for m in ("apply", "apply+num")])(_C18.u_from_args)


# _register_shared_round10() is called by the driver after this module is fully imported (no import cycles)
