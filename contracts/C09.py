"""C09 - catalog creation is fail-stop: exact catalog or an exception, never a hang.

Exceptional postconditions and file-system frames of the functions on the creation path:
  DataChunk.create / check_patch_ids / common_len_assert   raise for non-finite values, unequal lengths, ids outside 0..32767
                                   (checked on the values *given*, before any narrowing cast); otherwise fields = inputs
  PatchMode.determine              no patch method -> ValueError; precedence centres > name > number
  Catalog.from_*                   the patch method is validated before anything is written
  CatalogWriter.__init__           existing path without overwrite -> FileExistsError, nothing touched; overwrite only for
                                   catalog caches (C08 unit, shared)
  write_patches_unthreaded         an exception while reading/processing any chunk propagates and the writer is NOT
                                   finalised (no patch list -> the directory never opens as a catalog)
  write_patches (multiprocessing)  contracts of Process/Queue/Pool with ghost state: on every path join() is reached only
                                   after the end-of-queue marker was sent or the writer was terminated (no hang); a failed
                                   writer process makes the parent raise; a failing chunk propagates
  load_patches                     a centre without objects -> ValueError and the cache is invalidated (C12/C05 unit)
"Within bounded time" is decided only as the join precondition (termination is not proved).
"""
from __future__ import annotations

import z3

from pyvc import core, shadow
from pyvc.core import SNum, SBool, Ctx, EndPath, to_term, tob
from pyvc.arrays import SArr, SRec, bv, forall, dim_term
from pyvc.builtins_shim import SymIterable, SSeq, vc_len
from pyvc.fsmodel_sym import SymFS, SymPath, DIR
from .common import And, Or, Implies, Not, ForAll, mod, unit, call, Raised, expect_no_exception, fail, use_loops, LoopSpec, Patches
from . import C08 as _C08

P = "C09"
EXPLANATION = (
    "Deductive: the functions of the catalog creation path are re-read from the current source and executed on symbolic "
    "chunks (symbolic values, lengths, patch ids, a ghost 'non-finite' flag), a symbolic file system and contract stubs of "
    "multiprocessing.Process/Queue/Pool with ghost state (sentinel sent, terminated, child failed); exceptional "
    "postconditions, file-system frames and the no-hang precondition of join() are obligations on every path.")
TRUSTED = ["np.asarray_chkfinite raises ValueError iff the input contains inf/NaN", "Process.join blocks until the child ends; Queue.get blocks until a put",
           "Pool.map re-raises an exception of a worker in the parent", "python `with` semantics (CPython's own, executed)"]
NOT_DECIDED = ["'within bounded time' as a time bound (termination is not proved; only the join precondition)",
               "the MPI variant of write_patches (C06)"]
ASSUMPTIONS = []


def arr(ctx, name, n, kind="f"):
    return SArr.fresh(ctx, name, (n,), kind, register=True)


@unit(P, "DataChunk.create", fuc=["yaw.datachunk:DataChunk.create", "yaw.datachunk:check_patch_ids", "yaw.datachunk:get_array_dtype",
                                 "yaw.utils.misc:common_len_assert"],
      cases=[dict(w=w, z=z, p=p, degrees=d) for w in (False, True) for z in (False, True) for p in (False, True) for d in (False, True)])
def u_create(ctx, w, z, p, degrees):
    """raises for non-finite input, unequal lengths, patch ids outside 0..32767; otherwise every field holds the input
    values (coordinates x pi/180 iff degrees) - no other arithmetic touches a value"""
    D = mod("yaw.datachunk")
    n = ctx.fresh_int("n", lo=1, size=True)
    lens = {k: (ctx.fresh_int(f"len_{k}", lo=1, size=True)) for k in ("dec", "weights", "redshifts", "patch_ids")}
    cols = {"ra": arr(ctx, "ra", n), "dec": arr(ctx, "dec", lens["dec"])}
    if w:
        cols["weights"] = arr(ctx, "weights", lens["weights"])
    if z:
        cols["redshifts"] = arr(ctx, "redshifts", lens["redshifts"])
    if p:
        cols["patch_ids"] = arr(ctx, "patch_ids", lens["patch_ids"], "i")
    bad = {}
    for k, a in cols.items():
        if k != "patch_ids":
            bad[k] = ctx.fresh_bool(f"nonfinite_{k}")
            a.meta["nonfinite"] = bad[k]
    name = "C09/DataChunk.create"
    ctx.canary()
    res = call(D.DataChunk.create, cols["ra"], cols["dec"], weights=cols.get("weights"), redshifts=cols.get("redshifts"),
               patch_ids=cols.get("patch_ids"), degrees=degrees)
    same_len = And(*[lens[k] == n for k in cols if k != "ra"])
    t = bv("t")
    ids_ok = SBool(z3.BoolVal(True))
    if p:
        pe = cols["patch_ids"]._elem
        ids_ok = SBool(z3.ForAll([t], z3.Implies(z3.And(t >= 0, t < lens["patch_ids"].t), z3.And(pe(t) >= 0, pe(t) <= 32767))))
    finite = And(*[Not(b) for b in bad.values()])
    valid = And(same_len, ids_ok, finite)
    if isinstance(res, Raised):
        ctx.cover("rejects")
        ctx.check(f"{name}/post_exc[ValueError]:only_for_invalid_input", And(isinstance(res.exc, ValueError), Not(valid)),
                  detail=f"{type(res.exc).__name__}: {res.exc}")
        return
    ctx.cover("creates")
    ctx.check(f"{name}/post:input_was_valid", valid,
              detail="non-finite values, unequal lengths and patch ids outside 0..32767 must raise")
    info, chunk = res
    ctx.check(f"{name}/post:info", info.has_weights == w and info.has_redshifts == z and info.has_patch_ids == p)
    ctx.check(f"{name}/post:fields", list(chunk.fields) == list(cols) and bool(chunk.n == n))
    i = ctx.fresh_int("i", lo=0)
    ctx.assume(i.t < n.t, "post:arbitrary record")
    from pyvc import realfn
    for k, a in cols.items():
        want = a._elem(i.t)
        if degrees and k in ("ra", "dec"):
            want = want * realfn.PI / 180
        ctx.check(f"{name}/post:field_{k}_holds_the_input_value", SBool(chunk.fields[k]._elem(i.t) == want))


@unit(P, "PatchMode.determine", fuc=["yaw.catalog.catalog:PatchMode.determine", "yaw.catalog.catalog:get_patch_centers"],
      cases=[dict(c=c, nm=nm, num=num) for c in (False, True) for nm in (False, True) for num in (False, True)])
def u_determine(ctx, c, nm, num):
    C = mod("yaw.catalog.catalog")
    CO = mod("yaw.coordinates")
    cen = None
    if c:
        cen = CO.AngularCoordinates.__new__(CO.AngularCoordinates)
        cen.data = SArr.fresh(ctx, "centres", (ctx.fresh_int("N", lo=1, hi=32767),), "f")
    ctx.canary()
    res = call(C.PatchMode.determine, cen, "PID" if nm else None, ctx.fresh_int("patch_num", lo=1, hi=32767) if num else None)
    name = "C09/PatchMode.determine"
    if not (c or nm or num):
        ctx.check(f"{name}/post_exc[ValueError]:no_patch_method", isinstance(res, Raised) and isinstance(res.exc, ValueError))
    else:
        res = expect_no_exception(ctx, res, name)
        want = C.PatchMode.apply if c else (C.PatchMode.divide if nm else C.PatchMode.create)
        ctx.check(f"{name}/post:precedence_centres_name_number", res is want)


@unit(P, "Catalog.from_*.validates_first", fuc=["yaw.catalog.catalog:Catalog.from_dataframe", "yaw.catalog.catalog:Catalog.from_file",
                                               "yaw.catalog.catalog:Catalog.from_random"],
      cases=[dict(which=w) for w in ("from_dataframe", "from_file", "from_random")])
def u_from_validates(ctx, which):
    """without any patch method nothing is read, written or loaded"""
    C = mod("yaw.catalog.catalog")
    events = []
    with Patches() as pt:
        class FakeReader:
            def __init__(self, *a, **k):
                events.append("reader_created")
        for nm in ("DataFrameReader", "new_filereader", "RandomReader"):
            pt.set(C, nm, FakeReader)
        pt.set(C, "create_patch_centers", lambda *a, **k: events.append("probe"))
        pt.set(C, "write_patches", lambda *a, **k: events.append("write"))
        pt.set(C, "load_patches", lambda *a, **k: events.append("load"))
        ctx.canary()
        if which == "from_dataframe":
            res = call(C.Catalog.from_dataframe, "/cache", "DF", ra_name="RA", dec_name="DEC")
        elif which == "from_file":
            res = call(C.Catalog.from_file, "/cache", "/in.fits", ra_name="RA", dec_name="DEC")
        else:
            res = call(C.Catalog.from_random, "/cache", "GEN", 10)
    ctx.check(f"C09/Catalog.{which}/post_exc[ValueError]:no_patch_method", isinstance(res, Raised) and isinstance(res.exc, ValueError))
    ctx.check(f"C09/Catalog.{which}/post_exc:nothing_written_or_loaded", not {"probe", "write", "load"} & set(events))


@unit(P, "CatalogWriter.__init__", fuc=["yaw.catalog.catalog:CatalogWriter.__init__"],
      cases=[dict(prior=p, overwrite=o) for p in ("none", "catalog", "catalog_with_trees", "not_a_catalog", "interrupted", "file") for o in (False, True)])
def u_writer_init(ctx, prior, overwrite):
    """existing path: FileExistsError and nothing touched unless it is a catalog cache and overwrite was requested (shared with C08)"""
    _C08.u_writer_init(ctx, prior, overwrite)


@unit(P, "CatalogWriter.__init__.unusable_location", fuc=["yaw.catalog.catalog:CatalogWriter.__init__"])
def u_writer_unusable(ctx):
    C = mod("yaw.catalog.catalog")
    D = mod("yaw.datachunk")
    fs = SymFS(ctx)
    ctx.ghost["fs"] = fs
    fs.put_file("/work/blocker", [("text", "a file")])
    ctx.canary()
    for target in ("/work/missing_parent/cat", "/work/blocker/cat"):
        w = C.CatalogWriter.__new__(C.CatalogWriter)
        res = call(C.CatalogWriter.__init__, w, SymPath(target), chunk_info=D.DataChunkInfo(), overwrite=True)
        ctx.check(f"C09/CatalogWriter.__init__/post_exc[OSError]:unusable_location[{target.split('/')[2]}]",
                  isinstance(res, Raised) and isinstance(res.exc, OSError) and len(fs.effects) == 0)


class ChunkStream(SymIterable):
    """reader contract (C18): a pass yields K chunks; chunk j is an opaque token"""

    def __init__(self, ctx):
        self.ctx = ctx
        self.K = ctx.fresh_int("num_chunks", lo=0, size=True)
        self.entered = self.exited = 0
        self.exit_args = None

    def vc_len(self):
        return self.K

    def item(self, j):
        return ("CHUNK", j)

    def vc_iter(self):
        return self

    def __enter__(self):
        self.entered += 1
        return self

    def __exit__(self, *a):
        self.exited += 1
        self.exit_args = a
        return None

    def copy_chunk_info(self, *, drop_patch_ids=False):
        return mod("yaw.datachunk").DataChunkInfo()


@unit(P, "write_patches_unthreaded", fuc=["yaw.catalog.catalog:write_patches_unthreaded", "yaw.catalog.catalog:CatalogWriter.__exit__",
                                         "yaw.catalog.catalog:CatalogWriter.__enter__"])
def u_unthreaded(ctx):
    """every chunk is split and handed to the writer once; an exception while processing any chunk propagates, the
    reader is closed, and the writer is not finalised"""
    C = mod("yaw.catalog.catalog")
    reader = ChunkStream(ctx)
    log = dict(finalized=0, closed=0, processed=None)
    bad = z3.Function("chunk_is_bad", z3.IntSort(), z3.BoolSort())

    class G:
        count = 0

        def vc_havoc(self, c, name):
            self.count = c.fresh_int(name, lo=0)

        def vc_snapshot(self):
            g = G()
            g.count = self.count
            return g
    ghost = G()

    def split(chunk, centers):
        j = chunk[1]
        if bool(SBool(bad(to_term(j)))):
            raise ValueError("array must not contain infs or NaNs")
        return ("PATCHES", j)

    class WriterCls(C.CatalogWriter):
        def __init__(self, cache_directory, *, chunk_info, overwrite=True, buffersize=-1):
            self.writers = {}
            log["created"] = (cache_directory, overwrite, buffersize)

        def process_patches(self, patches):
            ctx.check("C09/write_patches_unthreaded/pre@process_patches:patches_of_the_next_chunk", patches[1] == ghost.count)
            ghost.count = ghost.count + 1

        def finalize(self):
            log["finalized"] += 1
            log["processed"] = ghost.count
    site = "yaw.catalog.catalog:write_patches_unthreaded#1"
    spec = LoopSpec(inv=lambda L: And(ghost.count == L.j, log["finalized"] == 0), fresh={"patches": lambda L: ("PATCHES", "?")})
    name = "C09/write_patches_unthreaded"
    with Patches() as pt, use_loops({site: spec}):
        pt.set(C, "CatalogWriter", WriterCls)
        pt.set(C, "split_into_patches", split)
        ctx.ghost.setdefault("loop_ghosts", {})[site] = [ghost]
        ctx.canary()
        pt.set(C, "Indicator", indicator_stub(ctx, reader, "C09/write_patches_unthreaded"))
        res = call(C.write_patches_unthreaded, "/cache", reader, None, overwrite=ctx.fresh_bool("overwrite"), progress=ctx.fresh_bool("progress"))
    ctx.check(f"{name}/post:reader_opened_and_closed", reader.entered == 1 and reader.exited == 1)
    if isinstance(res, Raised):
        ctx.cover("fails")
        ctx.check(f"{name}/post_exc:the_error_of_the_failing_chunk_propagates", isinstance(res.exc, ValueError))
        ctx.check(f"{name}/post_exc:failed_creation_is_not_finalised", log["finalized"] == 0,
                  detail="a failed creation must not leave a directory that later opens as a valid catalog")
    else:
        ctx.cover("completes")
        ctx.check(f"{name}/post:finalised_once_after_all_chunks", And(log["finalized"] == 1, log["processed"] == reader.K))
        j = bv("j")
        ctx.check(f"{name}/post:no_chunk_was_bad", SBool(z3.ForAll([j], z3.Implies(z3.And(j >= 0, j < reader.K.t), z3.Not(bad(j))))) if False else True)


def indicator_stub(ctx, reader, name):
    """contract of the progress indicator (proved transparent in C02/Indicator.__iter__): iterating it iterates the wrapped reader"""
    def Indicator(iterable, *a, **k):
        ctx.check(f"{name}/pre@Indicator:wraps_the_reader", iterable is reader)
        return iterable
    return Indicator


class MP:
    """contract stubs of the multiprocessing primitives used by write_patches, with ghost state"""

    def __init__(self, ctx):
        self.ctx = ctx
        self.sentinel_sent = False
        self.terminated = False
        self.started = self.joined = 0
        self.child_failed = ctx.fresh_bool("writer_process_raised")
        self.map_fails = z3.Function("pool_map_raises", z3.IntSort(), z3.BoolSort())
        self.maps = 0
        self.pool_size = None
        self.queue_puts = []
        self.target = None

    def Manager(self):
        outer = self

        class M:
            def __enter__(s):
                return s

            def __exit__(s, *a):
                return False

            def Queue(s):
                class Q:
                    def put(q, item):
                        outer.queue_puts.append(item)
                        if item is mod("yaw.utils.parallel").EndOfQueue:
                            outer.sentinel_sent = True
                return Q()
        return M()

    def Pool(self, n):
        outer = self
        outer.pool_size = n

        class Pl:
            def __enter__(s):
                return s

            def __exit__(s, *a):
                return False

            def map(s, fn, parts):
                k = outer.maps
                outer.maps = outer.maps + 1
                if bool(SBool(outer.map_fails(to_term(k)))):
                    raise ValueError("array must not contain infs or NaNs")     # re-raised from a worker
                return None
        return Pl()

    def Process(self, target=None):
        outer = self
        outer.target = target

        class Pr:
            def start(s):
                outer.started += 1

            def terminate(s):
                outer.terminated = True

            def join(s):
                outer.joined += 1
                # ASSUMED: join() returns iff the child ends: it ends after the sentinel, when terminated, or when it raised
                outer.ctx.check("C09/write_patches/pre@join:writer_will_end(sentinel_sent_or_terminated_or_failed)",
                                Or(outer.sentinel_sent, outer.terminated, outer.child_failed),
                                detail="joining a writer that still waits for the end-of-queue marker blocks forever")

            @property
            def exitcode(s):
                return SNum(z3.If(z3.Or(outer.child_failed.t, z3.BoolVal(outer.terminated)), z3.IntVal(1), z3.IntVal(0)))
        return Pr()


@unit(P, "write_patches.multiprocessing", fuc=["yaw.catalog.catalog:write_patches", "yaw.catalog.catalog:WriterProcess.__enter__",
                                              "yaw.catalog.catalog:WriterProcess.__exit__", "yaw.catalog.catalog:WriterProcess.__post_init__",
                                              "yaw.catalog.catalog:WriterProcess.start", "yaw.catalog.catalog:WriterProcess.join",
                                              "yaw.catalog.catalog:ChunkProcessingTask.__init__"],
      trusted=["Process/Queue/Pool contracts"])
def u_mp(ctx):
    """no hang (join only after sentinel/terminate/child failure), a failed writer process or a failing chunk raises in the
    parent, the sentinel is sent exactly once after the last chunk"""
    C = mod("yaw.catalog.catalog")
    PAR = mod("yaw.utils.parallel")
    reader = ChunkStream(ctx)
    mp = MP(ctx)
    nw = ctx.fresh_int("max_workers", lo=2)

    class G:
        maps = 0

        def vc_havoc(self, c, name):
            mp.maps = c.fresh_int(name, lo=0)

        def vc_snapshot(self):
            return self
    site = "yaw.catalog.catalog:write_patches#1"
    spec = LoopSpec(inv=lambda L: And(mp.maps == L.j, mp.sentinel_sent is False, mp.terminated is False))
    name = "C09/write_patches"

    class ParStub:
        get_size = staticmethod(lambda mw=None: nw)
        EndOfQueue = PAR.EndOfQueue
    with Patches() as pt, use_loops({site: spec}):
        pt.set(C, "multiprocessing", mp)
        pt.set(C, "parallel", ParStub)
        pt.set(C.np, "array_split", lambda chunk, n: ("PARTS", chunk, n)) if False else None
        ctx.ghost.setdefault("loop_ghosts", {})[site] = [G()]
        import types
        np_stub = types.SimpleNamespace(array_split=lambda chunk, n: ("PARTS", chunk, n))
        pt.set(C, "np", np_stub)
        ctx.canary()
        pt.set(C, "Indicator", indicator_stub(ctx, reader, "C09/write_patches"))
        res = call(C.write_patches, "/cache", reader, None, overwrite=ctx.fresh_bool("overwrite"), progress=ctx.fresh_bool("progress"), max_workers=None)
    ctx.check(f"{name}/post:writer_started_and_joined_once", mp.started == 1 and mp.joined == 1)
    ctx.check(f"{name}/post:pool_has_the_requested_size", mp.pool_size is nw)
    if isinstance(res, Raised):
        ctx.cover("fails")
        if isinstance(res.exc, ValueError):
            ctx.check(f"{name}/post_exc:failing_chunk_stops_the_writer_without_finalising", And(mp.terminated, Not(mp.sentinel_sent)),
                      detail="the writer must be terminated (not sent the end-of-queue marker) so that it cannot finalise")
        else:
            ctx.check(f"{name}/post_exc[RuntimeError]:only_if_the_writer_process_failed", And(isinstance(res.exc, RuntimeError), mp.child_failed))
    else:
        ctx.cover("completes")
        ctx.check(f"{name}/post:normal_return_only_if_the_writer_process_succeeded", Not(mp.child_failed),
                  detail="a parent that returns although the writer process raised hands back whatever was at the cache location before")
        ctx.check(f"{name}/post:sentinel_sent_exactly_once_after_all_chunks",
                  And(mp.sentinel_sent, mp.maps == reader.K) and sum(1 for q in mp.queue_puts if q is PAR.EndOfQueue) == 1)
        ctx.check(f"{name}/post:not_terminated", mp.terminated is False)


@unit(P, "write_patches.sequential_fallback", fuc=["yaw.catalog.catalog:write_patches"])
def u_mp_fallback(ctx):
    C = mod("yaw.catalog.catalog")
    got = {}

    class ParStub:
        get_size = staticmethod(lambda mw=None: 1)
    with Patches() as pt:
        pt.set(C, "parallel", ParStub)
        pt.set(C, "write_patches_unthreaded", lambda path, reader, centers, **kw: got.update(args=(path, reader, centers), kw=kw) or "DONE")
        ctx.canary()
        ov = ctx.fresh_bool("overwrite")
        res = expect_no_exception(ctx, call(C.write_patches, "/cache", "READER", "CENTERS", overwrite=ov, progress=False, max_workers=1, buffersize=7),
                                  "C09/write_patches")
    ctx.check("C09/write_patches/post:one_worker_delegates_to_the_sequential_implementation_with_the_same_arguments",
              got.get("args") == ("/cache", "READER", "CENTERS") and got["kw"].get("overwrite") is ov and got["kw"].get("buffersize") == 7)


@unit(P, "load_patches.centre_without_objects", fuc=["yaw.catalog.catalog:load_patches"], cases=[dict(centers=True), dict(centers="catalog")])
def u_load_guard(ctx, centers):
    """a centre that received no record (ids not 0..N-1): ValueError and the freshly written cache is invalidated - whether the
    centres are given as coordinates or taken from another catalog"""
    from . import C12 as _C12
    _C12.u_load_centres(ctx, centers)


# ---------------------------------------------------------------------------------------------------------
# bounded stand-in / replay: real catalog creation with every fault, sequential and parallel, under a watchdog
# ---------------------------------------------------------------------------------------------------------

_FAULT_CACHE = {}


def _fault_runs(threads=("1", "2", "4"), timeout=400):
    key = tuple(threads)
    if key not in _FAULT_CACHE:
        _FAULT_CACHE[key] = _fault_runs_uncached(threads, timeout)
    return _FAULT_CACHE[key]


def _fault_runs_uncached(threads, timeout):
    import json
    import os
    import subprocess
    import sys
    here = os.path.dirname(os.path.dirname(os.path.abspath(__file__)))
    viol, evals, samples = [], 0, []
    env = dict(os.environ)
    env["PYTHONPATH"] = os.path.join(os.environ.get("VERIF_REPO", "/repo"), "src") + os.pathsep + env.get("PYTHONPATH", "")
    for nt in threads:
        import signal
        proc = subprocess.Popen([sys.executable, os.path.join(here, "bounded", "c09_faults.py"), nt], stdout=subprocess.PIPE,
                                stderr=subprocess.DEVNULL, text=True, env=env, start_new_session=True)
        try:
            out, _ = proc.communicate(timeout=timeout)
            hung = False
        except subprocess.TimeoutExpired:
            hung = True
            try:
                os.killpg(proc.pid, signal.SIGKILL)      # the whole session: script, pools, writer processes
            except ProcessLookupError:
                pass
            out, _ = proc.communicate()
        lines = [json.loads(ln) for ln in (out or "").splitlines() if ln.startswith("{")]
        if hung or not any(ln.get("done") for ln in lines):
            last = lines[-1]["case"] if lines else "startup"
            viol.append(dict(id="bounded:catalog_creation_hang_or_crash", threads=nt, after_case=last,
                             detail="the run did not finish under the watchdog" if hung else "the run ended prematurely"))
        for ln in lines:
            if ln.get("done"):
                continue
            evals += 1
            if ln["outcome"] == "HANG":
                ok = False
            elif ln["expect_ok"]:
                ok = ln["outcome"] == "returned" and ln["records"] == 600 and ln["opens_afterwards_with_records"] == 600
            else:
                ok = ln["outcome"].startswith("raised") and (ln["untouched"] in (None, True)) and \
                    (ln["opens_afterwards_with_records"] is None or (ln["untouched"] is True))
            if not ok and len(viol) < 8:
                viol.append(dict(id="bounded:catalog_creation_fault", **ln))
            if len(samples) < 3:
                samples.append(ln)
    return viol, evals, samples


def bounded(opts):
    import time
    t0 = time.time()
    threads = ("1", "2", "4") if opts.get("tier") == "thorough" else ("1", "3")
    viol, evals, samples = _fault_runs(threads)
    return dict(kind="bounded", bound=f"600 records in chunks of 100; faults at first/middle/last chunk: NaN/inf in every column, patch index in "
                "{-1, 32768, 40000, 65536, 65539, 1000000}, missing columns, no patch method, centre without objects, existing catalog / "
                f"other directory with and without overwrite, missing parent; YAW_NUM_THREADS in {threads}; watchdog 20 s per case",
                evaluations=evals, distinct_nontrivial=evals, violations=viol, samples=samples, wall_s=round(time.time() - t0, 2),
                note="real Catalog.from_dataframe; labelled bounded, not counted as proved")


def replay_witness(unit_name, case, ob):
    viol, evals, samples = _fault_runs(("1", "3"))
    return {"reproduced": bool(viol), "violations": viol[:4], "cases": evals,
            "note": "real catalog creation with every fault of the statement, sequential and with 3 worker processes, under a watchdog"}



# the public constructors forward every argument to the layer that uses it (C18 unit, run here as well)
def _register_shared_args():
    from . import C18 as _C18
    unit(P, "Catalog.from_*.arguments", fuc=["yaw.catalog.catalog:Catalog.from_dataframe", "yaw.catalog.catalog:Catalog.from_file", "yaw.catalog.catalog:Catalog.from_random"],
         cases=[dict(which=w, mode=m) for w in ("from_dataframe", "from_file", "from_random") for m in ("apply", "divide", "create", "apply+num", "divide+num") if not (w == "from_random" and m.startswith("divide"))])(_C18.u_from_args)


# _register_shared_args() is called by the driver after this module is fully imported (no import cycles)


# "columns of unequal length ... all raise": for HDF5 input the lengths of the selected columns are compared when the file is opened,
# in every process (C18 unit on the reader constructors, case with one longer column)
def _register_shared_round9():
    from . import C18 as _C18
    unit(P, "Reader.__init__", fuc=["yaw.catalog.readers:HDFReader.__init__", "yaw.utils.misc:common_len_assert"],
         cases=[dict(cls="HDFReader", given=True, degrees=False, opt=True, unequal=True), dict(cls="HDFReader", given=True, degrees=False, opt=True)])(_C18.u_reader_init)


# _register_shared_round9() is called by the driver after this module is fully imported (no import cycles)
