"""C18 - input is consumed in bounded chunks, each record once per pass.

Obligations (integers only):
  * DataChunkReader.__next__ / __iter__ : iteration protocol over the ghost counter k (`_num_samples == k*chunksize`)
  * <Reader>._get_next_chunk           : the request log of the source shim for chunk k is exactly
                                         [k*c, (k+1)*c) per column, never larger than chunksize
  * pass lemma                         : the chunks of one pass are consecutive, disjoint, cover [0, n)
  * DataReader.get_probe               : gathers through iter(self) (no direct source request)
  * RandomReader.get_probe             : (known finding F26) one request of probe_size rows
  * Catalog.from_dataframe/from_file/from_random : one pass, one more iff patch centres are generated
"""
from __future__ import annotations

import z3

from pyvc import core, shadow
from pyvc.core import SNum, SBool, Ctx, EndPath
from pyvc.arrays import SArr
from pyvc.builtins_shim import SymIterable
from .common import *  # noqa: F401,F403
from .common import And, Or, Implies, Min, mod, unit, call, Raised, expect_no_exception, fail, use_loops, LoopSpec, Patches
from . import readers_common as RC

EXPLANATION = (
    "Deductive: the reader functions are re-read from /repo/src/yaw/catalog/readers.py, transformed mechanically and "
    "executed on symbolic integers n (records), c (chunksize), k (chunks already delivered); every source access is "
    "logged by a source shim and the log is compared with the specification [k*c, min((k+1)*c, n)). The pass lemma "
    "(chunks consecutive, disjoint, covering [0,n)) is proved from the __next__ contract by non-linear integer "
    "arithmetic. No bound on n, c or the number of chunks.")
TRUSTED = []
NOT_DECIDED = ["ParquetReader: a row group larger than the chunk is read whole by pyarrow.read_row_group (F27, inherent in the Parquet "
               "API); the units prove that a group is requested only while less than a chunk is cached"]
ASSUMPTIONS = ["single process (parallel.on_worker() is False); MPI branches are covered by C06"]

P = "C18"


def _state(ctx, r, n, c):
    k = ctx.fresh_int("k", lo=0, size=True)
    r._num_samples = k * c
    ctx.inputs["k"] = ("int", k)
    return k


@unit(P, "DataChunkReader.__next__", fuc=["yaw.catalog.readers:DataChunkReader.__next__",
                                          "yaw.catalog.readers:DataChunkReader.num_records"])
def u_next(ctx):
    """__next__ advances the ghost counter by one chunk and delegates exactly once, or stops when exhausted"""
    R = mod("yaw.catalog.readers")
    calls = []

    class Probe(R.DataChunkReader):
        def get_probe(self, probe_size):
            raise AssertionError

        def __exit__(self, *a):
            return None

        def _get_next_chunk(self):
            calls.append(self._num_samples)
            return "CHUNK"

    r = Probe.__new__(Probe)
    n = ctx.fresh_int("n", lo=0, size=True)
    c = ctx.fresh_int("chunksize", lo=0)
    ctx.assume(z3.Or(c.t >= 1, n.t == 0), "type:reader invariant")
    r._num_records, r.chunksize = n, c
    ctx.inputs.update(n=("int", n), chunksize=("int", c))
    k = _state(ctx, r, n, c)
    ctx.canary()
    name = "C18/DataChunkReader.__next__"
    res = call(Probe.__next__, r)
    if isinstance(res, Raised):
        if not isinstance(res.exc, StopIteration):
            expect_no_exception(ctx, res, name)
        ctx.cover("stop")
        ctx.check(f"{name}/post_exc[StopIteration]:only_when_exhausted", k * c >= n)
        ctx.check(f"{name}/frame:state_unchanged_on_stop", r._num_samples == k * c)
        ctx.check(f"{name}/post_exc:no_request_on_stop", len(calls) == 0)
    else:
        ctx.cover("chunk")
        ctx.check(f"{name}/post:not_exhausted", k * c < n)
        ctx.check(f"{name}/post:advance_one_chunk", r._num_samples == (k + 1) * c)
        ctx.check(f"{name}/post:exactly_one_delegation", len(calls) == 1)
        if calls:
            ctx.check(f"{name}/post:delegation_after_advance", calls[0] == (k + 1) * c)
        ctx.check(f"{name}/post:returns_the_chunk", res == "CHUNK")
        ctx.check(f"{name}/frame", And(r._num_records == n, r.chunksize == c))


@unit(P, "DataChunkReader.__iter__", fuc=["yaw.catalog.readers:DataChunkReader.__iter__",
                                          "yaw.catalog.readers:DataChunkReader._reset_iter_state"])
def u_iter(ctx):
    """__iter__ starts a new pass at k = 0 and returns the reader itself"""
    R = mod("yaw.catalog.readers")

    class Probe(R.DataChunkReader):
        def get_probe(self, probe_size):
            raise AssertionError

        def __exit__(self, *a):
            return None

        def _get_next_chunk(self):
            raise AssertionError

    r = Probe.__new__(Probe)
    r._num_records = ctx.fresh_int("n", lo=0)
    r.chunksize = ctx.fresh_int("chunksize", lo=1)
    r._num_samples = ctx.fresh_int("any_state")
    ctx.canary()
    res = expect_no_exception(ctx, call(Probe.__iter__, r), "C18/DataChunkReader.__iter__")
    ctx.check("C18/DataChunkReader.__iter__/post:restart_at_zero", r._num_samples == 0)
    ctx.check("C18/DataChunkReader.__iter__/post:returns_self", res is r)


@unit(P, "pass_lemma", kind="lemma")
def u_pass(ctx):
    """from the __next__/_get_next_chunk contracts: chunk k = [k*c, min((k+1)*c, n)) for every k with k*c < n.
    Then the chunks of a pass are non-empty, at most c long, consecutive (hence disjoint), start at 0, end at n,
    and every row lies in exactly one of them."""
    n = ctx.fresh_int("n", lo=0, size=True)
    c = ctx.fresh_int("chunksize", lo=1)
    k = ctx.fresh_int("k", lo=0, size=True)
    ctx.inputs.update(n=("int", n), chunksize=("int", c), k=("int", k))
    ctx.canary()
    lo = lambda j: j * c  # noqa: E731
    hi = lambda j: Min((j + 1) * c, n)  # noqa: E731
    live = lambda j: j * c < n  # noqa: E731
    ctx.check("C18/pass_lemma/nonempty_and_bounded", Implies(live(k), And(lo(k) < hi(k), hi(k) - lo(k) <= c)))
    ctx.check("C18/pass_lemma/consecutive", Implies(And(live(k), live(k + 1)), hi(k) == lo(k + 1)))
    ctx.check("C18/pass_lemma/starts_at_zero", lo(SNum(z3.IntVal(0))) == 0)
    ctx.check("C18/pass_lemma/last_chunk_ends_at_n", Implies(And(live(k), core.SBool(z3.Not((live(k + 1)).t))), hi(k) == n))
    ctx.check("C18/pass_lemma/stops_after_last", Implies(core.SBool(z3.Not(live(k).t)), core.SBool(z3.Not(live(k + 1).t))))
    # every row t in exactly one chunk: existence (k = t div c) and uniqueness
    t = ctx.fresh_int("t", lo=0)
    ctx.assume(t.t < n.t, "lemma:arbitrary row")
    q = SNum(t.t / c.t)
    ctx.check("C18/pass_lemma/every_row_in_some_chunk", And(live(q), lo(q) <= t, t < hi(q)))
    k2 = ctx.fresh_int("k2", lo=0)
    ctx.check("C18/pass_lemma/row_in_at_most_one_chunk",
              Implies(And(live(k), lo(k) <= t, t < hi(k), live(k2), lo(k2) <= t, t < hi(k2)), k == k2))


def _reader_unit(ctx, cls_name, src_cls, w, z, p):
    r, n, c = RC.make_reader(ctx, cls_name, w, z, p)
    src = src_cls(ctx, n)
    if cls_name == "DataFrameReader":
        r._data = src
    elif cls_name == "HDFReader":
        r._file = src
    elif cls_name == "FitsReader":
        r._hdu_data = src
    k = ctx.fresh_int("k", lo=0, size=True)
    ctx.inputs["k"] = ("int", k)
    ctx.assume((k * c < n).t, "pre:__next__ delegates only when not exhausted")
    r._num_samples = (k + 1) * c   # already advanced by __next__ (its contract)
    calls = []
    name = f"C18/{cls_name}._get_next_chunk"
    with Patches() as pt:
        RC.stub_datachunk_create(ctx, pt, calls)
        ctx.canary()
        res = expect_no_exception(ctx, call(type(r)._get_next_chunk, r), name)
    cols = RC.columns_for(w, z, p)
    ctx.check(f"{name}/post:one_request_per_column", len(src.log) == (1 if cls_name == "DataFrameReader" else len(cols)))
    for kind, a, b in src.log:
        ctx.check(f"{name}/post:request_is_chunk_k[{kind}]", And(a == k * c, b == (k + 1) * c))
        ctx.check(f"{name}/post:request_at_most_chunksize[{kind}]", b - a <= c)
    ctx.check(f"{name}/post:one_chunk_created", len(calls) == 1)
    if calls:
        tok = calls[0]
        ctx.check(f"{name}/post:columns", set(tok.kwargs) == set(cols))
        for attr, arr in tok.kwargs.items():
            nm, lo, ln = arr.meta["rows"]
            ctx.check(f"{name}/post:rows[{attr}]", And(nm == cols[attr], lo == k * c, ln == Min(c, n - k * c)))
        ctx.check(f"{name}/post:returns_created_chunk", res is tok)
    ctx.check(f"{name}/frame:state", And(r._num_samples == (k + 1) * c, r._num_records == n, r.chunksize == c))


@unit(P, "DataFrameReader._get_next_chunk", fuc=["yaw.catalog.readers:DataFrameReader._get_next_chunk"],
      cases=RC.OPTIONAL_COLUMN_CASES, trusted=["pandas positional slice"])
def u_df(ctx, w, z, p):
    _reader_unit(ctx, "DataFrameReader", RC.FrameSource, w, z, p)


@unit(P, "HDFReader._get_next_chunk", fuc=["yaw.catalog.readers:HDFReader._get_next_chunk"],
      cases=RC.OPTIONAL_COLUMN_CASES, trusted=["h5py dataset slice"])
def u_hdf(ctx, w, z, p):
    _reader_unit(ctx, "HDFReader", RC.HdfSource, w, z, p)


@unit(P, "FitsReader._get_next_chunk", fuc=["yaw.catalog.readers:FitsReader._get_next_chunk"],
      cases=RC.OPTIONAL_COLUMN_CASES, trusted=["fits column slice"])
def u_fits(ctx, w, z, p):
    _reader_unit(ctx, "FitsReader", RC.FitsSource, w, z, p)


@unit(P, "RandomReader._get_next_chunk", fuc=["yaw.catalog.readers:RandomReader._get_next_chunk"])
def u_rand(ctx):
    """the generator is asked for min(c, n - k*c) points: the last chunk is truncated, never more than a chunk"""
    R = mod("yaw.catalog.readers")
    r = R.RandomReader.__new__(R.RandomReader)
    n = ctx.fresh_int("n", lo=0, size=True)
    c = ctx.fresh_int("chunksize", lo=1)
    k = ctx.fresh_int("k", lo=0, size=True)
    ctx.inputs.update(n=("int", n), chunksize=("int", c), k=("int", k))
    ctx.assume((k * c < n).t, "pre:__next__ delegates only when not exhausted")
    reqs = []

    class Gen:
        def __call__(self, size):
            reqs.append(size)
            return ("DRAW", size)

    r.generator, r._num_records, r.chunksize, r._num_samples = Gen(), n, c, (k + 1) * c
    ctx.canary()
    name = "C18/RandomReader._get_next_chunk"
    res = expect_no_exception(ctx, call(R.RandomReader._get_next_chunk, r), name)
    ctx.check(f"{name}/post:one_request", len(reqs) == 1)
    if reqs:
        ctx.check(f"{name}/post:size_is_min(c,remaining)", reqs[0] == Min(c, n - k * c))
        ctx.check(f"{name}/post:request_at_most_chunksize", And(reqs[0] <= c, reqs[0] >= 1))
        ctx.check(f"{name}/post:returns_the_draw", res[1] is reqs[0])


class ContractReader(SymIterable):
    """a reader given by its (proved) iteration contract: a pass yields chunk j = rows [j*c, min((j+1)*c, n))"""

    def __init__(self, ctx, n, c, mk_chunk):
        self.ctx, self.n, self.c, self.mk_chunk = ctx, n, c, mk_chunk
        self.passes = 0
        self.K = ctx.fresh_int("num_chunks", lo=0, size=True)
        # K = ceil(n/c):  (K-1)*c < n <= K*c  (K = 0 iff n = 0)
        ctx.assume(z3.And((self.K.t - 1) * c.t < n.t, n.t <= self.K.t * c.t), "contract:pass lemma (number of chunks)")

    def vc_iter(self):
        self.passes += 1
        return self

    def vc_len(self):
        return self.K

    def item(self, j):
        return self.mk_chunk(j)


@unit(P, "DataReader.get_probe", fuc=["yaw.catalog.readers:DataReader.get_probe"])
def u_probe(ctx):
    """the probe of a file/data-frame source is gathered in exactly one pass of chunks - no direct source access"""
    R = mod("yaw.catalog.readers")
    n = ctx.fresh_int("n", lo=1, size=True)
    c = ctx.fresh_int("chunksize", lo=1)
    ps = ctx.fresh_int("probe_size", lo=1, size=True)
    ctx.inputs.update(n=("int", n), chunksize=("int", c), probe_size=("int", ps))
    direct = []

    class ProbeReader(R.DataReader):
        def __init__(self):
            pass

        def __exit__(self, *a):
            return None

        def _get_next_chunk(self):
            direct.append("next_chunk")
            raise AssertionError

    r = ProbeReader.__new__(ProbeReader)
    r._num_records, r.chunksize = n, c

    def mk_chunk(j):
        ln = Min(c, n - j * c)
        a = SArr.fresh(ctx, "chunk", (ln,), "f")
        return a
    it = ContractReader(ctx, n, c, mk_chunk)
    # iter(self) -> the contract of __iter__/__next__ (proved in the units above)
    ProbeReader.vc_iter = lambda self: it.vc_iter()
    site = "yaw.catalog.readers:DataReader.get_probe#1"
    from pyvc.builtins_shim import SSeq
    spec = LoopSpec(
        inv=lambda L: And(L.j >= 0),
        fresh={"chunks": lambda L: SSeq(L.ctx.fresh_int("nchunks_gathered", lo=0), lambda j: SArr.fresh(L.ctx, "part", (L.ctx.fresh_int("partlen", lo=0),), "f")),
               "idx_keep": lambda L: SArr.fresh(L.ctx, "idx_keep", (L.ctx.fresh_int("nkeep", lo=0),), "i"),
               "idx_keep_chunk": lambda L: SArr.fresh(L.ctx, "idx_keep_chunk", (L.ctx.fresh_int("nkeepc", lo=0),), "i")})
    name = "C18/DataReader.get_probe"
    with use_loops({site: spec}), Patches() as pt:
        N = mod("yaw.catalog.readers").np
        pt.set(mod("yaw.catalog.readers"), "np", _NpProbe(N))
        ctx.canary()
        res = call(R.DataReader.get_probe, r, ps)
    if isinstance(res, Raised):
        expect_no_exception(ctx, res, name)
    ctx.check(f"{name}/post:exactly_one_pass", it.passes == 1)
    ctx.check(f"{name}/post:no_direct_source_request", len(direct) == 0)


class _NpProbe:
    """np with the two primitives of get_probe that only matter for *which* rows are kept (not for the request
    pattern C18 is about) abstracted: linspace(...).astype(int) and concatenate of the gathered parts"""

    def __init__(self, real):
        self._real = real

    def __getattr__(self, k):
        return getattr(self._real, k)

    def linspace(self, lo, hi, num):
        ctx = Ctx.cur
        return SArr.fresh(ctx, "linspace", (num,), "f")

    def concatenate(self, parts):
        return "PROBE"


class GhostCounter:
    """ghost state mutated by a stub inside a cut loop: havoc = fresh value, described by the loop invariant"""

    def __init__(self, v=0):
        self.value = v

    def vc_havoc(self, ctx, name):
        self.value = ctx.fresh_int(name, lo=0)

    def vc_snapshot(self):
        return GhostCounter(self.value)


@unit(P, "RandomReader.get_probe", fuc=["yaw.catalog.readers:RandomReader.get_probe"])
def u_rprobe(ctx):
    """the probe of a random source: every request to the generator is at most one chunk (precondition of the
    generator stub, checked at every call site) and the requests add up to probe_size"""
    R = mod("yaw.catalog.readers")
    r = R.RandomReader.__new__(R.RandomReader)
    n = ctx.fresh_int("n", lo=1, size=True)
    c = ctx.fresh_int("chunksize", lo=1)
    ps = ctx.fresh_int("probe_size", lo=0, size=True)
    ctx.inputs.update(n=("int", n), chunksize=("int", c), probe_size=("int", ps))
    name = "C18/RandomReader.get_probe"
    total = GhostCounter(0)
    seeded = []

    class Gen:
        def __call__(self, size):
            ctx.check(f"{name}/pre@generator:request_at_most_chunksize", And(size <= c, size >= 0),
                      detail="a request to the random generator larger than one chunk")
            ctx.check(f"{name}/pre@generator:reseeded_before_drawing", len(seeded) >= 1)
            total.value = total.value + size
            return SArr.fresh(ctx, "draw", (size,), "f")

        def reseed(self, seed=None):
            seeded.append(1)

    r.generator, r._num_records, r.chunksize, r._num_samples = Gen(), n, c, 0
    site = "yaw.catalog.readers:RandomReader.get_probe#1"
    from pyvc.builtins_shim import SSeq
    spec = LoopSpec(
        inv=lambda L: And(L.num_drawn >= 0, L.num_drawn <= ps, total.value == L.num_drawn),
        mutates=(),
        fresh={"chunks": lambda L: SSeq(L.ctx.fresh_int("nparts", lo=0), lambda j: SArr.fresh(L.ctx, "part", (1,), "f")),
               "size": lambda L: L.ctx.fresh_int("size")})
    loops = {site: spec} if site in shadow.SITES else {}

    class _Np:
        def __getattr__(self, k):
            return getattr(R.np, k)

        def concatenate(self, parts):
            return "PROBE"
    with use_loops(loops), Patches() as pt:
        pt.set(R, "np", _Np())
        if loops:
            # the ghost counter is mutated by the stub inside the loop
            spec.fresh["_ghost_total"] = None
            spec.fresh.pop("_ghost_total")
            _register_ghost(ctx, site, total)
        ctx.canary()
        res = call(R.RandomReader.get_probe, r, ps)
    if isinstance(res, Raised):
        if isinstance(res.exc, ValueError):
            ctx.check(f"{name}/post_exc[ValueError]:only_if_probe_exceeds_records", ps > n)
            ctx.check(f"{name}/post_exc:no_request", total.value == 0)
            return
        expect_no_exception(ctx, res, name)
    ctx.check(f"{name}/post:probe_not_larger_than_source", ps <= n)
    ctx.check(f"{name}/post:probe_has_requested_size", total.value == ps)


def _register_ghost(ctx, site, ghost):
    ctx.ghost.setdefault("loop_ghosts", {}).setdefault(site, []).append(ghost)


def _from_unit(ctx, which, mode):
    """Catalog.from_*: number of passes over the source = 1 (+1 iff patch centres are generated)"""
    C = mod("yaw.catalog.catalog")
    events = []
    with Patches() as pt:
        class FakeReader:
            def __init__(self, *a, **k):
                events.append(("reader_created",))

        def determine(patch_centers, patch_name, patch_num):
            return {"apply": C.PatchMode.apply, "divide": C.PatchMode.divide, "create": C.PatchMode.create}[mode]

        def create_patch_centers(reader, patch_num, probe_size):
            events.append(("probe_pass", reader))   # contract: exactly one pass (DataReader.get_probe unit)
            return "CENTERS"

        def write_patches(path, reader, patch_centers, **k):
            events.append(("write_pass", reader, patch_centers))   # contract: exactly one pass

        def load_patches(cache_directory, *, patch_centers, progress, max_workers=None):
            events.append(("load", patch_centers))
            return {}
        if which == "from_dataframe":
            pt.set(C, "DataFrameReader", FakeReader)
        elif which == "from_file":
            pt.set(C, "new_filereader", FakeReader)
        else:
            pt.set(C, "RandomReader", FakeReader)
        pt.set(C.PatchMode, "determine", staticmethod(determine))
        pt.set(C, "create_patch_centers", create_patch_centers)
        pt.set(C, "write_patches", write_patches)
        pt.set(C, "load_patches", load_patches)
        ctx.canary()
        given = "GIVEN" if mode == "apply" else None
        name = f"C18/Catalog.{which}"
        if which == "from_dataframe":
            res = call(C.Catalog.from_dataframe, "/cache", "DF", ra_name="RA", dec_name="DEC",
                       patch_centers=given, patch_name="PID" if mode == "divide" else None,
                       patch_num=ctx.fresh_int("patch_num", lo=1) if mode == "create" else None)
        elif which == "from_file":
            res = call(C.Catalog.from_file, "/cache", "/in.fits", ra_name="RA", dec_name="DEC",
                       patch_centers=given, patch_name="PID" if mode == "divide" else None,
                       patch_num=ctx.fresh_int("patch_num", lo=1) if mode == "create" else None)
        else:
            res = call(C.Catalog.from_random, "/cache", "GEN", ctx.fresh_int("num_randoms", lo=1),
                       patch_centers=given, patch_num=ctx.fresh_int("patch_num", lo=1) if mode == "create" else None)
        expect_no_exception(ctx, res, name)
    probes = [e for e in events if e[0] == "probe_pass"]
    writes = [e for e in events if e[0] == "write_pass"]
    readers = [e for e in events if e[0] == "reader_created"]
    ctx.check(f"{name}/post:one_reader", len(readers) == 1)
    ctx.check(f"{name}/post:one_write_pass", len(writes) == 1)
    ctx.check(f"{name}/post:probe_pass_iff_centres_generated", len(probes) == (1 if mode == "create" else 0))
    if probes and writes:
        ctx.check(f"{name}/post:same_reader_for_both_passes", probes[0][1] is writes[0][1])
        ctx.check(f"{name}/post:generated_centres_are_used", writes[0][2] == "CENTERS")
    if probes and writes:
        ctx.check(f"{name}/post:probe_before_write", events.index(probes[0]) < events.index(writes[0]))


_FROM_CASES = [dict(which=w, mode=m) for w in ("from_dataframe", "from_file", "from_random")
               for m in ("apply", "divide", "create") if not (w == "from_random" and m == "divide")]


@unit(P, "Catalog.from_*", fuc=["yaw.catalog.catalog:Catalog.from_dataframe", "yaw.catalog.catalog:Catalog.from_file",
                                 "yaw.catalog.catalog:Catalog.from_random"], cases=_FROM_CASES)
def u_from(ctx, which, mode):
    _from_unit(ctx, which, mode)


# ---------------------------------------------------------------------------------------------------------
# replay of counterexamples on the real, untransformed code
# ---------------------------------------------------------------------------------------------------------

def replay_witness(unit_name, case, ob):
    """Concretise the verifier's model and run the *real* yaw function on it."""
    import importlib
    w = ob.get("witness") or {}
    if unit_name == "RandomReader.get_probe":
        readers = importlib.import_module("yaw.catalog.readers")
        n, c, ps = int(w.get("n", 2)), int(w.get("chunksize", 1)), int(w.get("probe_size", 2))
        reqs = []

        class Gen:
            def copy_chunk_info(self):
                from yaw.datachunk import DataChunkInfo
                return DataChunkInfo()

            def reseed(self, seed=None):
                pass

            def __call__(self, size):
                reqs.append(int(size))
                return None
        r = readers.RandomReader(Gen(), n, c)
        r.get_probe(ps)
        bad = [q for q in reqs if q > c]
        return {"reproduced": bool(bad), "inputs": dict(num_randoms=n, chunksize=c, probe_size=ps),
                "observed_requests": reqs, "expected": f"every request <= chunksize={c}"}
    if unit_name in ("DataChunkReader.__next__", "RandomReader._get_next_chunk") or (unit_name.endswith("_get_next_chunk") and not unit_name.startswith("ParquetReader")):
        r = _replay_pass(unit_name, case, w)
        if r.get("reproduced"):
            return r
    fails = [(n_, d) for n_, ok, d in _battery(True) if not ok]
    return {"reproduced": bool(fails), "failed_cases": [f"{n_}: {d}" for n_, d in fails][:6],
            "note": "every reader of the real library over real sources (data frame, HDF5, FITS, Parquet with uniform / ragged row groups, random generator), two passes each"}


_BAT = {}


def _battery(quick):
    if quick not in _BAT:
        import warnings
        from bounded import c18_readers
        with warnings.catch_warnings():
            warnings.simplefilter("ignore")
            _BAT[quick] = c18_readers.battery(quick)
    return _BAT[quick]


def bounded(opts):
    import time
    t0 = time.time()
    quick = opts.get("tier", "quick") == "quick"
    res = _battery(quick)
    fails = [(n_, d) for n_, ok, d in res if not ok]
    return dict(kind="bounded", bound="real library: DataFrameReader, HDFReader, FitsReader, ParquetReader (row groups of 50; ragged layouts [100,50,100,30], [40,100,60,80], "
                "[1,99,7,173]) and RandomReader for 1, 7, 100, 280 records (thorough: + 2, 64, 1000) and chunk sizes 1, 3, 80, 100, 1000 (thorough: + 2, 7, 40, 250, 5000); "
                "two passes each: chunk lengths are the input cut at multiples of the chunk size, records in order and once, every Parquet row group requested once per pass",
                evaluations=len(res), distinct_nontrivial=len(res), violations=[dict(id=f"bounded:{n_}", detail=d) for n_, d in fails][:12],
                samples=[n_ for n_, _, _ in res[:3]], wall_s=round(time.time() - t0, 2), note="real library; labelled bounded, not counted as proved")


def _replay_pass(unit_name, case, w):
    """run a complete real pass over a real in-memory source and compare the request log with the specification"""
    import importlib
    import numpy as np
    readers = importlib.import_module("yaw.catalog.readers")
    n, c = int(w.get("n", 5)), max(int(w.get("chunksize", 2)), 1)
    n = min(n, 200)
    log = []
    if unit_name.startswith("RandomReader") or unit_name == "DataChunkReader.__next__":
        class Gen:
            def copy_chunk_info(self):
                from yaw.datachunk import DataChunkInfo
                return DataChunkInfo()

            def reseed(self, seed=None):
                pass

            def __call__(self, size):
                log.append(int(size))
                return np.zeros(int(size))
        r = readers.RandomReader(Gen(), n, c)
        sizes = [len(ch) for ch in r]
        expect = [min(c, n - k * c) for k in range((n + c - 1) // c)]
        return {"reproduced": sizes != expect or log != expect, "inputs": dict(num_randoms=n, chunksize=c),
                "observed": sizes, "expected": expect}
    import pandas as pd

    class LoggedFrame:
        def __init__(self, df):
            self.df = df

        def __len__(self):
            return len(self.df)

        def __getitem__(self, key):
            log.append((key.start, key.stop))
            return self.df[key]
    df = pd.DataFrame({"RA": np.arange(n, dtype=float), "DEC": np.zeros(n)})
    r = readers.DataFrameReader(LoggedFrame(df), ra_name="RA", dec_name="DEC", chunksize=c, degrees=False)
    got = np.concatenate([ch["ra"] for ch in r]) if n else np.zeros(0)
    expect = [(k * c, (k + 1) * c) for k in range((n + c - 1) // c)]
    ok = log == expect and np.array_equal(got, np.arange(n, dtype=float))
    return {"reproduced": not ok, "inputs": dict(n=n, chunksize=c), "observed_requests": log[:20], "expected": expect[:20]}


# ---------------------------------------------------------------------------------------------------------
# ParquetReader: row groups, cache of tables
# ---------------------------------------------------------------------------------------------------------
# ASSUMED pyarrow contracts: the file is a sequence of G row groups, group i = rows [gstart(i), gstart(i+1)), gstart(0) = 0,
# gstart(G) = n; read_row_group(i) returns that table and raises ArrowException iff i >= G; concat_tables of adjacent tables is
# their union; table[a:b] is the python slice of the rows; table.column(c).to_numpy() are the rows of column c.
# The cache (a deque of tables) is abstracted to the row range it covers [lo, hi) and the number of tables k: popleft returns
# *some* leading part of the range (the real group boundaries are one of the possibilities), so what is proved holds for
# every layout of row groups.

class Tab:
    def __init__(self, src, lo, ln):
        self.src, self.lo, self.ln = src, SNum(z3.simplify(to_term(lo))), SNum(z3.simplify(to_term(ln)))

    def vc_len(self):
        return self.ln

    def __getitem__(self, sl):
        if not isinstance(sl, slice) or sl.step is not None:
            raise core.Unsupported("table index other than a slice")
        lo, ln = SArr._slice_bounds(sl, self.ln)
        return Tab(self.src, self.lo + SNum(lo), SNum(ln))

    def column(self, name):
        return RC._Col(self.src, name, self.lo, self.ln)


class RangeDeque:
    """deque of adjacent tables covering the rows [lo, hi) with k tables"""

    def __init__(self, ctx, src, lo, hi, k):
        self.ctx, self.src, self.lo, self.hi, self.k = ctx, src, lo, hi, k

    def wf(self):
        return And(self.lo <= self.hi, self.k >= 0, Implies(self.k == 0, self.lo == self.hi))

    def vc_havoc(self, c, name):
        self.lo, self.hi, self.k = c.fresh_int(name + "_lo", lo=0), c.fresh_int(name + "_hi", lo=0), c.fresh_int(name + "_k", lo=0)

    def vc_snapshot(self):
        return RangeDeque(self.ctx, self.src, self.lo, self.hi, self.k)

    def vc_len(self):
        return self.k

    def __bool__(self):
        return bool(self.k > 0)

    def append(self, tab):
        self.ctx.check("C18/ParquetReader/pre@cache.append:the_table_continues_the_cached_rows", And(isinstance(tab, Tab), tab.lo == self.hi))
        self.hi = self.hi + tab.ln
        self.k = self.k + 1

    def appendleft(self, tab):
        self.ctx.check("C18/ParquetReader/pre@cache.appendleft:the_table_ends_where_the_cached_rows_start", And(isinstance(tab, Tab), tab.lo + tab.ln == self.lo))
        self.lo = tab.lo
        self.k = self.k + 1

    def popleft(self):
        if not self.ctx.branch((self.k > 0).t):
            raise IndexError("pop from an empty deque")
        ln = self.ctx.fresh_int("popped_rows", lo=0)
        self.ctx.assume(z3.And(ln.t <= (self.hi - self.lo).t, z3.Implies((self.k == 1).t, ln.t == (self.hi - self.lo).t)), "contract:cache abstraction")
        t = Tab(self.src, self.lo, ln)
        self.lo = self.lo + ln
        self.k = self.k - 1
        return t


class TabList:
    """list of adjacent tables (only append is used): covers [lo, lo + ln)"""

    def __init__(self, src, lo, ln, count):
        self.src, self.lo, self.ln, self.count = src, lo, ln, count

    def append(self, tab):
        Ctx.cur.check("C18/ParquetReader/pre@groups.append:adjacent", And(isinstance(tab, Tab), tab.lo == self.lo + self.ln))
        self.ln = self.ln + tab.ln
        self.count = self.count + 1


class ParquetFile:
    def __init__(self, ctx, src, n):
        self.ctx, self.src, self.n = ctx, src, n
        self.G = ctx.fresh_int("num_row_groups", lo=0, size=True)
        self.gstart = z3.Function("row_group_start", z3.IntSort(), z3.IntSort())
        i = z3.Int("i?rg")
        ctx.assume(z3.And(self.gstart(0) == 0, self.gstart(self.G.t) == n.t), "pyarrow:row groups partition the file")
        j = z3.Int("j?rg")
        ctx.assume(z3.ForAll([i, j], z3.Implies(z3.And(i >= 0, i <= j, j <= self.G.t), self.gstart(i) <= self.gstart(j)),
                             patterns=[z3.MultiPattern(self.gstart(i), self.gstart(j))]), "pyarrow:row groups partition the file (group starts are monotone)")
        self.log = []

    def read_row_group(self, idx, columns):
        self.ctx.trust("pyarrow: read_row_group(i) returns rows [gstart(i), gstart(i+1)); ArrowException iff i >= number of groups")
        it = to_term(idx)
        if not self.ctx.branch(z3.And(it >= 0, it < self.G.t)):
            raise self.exc("row group index out of range")
        if getattr(self, "guard", None):
            self.guard()
        self.log.append((SNum(it), list(columns)))
        return Tab(self.src, SNum(self.gstart(it)), SNum(self.gstart(it + 1) - self.gstart(it)))


class ArrowExc(Exception):
    pass


def concat_tables(groups):
    Ctx.cur.trust("pyarrow: concat_tables of adjacent tables is their union")
    if isinstance(groups, TabList):
        if not Ctx.cur.branch((groups.count > 0).t):
            raise ValueError("Must pass at least one table")
        return Tab(groups.src, groups.lo, groups.ln)
    if not groups:
        raise ValueError("Must pass at least one table")
    for a, b in zip(groups, groups[1:]):
        Ctx.cur.check("C18/ParquetReader/pre@concat_tables:adjacent", a.lo + a.ln == b.lo)
    ln = groups[0].ln
    for g in groups[1:]:
        ln = ln + g.ln
    return Tab(groups[0].src, groups[0].lo, ln)


def make_parquet(ctx, w, z, p, pos_is_chunk_start=True):
    """ParquetReader after k chunks: rows [0, k*c) delivered; cache = [k*c, hi), hi = start of the next unread group"""
    R = mod("yaw.catalog.readers")
    r, n, c = RC.make_reader(ctx, "ParquetReader", w, z, p)
    ctx.assume(z3.Or(c.t >= 1, n.t == 0), "type:reader")
    src = RC.Source(ctx, n)
    f = ParquetFile(ctx, src, n)
    f.exc = ArrowExc
    r._file = f
    k = ctx.fresh_int("k", lo=0, size=True)
    ctx.inputs["k"] = ("int", k)
    ctx.assume((k * c < n).t, "pre:__next__ delegates only when not exhausted")
    r._num_samples = (k + 1) * c
    gi = ctx.fresh_int("group_idx", lo=0)
    ctx.assume(gi.t <= f.G.t, "type:ParquetReader invariant")
    r._group_idx = gi
    hi = SNum(f.gstart(gi.t))
    kq = ctx.fresh_int("tables_in_cache", lo=0)
    dq = RangeDeque(ctx, src, k * c, hi, kq)
    ctx.assume(dq.wf().t, "type:ParquetReader invariant (cache = rows [k*c, start of the next unread group))")
    r._group_cache = dq
    return r, n, c, k, f, dq, src


def parquet_patches(pt):
    R = mod("yaw.catalog.readers")
    import types
    pt.set(R, "ArrowException", ArrowExc)
    pt.set(R, "pa", types.SimpleNamespace(concat_tables=concat_tables))


LOAD_SITE = "yaw.catalog.readers:ParquetReader._load_groups#1"
EXTRACT_SITE = "yaw.catalog.readers:ParquetReader._extract_chunk#1"


@unit(P, "ParquetReader._get_group_cache_size", fuc=["yaw.catalog.readers:ParquetReader._get_group_cache_size"])
def u_pq_size(ctx):
    """the number of rows in the cache (sum of the table lengths), for a cache of any length"""
    R = mod("yaw.catalog.readers")
    from pyvc.builtins_shim import SSeq
    from pyvc import sigma
    m = ctx.fresh_int("tables", lo=0, size=True)
    ln = z3.Function("table_rows", z3.IntSort(), z3.IntSort())
    r = R.ParquetReader.__new__(R.ParquetReader)
    r._group_cache = SSeq(m, lambda t: Tab(None, 0, SNum(ln(to_term(t)))))
    ctx.canary()
    got = expect_no_exception(ctx, call(r._get_group_cache_size), "C18/ParquetReader._get_group_cache_size")
    want = sigma.sum_iterable(SSeq(m, lambda t: SNum(ln(to_term(t)))), 0)
    ctx.check("C18/ParquetReader._get_group_cache_size/post:sum_of_the_table_lengths", got == want)


@unit(P, "ParquetReader._load_groups", fuc=["yaw.catalog.readers:ParquetReader._load_groups"], trusted=["pyarrow read_row_group"])
def u_pq_load(ctx):
    """reads the next unread row groups, each once and in order, only while the cache holds less than a chunk; afterwards the
    cache holds at least a chunk or the file is exhausted; the cached rows still start at the first undelivered row"""
    r, n, c, k, f, dq, src = make_parquet(ctx, True, False, False)
    R = mod("yaw.catalog.readers")
    gi0, hi0 = r._group_idx, dq.hi
    name = "C18/ParquetReader._load_groups"

    def inv(L):
        return And(dq.wf(), dq.lo == k * c, L.self._group_idx >= gi0, L.self._group_idx <= f.G, dq.hi == SNum(f.gstart(to_term(L.self._group_idx))))

    f.guard = lambda: ctx.check(f"{name}/pre@read_row_group:only_while_the_cache_holds_less_than_a_chunk", dq.hi - dq.lo < c,
                                detail="a row group is requested although a full chunk is already cached")
    with Patches() as pt, use_loops({LOAD_SITE: LoopSpec(inv=inv, fresh={"self": lambda L: _fresh_reader(L, r)})}):
        parquet_patches(pt)
        pt.set(R.ParquetReader, "_get_group_cache_size", lambda self: self._group_cache.hi - self._group_cache.lo)
        ctx.ghost.setdefault("loop_ghosts", {})[LOAD_SITE] = [dq]
        ctx.canary()
        expect_no_exception(ctx, call(R.ParquetReader._load_groups, r), name)
    r2 = ctx.ghost.get("reader_after", r)
    ctx.check(f"{name}/post:a_full_chunk_or_the_end_of_the_file", Or(dq.hi - dq.lo >= c, dq.hi == n))
    ctx.check(f"{name}/post:cache_still_starts_at_the_first_undelivered_row", And(dq.lo == k * c, dq.wf()))
    for idx, cols in f.log:
        ctx.check(f"{name}/post:only_the_configured_columns_are_read", cols == list(r._columns.values()))


def _fresh_reader(L, r):
    """the reader with a havoc'd row-group index (everything else is not assigned in the loops)"""
    import copy
    r2 = copy.copy(L.self) if False else L.self
    r2._group_idx = L.ctx.fresh_int("group_idx", lo=0)
    L.ctx.ghost["reader_after"] = r2
    return r2


@unit(P, "ParquetReader._extract_chunk", fuc=["yaw.catalog.readers:ParquetReader._extract_chunk"], trusted=["pyarrow concat_tables / slice"])
def u_pq_extract(ctx):
    """returns exactly the first min(c, cached) rows of the cache in order; the rest goes back to the front of the cache"""
    r, n, c, k, f, dq, src = make_parquet(ctx, True, False, False)
    R = mod("yaw.catalog.readers")
    ctx.assume(Or(dq.hi - dq.lo >= c, dq.hi == n).t, "pre:_load_groups.post")
    lo0, hi0 = dq.lo, dq.hi
    name = "C18/ParquetReader._extract_chunk"

    def inv(L):
        g = L.groups
        if isinstance(g, list):
            cov = And(L.num_records == 0, len(g) == 0) if not g else False
            return And(dq.wf(), dq.lo == lo0, dq.hi == hi0, cov)
        return And(dq.wf(), g.lo == lo0, g.ln == L.num_records, L.num_records >= 0, g.count >= 0, Implies(g.count == 0, g.ln == 0),
                   dq.lo == lo0 + L.num_records, dq.hi == hi0)
    spec = LoopSpec(inv=inv, fresh={"groups": lambda L: TabList(src, lo0, L.ctx.fresh_int("rows_taken", lo=0), L.ctx.fresh_int("tables_taken", lo=0))},
                    keep=("self",))
    with Patches() as pt, use_loops({EXTRACT_SITE: spec}):
        parquet_patches(pt)
        ctx.ghost.setdefault("loop_ghosts", {})[EXTRACT_SITE] = [dq]
        ctx.canary()
        res = call(R.ParquetReader._extract_chunk, r)
    if isinstance(res, Raised):
        ctx.check(f"{name}/post_exc:only_without_any_cached_row", And(isinstance(res.exc, ValueError), lo0 == hi0),
                  detail=f"{type(res.exc).__name__}: {res.exc}")
        return
    take = Min(c, hi0 - lo0)
    ctx.check(f"{name}/post:the_first_rows_of_the_cache", And(isinstance(res, Tab), res.lo == lo0, res.ln == take))
    ctx.check(f"{name}/post:the_rest_stays_cached_in_order", And(dq.wf(), dq.lo == lo0 + take, dq.hi == hi0))


@unit(P, "ParquetReader._get_next_chunk", fuc=["yaw.catalog.readers:ParquetReader._get_next_chunk"], cases=RC.OPTIONAL_COLUMN_CASES)
def u_pq_next(ctx, w, z, p):
    """chunk k holds the rows [k*c, min((k+1)*c, n)) of the configured columns; the class invariant (cache = rows from the first
    undelivered row to the next unread group) is re-established"""
    r, n, c, k, f, dq, src = make_parquet(ctx, w, z, p)
    R = mod("yaw.catalog.readers")
    calls = []
    name = "C18/ParquetReader._get_next_chunk"

    def load(self):
        # contract of _load_groups (u_pq_load): reads following groups until a chunk is cached or the file ends
        gi = ctx.fresh_int("group_idx_after", lo=0)
        ctx.assume(z3.And(gi.t >= to_term(self._group_idx), gi.t <= f.G.t), "contract:_load_groups")
        self._group_idx = gi
        dq.hi = SNum(f.gstart(gi.t))
        dq.k = ctx.fresh_int("tables_after_load", lo=0)
        ctx.assume(And(dq.wf(), Or(dq.hi - dq.lo >= c, dq.hi == n)).t, "contract:_load_groups")

    def extract(self):
        take = Min(c, dq.hi - dq.lo)
        if not ctx.branch((dq.hi > dq.lo).t):
            raise ValueError("Must pass at least one table")
        t = Tab(src, dq.lo, take)
        dq.lo = dq.lo + take
        dq.k = ctx.fresh_int("tables_after_extract", lo=0)
        ctx.assume(dq.wf().t, "contract:_extract_chunk")
        return t
    with Patches() as pt:
        parquet_patches(pt)
        RC.stub_datachunk_create(ctx, pt, calls)
        pt.set(R.ParquetReader, "_load_groups", load)
        pt.set(R.ParquetReader, "_extract_chunk", extract)
        ctx.canary()
        res = expect_no_exception(ctx, call(R.ParquetReader._get_next_chunk, r), name)
    cols = RC.columns_for(w, z, p)
    ctx.check(f"{name}/post:one_chunk_created", len(calls) == 1 and res is calls[0])
    if calls:
        tok = calls[0]
        ctx.check(f"{name}/post:columns", set(tok.kwargs) == set(cols))
        for attr, arr in tok.kwargs.items():
            nm, lo, ln = arr.meta["rows"]
            ctx.check(f"{name}/post:rows[{attr}]", And(nm == cols[attr], lo == k * c, ln == Min(c, n - k * c)))
    ctx.check(f"{name}/post:invariant_for_the_next_chunk", And(dq.wf(), dq.lo == Min((k + 1) * c, n), dq.hi == SNum(f.gstart(to_term(r._group_idx))), r._group_idx <= f.G))


# ---------------------------------------------------------------------------------------------------------
# reader constructors: the configured chunk size, unit flag and column names reach the reader state
# ---------------------------------------------------------------------------------------------------------

@unit(P, "Reader.__init__", fuc=["yaw.catalog.readers:DataReader.__init__", "yaw.catalog.readers:DataFrameReader.__init__", "yaw.catalog.readers:FitsReader.__init__",
                                "yaw.catalog.readers:HDFReader.__init__", "yaw.catalog.readers:ParquetReader.__init__", "yaw.catalog.readers:DataChunkReader._reset_iter_state"],
      cases=[dict(cls=c, given=g, degrees=d, opt=o) for c in ("DataFrameReader", "FitsReader", "HDFReader", "ParquetReader") for g in (False, True)
             for d in (False, True) for o in (False, True)] + [dict(cls="HDFReader", given=True, degrees=False, opt=True, unequal=True)])
def u_reader_init(ctx, cls, given, degrees, opt, unequal=False):
    """after construction: the chunk size is the configured one (the module default if none is given), never larger; the unit flag is
    the one passed; the column map holds exactly the given names under their attributes; the record count is the length of the
    source; iteration starts at record 0"""
    R = mod("yaw.catalog.readers")
    import types
    n = ctx.fresh_int("n", lo=1, size=True)
    cs = ctx.fresh_int("chunksize", lo=1) if given else None
    names = dict(ra_name="RA", dec_name="DEC")
    if opt:
        names.update(weight_name="W", redshift_name="Z", patch_name="PID")
    name = f"C18/{cls}.__init__"

    n_other = ctx.fresh_int("n_other_column", lo=1, size=True)
    if unequal:
        ctx.assume(n_other.t != n.t, "pre:one column of the file has another length")
    limit = cs if given else SNum(z3.IntVal(R.CHUNKSIZE))

    class Sized:
        def __init__(s, tag, length=None):
            s.tag, s.length = tag, (n if length is None else length)

        def vc_len(s):
            return s.length

        def __getitem__(s, key):
            return Sized((s.tag, key), n_other if (unequal and key == "W") else None)

        def __array__(s, *a, **k):
            # converting a column object to an array reads it completely, in one request
            ctx.check(f"{name}/pre@source:a_whole_column_is_read_at_once_only_if_it_fits_into_a_chunk", s.length <= limit,
                      detail="the constructor converted a lazy column into an array: the whole column is requested in one piece")
            import numpy as _np
            return _np.zeros(1)
    src = Sized("source")
    with Patches() as pt:
        pt.set(R, "issue_io_log", lambda *a, **k: None)
        pt.set(R, "fits", types.SimpleNamespace(open=lambda path: {1: types.SimpleNamespace(data=src)}))
        pt.set(R, "h5py", types.SimpleNamespace(File=lambda path, mode="r": src))
        pt.set(R, "parquet", types.SimpleNamespace(ParquetFile=lambda path: types.SimpleNamespace(metadata=types.SimpleNamespace(num_rows=n))))
        ctx.canary()
        klass = getattr(R, cls)
        arg = src if cls == "DataFrameReader" else "/data/file"
        if unequal:
            # C09: columns of unequal length are refused when the file is opened (the real length check runs on the column objects)
            r = call(klass, arg, **names, chunksize=cs, degrees=degrees)
            ctx.check(f"{name}/post_exc[ValueError]:columns_of_unequal_length_are_refused", isinstance(r, Raised) and isinstance(r.exc, ValueError),
                      detail=f"got {r!r}")
            return
        r = expect_no_exception(ctx, call(klass, arg, **names, chunksize=cs, degrees=degrees), name)
    want_cs = cs if given else SNum(z3.IntVal(R.CHUNKSIZE))
    ctx.check(f"{name}/post:chunksize_is_the_configured_one_or_the_default", And(r.chunksize <= want_cs, Or(r.chunksize == want_cs, r.chunksize == n)),
              detail="a reader that ignores the configured chunk size requests the whole input at once")
    ctx.check(f"{name}/post:unit_flag", r.degrees is degrees, detail="coordinates given in radian must not be converted again")
    want_cols = {"ra": "RA", "dec": "DEC"}
    if opt:
        want_cols.update(weights="W", redshifts="Z", patch_ids="PID")
    ctx.check(f"{name}/post:column_map", dict(r._columns) == want_cols and list(r._columns) == list(want_cols))
    ctx.check(f"{name}/post:chunk_info", r._chunk_info.has_weights == opt and r._chunk_info.has_redshifts == opt and r._chunk_info.has_patch_ids == opt)
    ctx.check(f"{name}/post:record_count_and_start", And(r._num_records == n, r._num_samples == 0))


# ---------------------------------------------------------------------------------------------------------
# the public constructors forward every argument (non-default sentinels all the way down)
# ---------------------------------------------------------------------------------------------------------

@unit(P, "Catalog.from_*.arguments", fuc=["yaw.catalog.catalog:Catalog.from_dataframe", "yaw.catalog.catalog:Catalog.from_file", "yaw.catalog.catalog:Catalog.from_random",
                                         "yaw.catalog.catalog:new_filereader"],
      cases=[dict(which=w, mode=m) for w in ("from_dataframe", "from_file", "from_random") for m in ("apply", "divide", "create", "apply+num", "divide+num")
             if not (w == "from_random" and m.startswith("divide"))])
def u_from_args(ctx, which, mode):
    """every argument of the public constructors reaches the layer that uses it, on every path: column names, unit flag and chunk
    size the reader; probe size and patch number the centre generation; cache directory, centres, overwrite, progress and worker
    limit the writer; centres, progress and worker limit the loader; the returned catalog holds the loaded patches"""
    C = mod("yaw.catalog.catalog")
    with_num = mode.endswith("+num")        # a patch number given *in addition*: centres > patch name > patch number
    mode = mode.split("+")[0]
    got = {}
    S = {k: ("SENTINEL", k) for k in ("df", "gen", "W", "Z", "cs", "centers", "mw", "probe", "extra")}
    name = f"C18/Catalog.{which}.arguments"

    class FakeReader:
        def __init__(self, *a, **k):
            got["reader"] = (a, k)

    def create_patch_centers(reader, patch_num, probe_size):
        got["create"] = (reader, patch_num, probe_size)
        return "GENERATED"

    def write_patches(path, reader, patch_centers, **k):
        got["write"] = (path, reader, patch_centers, k)

    def load_patches(cache_directory, **k):
        got["load"] = (cache_directory, k)
        return {"loaded": True}
    pnum = ctx.fresh_int("patch_num", lo=1, hi=32767)
    nrand = ctx.fresh_int("num_randoms", lo=1)
    CO = mod("yaw.coordinates")
    S["centers"] = CO.AngularCoordinates.__new__(CO.AngularCoordinates)
    import numpy as _np
    S["centers"].data = _np.zeros((1, 2))
    with Patches() as pt:
        pt.set(C, "DataFrameReader", FakeReader)
        pt.set(C, "RandomReader", FakeReader)
        if which == "from_file":
            R = mod("yaw.catalog.readers")
            for cls in ("FitsReader", "HDFReader", "ParquetReader"):
                pt.set(R, cls, FakeReader)
        pt.set(C, "create_patch_centers", create_patch_centers)
        pt.set(C, "write_patches", write_patches)
        pt.set(C, "load_patches", load_patches)
        ctx.canary()
        pm = dict(patch_centers=S["centers"] if mode == "apply" else None, patch_num=pnum if (mode == "create" or with_num) else None)
        common = dict(overwrite=True, progress=True, max_workers=S["mw"], chunksize=S["cs"], probe_size=S["probe"])
        cols = dict(ra_name="RA", dec_name="DEC", weight_name=S["W"], redshift_name=S["Z"], patch_name="PID" if mode == "divide" else None, degrees=False)
        if which == "from_dataframe":
            res = call(C.Catalog.from_dataframe, "/cache", S["df"], **cols, **pm, **common, extra=S["extra"])
        elif which == "from_file":
            res = call(C.Catalog.from_file, "/cache", "/data/in.hdf5", **cols, **pm, **common, extra=S["extra"])
        else:
            res = call(C.Catalog.from_random, "/cache", S["gen"], nrand, **pm, **common)
        res = expect_no_exception(ctx, res, name)
    a, k = got.get("reader", ((), {}))
    if which == "from_random":
        ctx.check(f"{name}/post:reader_gets_generator_number_and_chunk_size", tuple(a) + tuple(k.values()) == (S["gen"], nrand, S["cs"]) or (a[:2] == (S["gen"], nrand) and (list(a[2:]) + [k.get("chunksize")])[0] is S["cs"]))
    else:
        ctx.check(f"{name}/post:reader_gets_the_source", len(a) == 1 and (a[0] is S["df"] if which == "from_dataframe" else str(a[0]) == "/data/in.hdf5"))
        want = dict(cols, chunksize=S["cs"], extra=S["extra"])
        ctx.check(f"{name}/post:reader_gets_columns_unit_flag_chunk_size_and_extra_arguments", k == want, detail=f"{k} instead of {want}")
    reader_obj = got["write"][1] if "write" in got else None
    if mode == "create":
        ctx.check(f"{name}/post:centres_generated_from_the_reader_with_patch_num_and_probe_size", got.get("create") is not None and got["create"][0] is reader_obj
                  and got["create"][1] is pnum and got["create"][2] is S["probe"])
    else:
        ctx.check(f"{name}/post:no_centre_generation", "create" not in got)
    centres = {"apply": S["centers"], "divide": None, "create": "GENERATED"}[mode]
    same = lambda x: x is centres   # noqa: E731
    w = got.get("write")
    ctx.check(f"{name}/post:writer_gets_directory_reader_centres_and_options", w is not None and str(w[0]) == "/cache" and isinstance(w[1], FakeReader) and same(w[2])
              and w[3].get("overwrite") is True and w[3].get("progress") is True and w[3].get("max_workers") is S["mw"],
              detail=str(w))
    ld = got.get("load")
    ctx.check(f"{name}/post:loader_gets_directory_centres_and_options", ld is not None and str(ld[0]) == "/cache" and same(ld[1].get("patch_centers"))
              and ld[1].get("progress") is True and ld[1].get("max_workers") is S["mw"], detail=str(ld))
    ctx.check(f"{name}/post:catalog_holds_the_loaded_patches", res._patches == {"loaded": True} and str(res.cache_directory) == "/cache")
