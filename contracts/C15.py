"""C15 - configurations mean what their parameters say; modify equals create.

Specification (from the statement), with symbolic zmin/zmax/num_bins/scale limits and an abstract cosmology (distance
functions are uninterpreted, the comoving distance strictly increasing with an inverse):
  create    num_bins bins, strictly increasing edges, edges[0] == zmin, edges[-1] == zmax   (linear/comoving/logspace)
            custom edges are kept as given
  scales    theta = r * k_unit / D_unit(z): rad/deg/arcmin/arcsec, kpc/Mpc (angular diameter), kpc/h / Mpc/h (comoving)
  rejects   non-increasing edges, rmin >= rmax, unknown method/unit/cosmology, neither edges nor zmin/zmax
  modify    == create(merged parameters) with the configured cosmology; never mutates the original
  ==        configurations with equal parameters compare equal
"""
from __future__ import annotations

import itertools

import z3

from pyvc import core, shadow, realfn
from pyvc.core import SNum, SBool, Ctx, EndPath, Unsupported, to_term, tob, to_real
from pyvc.arrays import SArr, SList, bv, forall, dim_term
from pyvc.builtins_shim import vc_len
from .common import And, Or, Implies, Not, ForAll, mod, unit, call, Raised, expect_no_exception, fail, Patches

P = "C15"
EXPLANATION = (
    "Deductive: BinningConfig / ScalesConfig / Configuration (create, modify, from_dict, to_dict, __eq__), the "
    "RedshiftBinningFactory methods, parse_binning, new_scales and the three Scales classes are re-read from the "
    "current source and executed with symbolic parameters. The cosmology is an abstract object whose distance functions "
    "are uninterpreted (comoving distance strictly increasing with an inverse = contract of astropy's z_at_value); "
    "modify() is compared with create() on the merged parameters for enumerated which-parameters-are-given "
    "combinations with symbolic values.")
TRUSTED = ["astropy.cosmology.z_at_value is the inverse of the (strictly increasing) comoving distance",
           "np.linspace / np.logspace contracts (end points exact)"]
NOT_DECIDED = ["floating-point exactness of generated edges (only the pinned outer edges are exact in floats)",
               "Configuration round trip through YAML (C11)"]
ASSUMPTIONS = []

R = z3.RealSort()
_COSMO = {}


def cosmo_class():
    COS = mod("yaw.cosmology")
    if "cls" in _COSMO and _COSMO["mod"] is COS:
        return _COSMO["cls"]

    class SymCosmo(COS.CustomCosmology):
        """abstract cosmology: uninterpreted distance functions"""

        def __init__(self, tag):
            self.tag = tag
            self.name = tag
            self.fc = z3.Function(f"Dc_{tag}", R, R)
            self.fa = z3.Function(f"Da_{tag}", R, R)
            self.fi = z3.Function(f"DcInv_{tag}", R, R)

        def axioms(self, ctx):
            x, y = z3.Real("x?c"), z3.Real("y?c")
            ctx.assume(z3.ForAll([x, y], z3.Implies(x < y, self.fc(x) < self.fc(y)),
                                 patterns=[z3.MultiPattern(self.fc(x), self.fc(y))]), "cosmology:comoving distance strictly increasing")
            ctx.assume(z3.ForAll([x], self.fi(self.fc(x)) == x, patterns=[self.fc(x)]), "cosmology:z_at_value inverts the distance")
            ctx.assume(z3.ForAll([y], self.fc(self.fi(y)) == y, patterns=[self.fi(y)]), "cosmology:z_at_value inverts the distance")
            ctx.assume(z3.ForAll([x], z3.Implies(x > 0, z3.And(self.fc(x) > 0, self.fa(x) > 0)), patterns=[self.fc(x)]),
                       "cosmology:positive distances")
            ctx.assume(z3.ForAll([x], z3.Implies(x > 0, self.fa(x) > 0), patterns=[self.fa(x)]), "cosmology:positive distances")

        def _apply(self, f, z):
            if isinstance(z, (list, tuple)):
                return tuple(SNum(f(to_real(to_term(v)))) for v in z)
            if isinstance(z, SArr):
                old = z._elem
                return SArr(z.shape, lambda *i: f(to_real(old(*i))), "f")
            return SNum(f(to_real(to_term(z))))

        def comoving_distance(self, z):
            return self._apply(self.fc, z)

        def angular_diameter_distance(self, z):
            return self._apply(self.fa, z)

        def inverse_comoving(self, d):
            return self._apply(self.fi, d)
    _COSMO.update(cls=SymCosmo, mod=COS)
    return SymCosmo


class _Units:
    """stand-in for astropy.units inside the shadow cosmology module: quantities are plain numbers"""
    Mpc = 1

    class Quantity:
        pass


class _ZRes:
    def __init__(self, v):
        self.value = v


def install_cosmology(ctx, pt, default):
    COS = mod("yaw.cosmology")
    COMB = mod("yaw.config.combined")
    pt.set(COS, "units", _Units)
    pt.set(COS, "z_at_value", lambda func, values: _ZRes(func.__self__.inverse_comoving(values)))
    pt.set(COS, "get_default_cosmology", lambda: default)
    pt.set(COMB, "get_default_cosmology", lambda: default)
    pt.set(COMB, "default_cosmology", "DEFAULTNAME")
    pt.set(COMB, "yaml_to_cosmology", lambda name: default if name == "DEFAULTNAME" else (_ for _ in ()).throw(
        mod("yaw.config.base").ConfigError("unknown cosmology")))
    pt.set(COMB, "cosmology_is_equal", lambda a, b: a is b)
    default.axioms(ctx)


def sym_params(ctx):
    zmin, zmax = ctx.fresh_real("zmin"), ctx.fresh_real("zmax")
    nb = ctx.fresh_int("num_bins", lo=1, size=True)
    ctx.inputs.update(zmin=("real", zmin), zmax=("real", zmax), num_bins=("int", nb))
    return zmin, zmax, nb


def edges_spec(method, zmin, zmax, nb, cosmo, t):
    """edge t of the binning the statement describes (a z3 term)"""
    tt = z3.ToReal(to_term(t))
    n = z3.ToReal(nb.t)
    if method == "linear":
        return zmin.t + tt * (zmax.t - zmin.t) / n
    if method == "comoving":
        lo, hi = cosmo.fc(zmin.t), cosmo.fc(zmax.t)
        return cosmo.fi(lo + tt * (hi - lo) / n)
    if method == "logspace":
        log, exp = realfn.F["log"], realfn.F["exp"]
        lo, hi = log(1 + zmin.t), log(1 + zmax.t)
        return exp(lo + tt * (hi - lo) / n) - 1
    raise AssertionError(method)


def same_binning(a, b):
    return And(vc_len(a) == vc_len(b), str(a.closed) == str(b.closed),
               ForAll("t", lambda t: Implies(And(t >= 0, t <= vc_len(a)), a.edges.at(t) == b.edges.at(t))))


# ---------------------------------------------------------------------------------------------------------
# create
# ---------------------------------------------------------------------------------------------------------

@unit(P, "BinningConfig.create", fuc=["yaw.config.binning:BinningConfig.create", "yaw.config.binning:BinningConfig.__init__",
                                     "yaw.cosmology:RedshiftBinningFactory.__init__", "yaw.cosmology:RedshiftBinningFactory.get_method",
                                     "yaw.cosmology:RedshiftBinningFactory.linear", "yaw.cosmology:RedshiftBinningFactory.comoving",
                                     "yaw.cosmology:RedshiftBinningFactory.logspace", "yaw.binning:Binning.__init__",
                                     "yaw.binning:parse_binning"],
      cases=[dict(method=m, closed=c, cosmo=k) for m in ("linear", "comoving", "logspace") for c in ("left", "right")
             for k in ("none", "given")], trusted=["np.linspace", "np.logspace", "z_at_value"])
def u_create(ctx, method, closed, cosmo):
    """requested number of strictly increasing bins spanning exactly [zmin, zmax]; zmin >= zmax is rejected"""
    BC = mod("yaw.config.binning")
    O = mod("yaw.options")
    Cos = cosmo_class()
    default, given = Cos("default"), Cos("given")
    zmin, zmax, nb = sym_params(ctx)
    if method == "logspace":
        ctx.assume(zmin.t > -1, "pre:1+z > 0")
    if method == "comoving":
        ctx.assume(zmin.t >= 0, "pre:non-negative redshift")
    name = f"C15/BinningConfig.create[{method}]"
    with Patches() as pt:
        install_cosmology(ctx, pt, default)
        given.axioms(ctx)
        ctx.canary()
        res = call(BC.BinningConfig.create, zmin=zmin, zmax=zmax, num_bins=nb, method=method, closed=closed,
                   cosmology=given if cosmo == "given" else None)
    if isinstance(res, Raised):
        ctx.cover("rejects")
        ctx.check(f"{name}/post_exc[ValueError]:only_if_not_zmin<zmax", And(isinstance(res.exc, ValueError), Not(zmin < zmax)),
                  detail=f"{type(res.exc).__name__}: {res.exc}")
        return
    ctx.cover("creates")
    used = given if cosmo == "given" else default
    ctx.check(f"{name}/post:limits_were_ordered", zmin < zmax)
    ctx.check(f"{name}/post:number_of_bins", And(res.num_bins == nb, vc_len(res.binning) == nb))
    ctx.check(f"{name}/post:spans_exactly_zmin_zmax", And(res.edges.at(0) == zmin, res.edges.at(nb) == zmax, res.zmin == zmin, res.zmax == zmax))
    ctx.check(f"{name}/post:strictly_increasing", ForAll("t", lambda t: Implies(And(t >= 0, t < nb), res.edges.at(t) < res.edges.at(t + 1))))
    t = ctx.fresh_int("t", lo=1)
    ctx.assume(t.t < nb.t, "post:arbitrary inner edge")
    ctx.check(f"{name}/post:inner_edges_follow_the_method_with_the_given_cosmology",
              res.edges.at(t) == SNum(edges_spec(method, zmin, zmax, nb, used, t)),
              detail="inner edge t vs the method's formula evaluated with the cosmology that was passed")
    ctx.check(f"{name}/post:method_and_closed_recorded", And(str(res.method) == method, str(res.closed) == closed))


@unit(P, "BinningConfig.create.custom", fuc=["yaw.config.binning:BinningConfig.create"])
def u_create_custom(ctx):
    """custom edges are kept; invalid edges and missing parameters are rejected"""
    BC = mod("yaw.config.binning")
    BASE = mod("yaw.config.base")
    m = ctx.fresh_int("num_edges", lo=0, size=True)
    edges = SArr.fresh(ctx, "edges", (m,), "f", register=True)
    ctx.canary()
    name = "C15/BinningConfig.create[custom]"
    res = call(BC.BinningConfig.create, edges=edges, closed="left")
    valid = And(m >= 2, ForAll("t", lambda t: Implies(And(t >= 0, t + 1 < m), edges.at(t) < edges.at(t + 1))))
    if isinstance(res, Raised):
        ctx.check(f"{name}/post_exc[ValueError]:only_invalid_edges", And(isinstance(res.exc, ValueError), Not(valid)))
    else:
        ctx.check(f"{name}/post:edges_were_valid", valid)
        ctx.check(f"{name}/post:edges_kept", And(vc_len(res.binning) == m - 1,
                                                 ForAll("t", lambda t: Implies(And(t >= 0, t < m), res.edges.at(t) == edges.at(t)))))
        ctx.check(f"{name}/post:method_custom", And(str(res.method) == "custom", res.is_custom, str(res.closed) == "left"))
    r = call(BC.BinningConfig.create)
    ctx.check(f"{name}/post_exc:neither_edges_nor_limits", isinstance(r, Raised) and isinstance(r.exc, BASE.ConfigError))
    r = call(BC.BinningConfig.create, zmin=ctx.fresh_real("z1"))
    ctx.check(f"{name}/post_exc:zmin_without_zmax", isinstance(r, Raised) and isinstance(r.exc, BASE.ConfigError))
    r = call(BC.BinningConfig.create, zmin=0.1, zmax=0.2, method="no_such_method")
    ctx.check(f"{name}/post_exc:unknown_method", isinstance(r, Raised) and isinstance(r.exc, ValueError))
    r = call(BC.BinningConfig.create, zmin=0.1, zmax=0.2, closed="middle")
    ctx.check(f"{name}/post_exc:unknown_closed", isinstance(r, Raised) and isinstance(r.exc, ValueError))


# ---------------------------------------------------------------------------------------------------------
# scales
# ---------------------------------------------------------------------------------------------------------

UNITS = {"rad": ("ang", 1, 1), "deg": ("ang", 1, 180), "arcmin": ("ang", 1, 180 * 60), "arcsec": ("ang", 1, 180 * 3600),
         "kpc": ("phys", 1000, None), "Mpc": ("phys", 1, None), "kpc/h": ("com", 1000, None), "Mpc/h": ("com", 1, None)}


@unit(P, "Scales.get_angle_radian", fuc=["yaw.cosmology:new_scales", "yaw.cosmology:Scales._set_scales", "yaw.cosmology:Scales.get_angle_radian",
                                        "yaw.cosmology:AngularScales._compute_angle", "yaw.cosmology:PhysicalScales._compute_angle",
                                        "yaw.cosmology:ComovingScales._compute_angle", "yaw.cosmology:AngularScales.__init__",
                                        "yaw.cosmology:PhysicalScales.__init__", "yaw.cosmology:ComovingScales.__init__"],
      cases=[dict(unit_=u, cosmo=c) for u in UNITS for c in ("none", "given")])
def u_scales(ctx, unit_, cosmo):
    """theta = r / D_unit(z) in radian for the unit's distance measure and the given cosmology"""
    COS = mod("yaw.cosmology")
    Cos = cosmo_class()
    default, given = Cos("default"), Cos("given")
    m = ctx.fresh_int("num_scales", lo=1, size=True)
    rmin = SArr.fresh(ctx, "rmin", (m,), "f", register=True)
    rmax = SArr.fresh(ctx, "rmax", (m,), "f", register=True)
    z = ctx.fresh_real("z")
    ctx.assume(z.t > 0, "pre:positive redshift")
    name = f"C15/Scales[{unit_}]"
    with Patches() as pt:
        install_cosmology(ctx, pt, default)
        given.axioms(ctx)
        ctx.canary()
        sc = call(COS.new_scales, rmin, rmax, unit=unit_)
        ordered = ForAll("t", lambda t: Implies(And(t >= 0, t < m), rmin.at(t) < rmax.at(t)))
        if isinstance(sc, Raised):
            ctx.cover("rejects")
            ctx.check(f"{name}/post_exc[ValueError]:only_if_some_rmin>=rmax", And(isinstance(sc.exc, ValueError), Not(ordered)))
            return
        ctx.cover("creates")
        ctx.check(f"{name}/post:limits_ordered", ordered)
        ctx.check(f"{name}/post:num_scales", sc.num_scales == m)
        res = expect_no_exception(ctx, call(sc.get_angle_radian, z, cosmology=given if cosmo == "given" else None), name)
    used = given if cosmo == "given" else default
    kind, div, per_pi = UNITS[unit_]
    t = ctx.fresh_int("t", lo=0)
    ctx.assume(t.t < m.t, "post:arbitrary scale")
    for which, src, got in (("min", rmin, res[0]), ("max", rmax, res[1])):
        r = src._elem(t.t)
        if kind == "ang":
            want = r if per_pi == 1 else r * realfn.PI / per_pi
        elif kind == "phys":
            want = (r / div) / used.fa(z.t)
        else:
            want = (r / div) / used.fc(z.t)
        ctx.check(f"{name}/post:angle_{which}_is_r_over_D", got.elem(t.t) == want,
                  detail=f"unit {unit_}: angle vs r/D(z) with the unit's distance measure and the given cosmology")


@unit(P, "new_scales.unknown_unit", fuc=["yaw.cosmology:new_scales"])
def u_unknown_unit(ctx):
    COS = mod("yaw.cosmology")
    ctx.canary()
    r = call(COS.new_scales, 1.0, 2.0, unit="parsec")
    ctx.check("C15/new_scales/post_exc:unknown_unit", isinstance(r, Raised) and isinstance(r.exc, ValueError))
    SC = mod("yaw.config.scales")
    r = call(SC.ScalesConfig.create, rmin=2.0, rmax=1.0)
    ctx.check("C15/ScalesConfig.create/post_exc:rmin>=rmax_is_ConfigError", isinstance(r, Raised) and
              isinstance(r.exc, mod("yaw.config.base").ConfigError))


# ---------------------------------------------------------------------------------------------------------
# modify == create(merged)
# ---------------------------------------------------------------------------------------------------------

def _delta_cases(quick):
    bases = ("linear", "comoving", "custom")
    flags = list(itertools.product((False, True), repeat=4))      # zmin, zmax, num_bins, closed
    methods = (None, "linear", "comoving", "logspace")
    edges = (False, True)
    cosmos = ("notset", "none", "given")
    out = []
    for base in bases:
        for f in flags:
            for m in methods:
                for e in edges:
                    for c in cosmos:
                        out.append(dict(base=base, dz=f[0], dZ=f[1], dn=f[2], dc=f[3], method=m, edges=e, cosmo=c))
    if quick:
        # covering sample: every parameter set / not set with every base, method and cosmology option at least once
        keep = []
        for k, case in enumerate(out):
            if (k * 7 + (k // 48)) % 11 == 0 or (sum((case["dz"], case["dZ"], case["dn"], case["dc"])) in (0, 4) and not case["edges"]):
                keep.append(case)
        out = keep
    return out


def _run_modify(ctx, base, dz, dZ, dn, dc, method, edges, cosmo):
    BC = mod("yaw.config.binning")
    O = mod("yaw.options")
    Cos = cosmo_class()
    default, given = Cos("default"), Cos("given")
    name = "C15/BinningConfig.modify"
    with Patches() as pt:
        install_cosmology(ctx, pt, default)
        given.axioms(ctx)
        zmin, zmax, nb = sym_params(ctx)
        ctx.assume(z3.And(zmin.t >= 0, zmin.t < zmax.t), "pre:valid original configuration")
        if base == "custom":
            m0 = ctx.fresh_int("num_edges0", lo=2, size=True)
            e0 = SArr.fresh(ctx, "edges0", (m0,), "f")
            t = bv("t")
            ctx.assume(forall([t], z3.Implies(z3.And(t >= 0, t + 1 < m0.t), e0._elem(t) < e0._elem(t + 1))), "pre:valid original configuration")
            orig = expect_no_exception(ctx, call(BC.BinningConfig.create, edges=e0, closed="left"), name + "/setup")
        else:
            orig = expect_no_exception(ctx, call(BC.BinningConfig.create, zmin=zmin, zmax=zmax, num_bins=nb, method=base,
                                                 closed="left"), name + "/setup")
        snapshot = (orig.binning, orig.binning.edges.copy(), orig.method, orig.binning.closed)
        NS = O.NotSet
        d = dict(zmin=ctx.fresh_real("zmin2") if dz else NS, zmax=ctx.fresh_real("zmax2") if dZ else NS,
                 num_bins=ctx.fresh_int("num_bins2", lo=1) if dn else NS, method=method if method else NS,
                 closed="right" if dc else NS)
        if edges:
            m2 = ctx.fresh_int("num_edges2", lo=2, size=True)
            e2 = SArr.fresh(ctx, "edges2", (m2,), "f")
            d["edges"] = e2
        else:
            d["edges"] = NS
        d["cosmology"] = {"notset": NS, "none": None, "given": given}[cosmo]
        ctx.canary()
        got = call(orig.modify, **d)
        # merged parameters of the statement: the original's own parameters overridden by the given ones
        if base == "custom":
            merged = dict(zmin=None, zmax=None, num_bins=None, method="custom", edges=e0, closed="left")
        else:
            merged = dict(zmin=zmin, zmax=zmax, num_bins=nb, method=base, edges=None, closed="left")
        for k in ("zmin", "zmax", "num_bins", "method", "edges", "closed"):
            if d[k] is not NS:
                merged[k] = d[k]
        if edges:
            # custom edges take precedence exactly as in create(): generated parameters are ignored
            merged.update(zmin=None, zmax=None, method="custom")
        elif base == "custom" and method is None:
            merged.update(zmin=None, zmax=None)          # the original has no generating parameters to merge
        elif base == "custom":
            # switching a custom binning to a generated one: limits and number of bins of the custom binning
            merged.update(zmin=d["zmin"] if dz else orig.zmin, zmax=d["zmax"] if dZ else orig.zmax,
                          num_bins=d["num_bins"] if dn else orig.num_bins, edges=None)
        if merged["num_bins"] is None:
            merged.pop("num_bins")
        want = call(BC.BinningConfig.create, **merged, cosmology=None if cosmo in ("notset", "none") else given)
    if isinstance(want, Raised):
        ctx.check(f"{name}/post_exc:raises_iff_create_on_merged_parameters_raises", isinstance(got, Raised),
                  detail=f"create(merged) raises {type(want.exc).__name__}")
        return
    got = expect_no_exception(ctx, got, name)
    ctx.check(f"{name}/post:equals_create_on_merged_parameters", And(str(got.method) == str(want.method), same_binning(got.binning, want.binning)),
              detail=f"base={base} delta={[k for k in d if d[k] is not O.NotSet]}")
    ctx.check(f"{name}/frame:original_not_mutated", And(orig.binning is snapshot[0], orig.method == snapshot[2], orig.binning.closed == snapshot[3],
                                                        same_edges(orig.binning.edges, snapshot[1])))
    r = call(setattr, orig, "method", "linear")
    ctx.check(f"{name}/frame:attributes_immutable", isinstance(r, Raised) and isinstance(r.exc, AttributeError))


def same_edges(a, b):
    return And(a.shape[0] == b.shape[0], ForAll("t", lambda t: Implies(And(t >= 0, t < a.shape[0]), a.at(t) == b.at(t))))


@unit(P, "BinningConfig.modify", fuc=["yaw.config.binning:BinningConfig.modify", "yaw.config.binning:BinningConfig.from_dict",
                                     "yaw.config.binning:BinningConfig.create", "yaw.config.base:Immutable.__setattr__"],
      cases=_delta_cases(quick=True))
def u_modify(ctx, base, dz, dZ, dn, dc, method, edges, cosmo):
    """modify(delta) == create(parameters of the original overridden by delta), with the cosmology that was passed"""
    _run_modify(ctx, base, dz, dZ, dn, dc, method, edges, cosmo)


@unit(P, "BinningConfig.modify.all", fuc=["yaw.config.binning:BinningConfig.modify"], cases=_delta_cases(quick=False), tier="thorough")
def u_modify_all(ctx, base, dz, dZ, dn, dc, method, edges, cosmo):
    """all 1152 which-parameters-are-given combinations (thorough tier; exhaustive over the enumeration)"""
    _run_modify(ctx, base, dz, dZ, dn, dc, method, edges, cosmo)


@unit(P, "ScalesConfig.modify", fuc=["yaw.config.scales:ScalesConfig.modify", "yaw.config.base:BaseConfig.modify",
                                    "yaw.config.scales:ScalesConfig.to_dict", "yaw.config.scales:ScalesConfig.create",
                                    "yaw.config.scales:ScalesConfig.__init__", "yaw.config.scales:ScalesConfig.__eq__",
                                    "yaw.config.base:parse_optional", "yaw.config.base:BaseConfig.from_dict"],
      cases=[dict(d_rmin=a, d_rmax=b, d_unit=c, d_rw=d, d_res=e) for a, b, c, d, e in itertools.product((False, True), repeat=5)])
def u_scales_modify(ctx, d_rmin, d_rmax, d_unit, d_rw, d_res):
    """all 32 which-parameters-are-given combinations: modify == create(merged); equal parameters compare equal"""
    SC = mod("yaw.config.scales")
    O = mod("yaw.options")
    NS = O.NotSet
    m = ctx.fresh_int("num_scales", lo=2, size=True)
    rmin = SArr.fresh(ctx, "rmin", (m,), "f")
    rmax = SArr.fresh(ctx, "rmax", (m,), "f")
    t = bv("t")
    ctx.assume(forall([t], z3.Implies(z3.And(t >= 0, t < m.t), rmin._elem(t) < rmax._elem(t))), "pre:valid original configuration")
    rw0, res0 = ctx.fresh_real("rweight0"), ctx.fresh_int("resolution0", lo=1)
    name = "C15/ScalesConfig.modify"
    ctx.canary()
    orig = expect_no_exception(ctx, call(SC.ScalesConfig.create, rmin=rmin, rmax=rmax, unit="kpc", rweight=rw0, resolution=res0), name + "/setup")
    m2 = ctx.fresh_int("num_scales2", lo=2, size=True)
    new_rmin = SArr.fresh(ctx, "rmin2", (m2 if d_rmin else m,), "f")
    new_rmax = SArr.fresh(ctx, "rmax2", (m2 if (d_rmax and d_rmin) else (m2 if d_rmax else m),), "f")
    d = dict(rmin=new_rmin if d_rmin else NS, rmax=new_rmax if d_rmax else NS, unit="Mpc/h" if d_unit else NS,
             rweight=ctx.fresh_real("rweight2") if d_rw else NS, resolution=None if d_res else NS)
    merged = dict(rmin=rmin, rmax=rmax, unit="kpc", rweight=rw0, resolution=res0)
    merged.update({k: v for k, v in d.items() if v is not NS})
    got = call(orig.modify, **d)
    want = call(SC.ScalesConfig.create, **merged)
    if isinstance(want, Raised):
        ctx.check(f"{name}/post_exc:raises_iff_create_on_merged_parameters_raises", isinstance(got, Raised))
        return
    got = expect_no_exception(ctx, got, name)

    def same(a, b):
        return And(a.scales.num_scales == b.scales.num_scales, str(a.scales.unit) == str(b.scales.unit), type(a.scales) is type(b.scales),
                   ForAll("t", lambda t: Implies(And(t >= 0, t < a.scales.num_scales),
                                                 And(a.scales.scale_min.at(t) == b.scales.scale_min.at(t),
                                                     a.scales.scale_max.at(t) == b.scales.scale_max.at(t)))),
                   (a.rweight is None) == (b.rweight is None), (a.resolution is None) == (b.resolution is None),
                   True if a.rweight is None or b.rweight is None else a.rweight == b.rweight,
                   True if a.resolution is None or b.resolution is None else a.resolution == b.resolution)
    ctx.check(f"{name}/post:equals_create_on_merged_parameters", same(got, want))
    eq = expect_no_exception(ctx, call(lambda: bool(got == want)), "C15/ScalesConfig.__eq__")
    ctx.check("C15/ScalesConfig.__eq__/post:equal_parameters_compare_equal", eq is True)
    ctx.check(f"{name}/frame:original_not_mutated", And(orig.scales.num_scales == m, str(orig.scales.unit) == "kpc", orig.rweight == rw0,
                                                        orig.resolution == res0))


@unit(P, "Configuration.modify", fuc=["yaw.config.combined:Configuration.modify", "yaw.config.combined:Configuration.create",
                                     "yaw.config.combined:Configuration.__init__", "yaw.config.combined:parse_cosmology",
                                     "yaw.config.combined:Configuration.__eq__"],
      cases=[dict(cosmo0=a, dcosmo=b, dbin=c) for a in ("default", "given") for b in ("notset", "none", "given2", "name") for c in (False, True)])
def u_config_modify(ctx, cosmo0, dcosmo, dbin):
    """the binning is regenerated with the cosmology of the result (the configured one unless a new one is given);
    scales/binning modifications are delegated with all parameters; the original is untouched"""
    COMB = mod("yaw.config.combined")
    BC = mod("yaw.config.binning")
    SC = mod("yaw.config.scales")
    O = mod("yaw.options")
    NS = O.NotSet
    Cos = cosmo_class()
    default, given, given2 = Cos("default"), Cos("given"), Cos("given2")
    log = {}

    class ScalesStub(SC.ScalesConfig):
        def __init__(self, tag):
            object.__setattr__(self, "tag", tag)

        def modify(self, **kw):
            log["scales"] = kw
            return ScalesStub("modified")

    class BinStub(BC.BinningConfig):
        def __init__(self, tag):
            object.__setattr__(self, "tag", tag)

        def modify(self, **kw):
            log["binning"] = kw
            return BinStub("modified")
    name = "C15/Configuration.modify"
    with Patches() as pt:
        install_cosmology(ctx, pt, default)
        ctx.canary()
        c0 = None if cosmo0 == "default" else given
        orig = expect_no_exception(ctx, call(COMB.Configuration, ScalesStub("s0"), BinStub("b0"), cosmology=c0,
                                             max_workers=ctx.fresh_int("mw", lo=1)), name + "/setup")
        used0 = default if cosmo0 == "default" else given
        ctx.check("C15/Configuration.__init__/post:cosmology_parsed", orig.cosmology is used0)
        zmin2 = ctx.fresh_real("zmin2")
        rmax2 = ctx.fresh_real("rmax2")
        dc = {"notset": NS, "none": None, "given2": given2, "name": "DEFAULTNAME"}[dcosmo]
        res = expect_no_exception(ctx, call(orig.modify, zmin=zmin2 if dbin else NS, rmax=rmax2, cosmology=dc), name)
    expect = {"notset": used0, "none": default, "given2": given2, "name": default}[dcosmo]
    ctx.check(f"{name}/post:cosmology_of_the_result", res.cosmology is expect)
    ctx.check(f"{name}/post:binning_regenerated_with_the_cosmology_of_the_result", log["binning"].get("cosmology") is expect,
              detail="a non-default configured cosmology must be honoured when the binning is regenerated")
    ctx.check(f"{name}/post:binning_parameters_delegated", set(log["binning"]) == {"zmin", "zmax", "num_bins", "method", "edges", "closed", "cosmology"}
              and (log["binning"]["zmin"] is zmin2 if dbin else log["binning"]["zmin"] is NS) and log["binning"]["zmax"] is NS)
    ctx.check(f"{name}/post:scales_parameters_delegated", set(log["scales"]) == {"rmin", "rmax", "unit", "rweight", "resolution"}
              and log["scales"]["rmax"] is rmax2 and log["scales"]["rmin"] is NS)
    ctx.check(f"{name}/post:result_built_from_the_modified_parts", res.scales.tag == "modified" and res.binning.tag == "modified")
    ctx.check(f"{name}/post:max_workers_retained", res.max_workers == orig.max_workers)
    ctx.check(f"{name}/frame:original_not_mutated", orig.scales.tag == "s0" and orig.binning.tag == "b0" and orig.cosmology is used0)


@unit(P, "parse_cosmology", fuc=["yaw.config.combined:parse_cosmology", "yaw.config.combined:yaml_to_cosmology"])
def u_parse_cosmology(ctx):
    COMB = mod("yaw.config.combined")
    BASE = mod("yaw.config.base")
    Cos = cosmo_class()
    c = Cos("custom")
    ctx.canary()
    ctx.check("C15/parse_cosmology/post:custom_cosmology_accepted", call(COMB.parse_cosmology, c) is c)
    import astropy.cosmology
    ctx.check("C15/parse_cosmology/post:none_is_default", call(COMB.parse_cosmology, None) is astropy.cosmology.Planck15)
    ctx.check("C15/parse_cosmology/post:named", call(COMB.parse_cosmology, "WMAP9") is astropy.cosmology.WMAP9)
    r = call(COMB.parse_cosmology, "NoSuchCosmology")
    ctx.check("C15/parse_cosmology/post_exc:unknown_name", isinstance(r, Raised) and isinstance(r.exc, BASE.ConfigError))
    r = call(COMB.parse_cosmology, 3.0)
    ctx.check("C15/parse_cosmology/post_exc:wrong_type", isinstance(r, Raised) and isinstance(r.exc, BASE.ConfigError))


# ---------------------------------------------------------------------------------------------------------
# replay on the real code: battery of the same statements with real astropy cosmologies
# ---------------------------------------------------------------------------------------------------------

def _battery():
    import itertools as it
    import numpy as np
    import astropy.cosmology as ac
    from yaw.config import BinningConfig, ScalesConfig, Configuration
    from yaw.config.base import ConfigError
    from yaw.cosmology import new_scales, CustomCosmology
    from yaw.options import NotSet

    def attempt(fn):
        try:
            return fn(), None
        except Exception as ex:  # noqa: BLE001
            return None, ex
    cosmos = {"none": None, "WMAP9": ac.WMAP9}
    for method, closed, (cn, cosmo) in it.product(("linear", "comoving", "logspace"), ("left", "right"), cosmos.items()):
        for zmin, zmax, nb in ((0.07, 1.41, 5), (0.2, 0.9, 1), (0.011, 3.0, 13)):
            r, ex = attempt(lambda: BinningConfig.create(zmin=zmin, zmax=zmax, num_bins=nb, method=method, closed=closed, cosmology=cosmo))
            ok = ex is None and len(r.edges) == nb + 1 and r.edges[0] == zmin and r.edges[-1] == zmax and np.all(np.diff(r.edges) > 0) \
                and str(r.closed) == closed and r.zmin == zmin and r.zmax == zmax
            if ok and method == "comoving" and nb > 1:
                c = cosmo or ac.Planck15
                d = c.comoving_distance(r.edges).value
                ok = np.allclose(np.diff(d), np.diff(d)[0], rtol=1e-6)
            yield f"create[{method},{closed},{cn},{zmin},{zmax},{nb}]", ok, repr(ex or (r.edges if r is not None else None))
    r, ex = attempt(lambda: BinningConfig.create(zmin=0.5, zmax=0.5))
    yield "create rejects zmin == zmax", isinstance(ex, ValueError), repr(ex)
    r, ex = attempt(lambda: BinningConfig.create(edges=[0.1, 0.3, 0.2]))
    yield "create rejects non-increasing edges", isinstance(ex, ValueError), repr(ex)
    r, ex = attempt(lambda: BinningConfig.create())
    yield "create rejects missing parameters", isinstance(ex, ConfigError), repr(ex)
    # modify == create(merged)
    bases = {"linear": dict(zmin=0.07, zmax=1.41, num_bins=5, method="linear"), "comoving": dict(zmin=0.07, zmax=1.41, num_bins=5, method="comoving"),
             "custom": dict(edges=[0.1, 0.2, 0.5, 0.8])}
    deltas = [dict(), dict(closed="left"), dict(num_bins=7), dict(zmin=0.2), dict(zmax=0.9, num_bins=3), dict(method="logspace"),
              dict(method="comoving"), dict(edges=[0.3, 0.4, 0.6]), dict(zmin=0.2, zmax=0.7, num_bins=2, method="linear", closed="left")]
    for (bn, base), delta, (cn, cosmo) in it.product(bases.items(), deltas, cosmos.items()):
        orig = BinningConfig.create(**base, cosmology=cosmo)
        before = (orig.edges.copy(), str(orig.method), str(orig.closed))
        merged = dict(closed="right")
        if bn == "custom":
            merged.update(edges=base["edges"])
        else:
            merged.update(base)
        merged.update(delta)
        if "edges" in delta:
            for k in ("zmin", "zmax", "method"):
                merged.pop(k, None)
        elif bn == "custom" and "method" in delta:
            merged.pop("edges")
            merged.setdefault("zmin", orig.zmin)
            merged.setdefault("zmax", orig.zmax)
            merged.setdefault("num_bins", orig.num_bins)
        got, ex1 = attempt(lambda: orig.modify(**delta, cosmology=cosmo if cosmo is not None else NotSet))
        want, ex2 = attempt(lambda: BinningConfig.create(**merged, cosmology=cosmo))
        if ex2 is not None:
            ok = ex1 is not None
        else:
            ok = ex1 is None and got == want and np.array_equal(got.edges, want.edges)
        same = np.array_equal(orig.edges, before[0]) and str(orig.method) == before[1] and str(orig.closed) == before[2]
        yield f"modify[{bn},{sorted(delta)},{cn}] == create(merged)", ok and same, repr(ex1 or ex2 or (got.edges, want.edges))
    # Configuration.modify honours the configured cosmology
    for method in ("linear", "comoving", "logspace"):
        c = Configuration.create(rmin=100, rmax=1000, zmin=0.07, zmax=1.41, num_bins=5, method=method, cosmology=ac.WMAP9)
        m, ex = attempt(lambda: c.modify(num_bins=6))
        ref = Configuration.create(rmin=100, rmax=1000, zmin=0.07, zmax=1.41, num_bins=6, method=method, cosmology=ac.WMAP9)
        yield f"Configuration.modify[{method}] honours cosmology", ex is None and np.array_equal(m.binning.edges, ref.binning.edges) and m == ref, repr(ex)
        m, ex = attempt(lambda: c.modify(cosmology="Planck15"))
        ref = Configuration.create(rmin=100, rmax=1000, zmin=0.07, zmax=1.41, num_bins=5, method=method, cosmology="Planck15")
        yield f"Configuration.modify[{method}] new cosmology", ex is None and np.array_equal(m.binning.edges, ref.binning.edges) and m == ref, repr(ex)

    class Custom(CustomCosmology):
        def comoving_distance(self, z):
            return 3000.0 * np.asarray(z)

        def angular_diameter_distance(self, z):
            return 3000.0 * np.asarray(z) / (1 + np.asarray(z))
    r, ex = attempt(lambda: Configuration.create(rmin=100, rmax=1000, zmin=0.1, zmax=1.0, num_bins=3, cosmology=Custom()))
    yield "custom cosmology accepted", ex is None, repr(ex)
    # scales
    z = 0.37
    for (cn, cosmo), (unit_, (kind, div, per_pi)) in it.product(cosmos.items(), UNITS.items()):
        sc = new_scales([100.0, 250.0], [1000.0, 2500.0], unit=unit_)
        (amin, amax), ex = attempt(lambda: sc.get_angle_radian(z, cosmology=cosmo))
        c = cosmo or ac.Planck15
        if kind == "ang":
            f = (np.pi / per_pi) if per_pi != 1 else 1.0
            want = (np.array([100.0, 250.0]) * f, np.array([1000.0, 2500.0]) * f)
        else:
            D = (c.angular_diameter_distance(z) if kind == "phys" else c.comoving_distance(z)).value
            want = (np.array([100.0, 250.0]) / div / D, np.array([1000.0, 2500.0]) / div / D)
        yield f"scales[{unit_},{cn}]", ex is None and np.allclose(amin, want[0], rtol=1e-12) and np.allclose(amax, want[1], rtol=1e-12), repr(ex)
    r, ex = attempt(lambda: ScalesConfig.create(rmin=5.0, rmax=5.0))
    yield "scales reject rmin == rmax", isinstance(ex, ConfigError), repr(ex)
    a, b = ScalesConfig.create(rmin=[1, 2], rmax=[3, 4], rweight=0.5, resolution=10), ScalesConfig.create(rmin=[1, 2], rmax=[3, 4], rweight=0.5, resolution=10)
    r, ex = attempt(lambda: a == b and a.modify(unit="Mpc") == ScalesConfig.create(rmin=[1, 2], rmax=[3, 4], unit="Mpc", rweight=0.5, resolution=10))
    yield "ScalesConfig equality / modify", ex is None and r is True, repr(ex)


def replay_witness(unit_name, case, ob):
    fails = [(n, d) for n, ok, d in _battery() if not ok]
    return {"reproduced": bool(fails), "failed_statements": [f"{n}: {d}"[:300] for n, d in fails][:8],
            "note": "battery of the configuration statements on the real classes with real astropy cosmologies"}


def bounded(opts):
    import time
    t0 = time.time()
    res = list(_battery())
    fails = [dict(id="bounded:" + n, detail=d[:300]) for n, ok, d in res if not ok]
    return dict(kind="bounded", bound="3 methods x 2 closed x 2 cosmologies x 3 parameter sets; 3 bases x 9 deltas x 2 cosmologies; 8 units "
                "x 2 cosmologies; real astropy (Planck15, WMAP9) in floating point", evaluations=len(res),
                distinct_nontrivial=len(res), violations=fails[:5], samples=[n for n, _, _ in res[:3]], wall_s=round(time.time() - t0, 2),
                note="run-time evaluation of the statements on the real classes; labelled bounded, not counted as proved")
