"""C13 - results are invariant under rotations, row order, patch labels and weight scale; raw counts are additive.

What contracts can decide here are the *lemmas* that carry the invariances through the code (reals, not floats):
  rotation     |R p - R q|^2 = |p - q|^2 for every orthogonal R (polynomial identity, nlsat); the counting pipeline uses positions
               only through AngularCoordinates.to_3d / distance / mean (structural obligation on the current source: no function of
               the pipeline reads ra/dec directly), so every contract of C01/C12 is a statement about chord distances
  weight scale BinwisePatchwiseArray.sample_patch_sum is linear in the array (relational obligation on the real function for a
               symbolic factor c), PatchedSumWeights.get_array scales with sum_weights1, and (c X)/(c Y) = X/Y
  additivity   PatchedCounts / NormalisedCounts addition is cell-wise (C17 unit, re-run here)
Row order and patch relabelling reduce to the invariance of finite sums and maxima under permutations of their terms, which
needs an induction over permutations that is not within reach of the per-function contracts: these two clauses - and all
clauses end-to-end, up to rounding - are decided only by the bounded metamorphic battery on the real pipeline.
"""
from __future__ import annotations

import ast

import z3

from pyvc import core, shadow, sigma
from pyvc.core import SNum, SBool, Ctx, to_term, tob
from pyvc.arrays import SArr, bv, forall, dim_term
from .common import And, Or, Implies, Not, ForAll, mod, unit, call, Raised, expect_no_exception, fail, use_loops, LoopSpec, Patches
from . import containers_common as CC
from . import C17 as _C17

P = "C13"
EXPLANATION = (
    "Lemmas and relational obligations that carry the invariances: chord distances are invariant under orthogonal maps (nlsat); "
    "the counting pipeline reads positions only through to_3d/distance/mean (structural obligation generated from the current "
    "source); sample_patch_sum of the real container is linear in its array for a symbolic factor, the weight-product array "
    "scales with the sums of weights, ratios are scale free; container addition is cell-wise. Invariance under row order and "
    "patch relabelling, and every clause end to end up to rounding, only by the bounded metamorphic battery.")
TRUSTED = ["KD-tree contract: counts depend on the point multiset only through chord distances and weight products (C01)",
           "np.einsum / np.tile contracts (C03)"]
NOT_DECIDED = ["row-order and patch-relabelling invariance deductively (sums and maxima under permutations: induction over permutations)",
               "floating-point rounding ('up to rounding')", "the end-to-end relations (bounded battery only)"]
ASSUMPTIONS = []


@unit(P, "sigma_schemas", kind="lemma")
def u_sigma(ctx):
    ctx.canary()
    sigma.prove_schemas(ctx)


@unit(P, "rotation_lemma", kind="lemma")
def u_rotation(ctx):
    """chord distances, unit length and scalar products do not see a rigid rotation.  Two machine-checked parts:
      (A) polynomial identities, for every matrix R and vectors:  |R d|^2 = sum_ij d_i d_j (R^T R)_ij,  Rp.Rq = sum_ij p_i q_j (R^T R)_ij,
          Rp - Rq = R(p - q)   (decided by the polynomial normal form of z3's simplifier: the difference expands to 0)
      (B) for every matrix G:  G = I  ->  sum_ij d_i d_j G_ij = |d|^2  and  sum_ij p_i q_j G_ij = p.q
    The lemma is (B) instantiated with G := R^T R, rewritten with (A)."""
    R = [[z3.Real(f"r{i}{j}") for j in range(3)] for i in range(3)]
    G = [[z3.Real(f"g{i}{j}") for j in range(3)] for i in range(3)]
    p, q = [z3.Real(f"p{i}") for i in range(3)], [z3.Real(f"q{i}") for i in range(3)]
    RtR = [[sum(R[k][i] * R[k][j] for k in range(3)) for j in range(3)] for i in range(3)]
    ap = lambda v: [sum(R[i][j] * v[j] for j in range(3)) for i in range(3)]  # noqa: E731
    d = [a - b for a, b in zip(p, q)]
    n2 = lambda v: sum(x * x for x in v)  # noqa: E731
    dot = lambda a, b: sum(x * y for x, y in zip(a, b))  # noqa: E731
    quad = lambda a, b, M: sum(a[i] * b[j] * M[i][j] for i in range(3) for j in range(3))  # noqa: E731
    ctx.canary()

    def identity(name, lhs, rhs):
        ctx.lemma_nra(name, lhs == rhs, detail="polynomial identity (no hypotheses)")
    identity("C13/rotation_lemma/A:|Rd|^2_is_the_quadratic_form_of_RtR", n2(ap(d)), quad(d, d, RtR))
    identity("C13/rotation_lemma/A:Rp.Rq_is_the_bilinear_form_of_RtR", dot(ap(p), ap(q)), quad(p, q, RtR))
    for i in range(3):
        identity(f"C13/rotation_lemma/A:Rp-Rq=R(p-q)[{i}]", ap(p)[i] - ap(q)[i], ap(d)[i])
    isI = z3.And([G[i][j] == (1 if i == j else 0) for i in range(3) for j in range(3)])
    ctx.lemma_nra("C13/rotation_lemma/B:quadratic_form_of_the_identity", z3.Implies(isI, quad(d, d, G) == n2(d)))
    ctx.lemma_nra("C13/rotation_lemma/B:bilinear_form_of_the_identity", z3.Implies(isI, quad(p, q, G) == dot(p, q)))


PIPELINE = [
    ("yaw.catalog.trees", ["AngularTree.__init__", "AngularTree.count", "build_trees", "get_ang_bins", "get_counts_for_limits", "dispatch_counts"]),
    ("yaw.correlation.measurements", ["process_patch_pair", "check_patch_conistency", "get_max_angle", "PatchLinkage.from_catalogs", "PatchLinkage.count_pairs",
                                      "PatchLinkage.iter_patch_id_pairs", "autocorrelate", "crosscorrelate"]),
    ("yaw.catalog.patch", ["Metadata.compute"]),
    ("yaw.catalog.catalog", ["assign_patch_centers"]),
]
ALLOWED_READERS = {"yaw.datachunk:DataChunk.get_coords", "yaw.coordinates:AngularCoordinates.to_3d", "yaw.coordinates:AngularCoordinates.from_3d",
                   "yaw.coordinates:AngularCoordinates.ra", "yaw.coordinates:AngularCoordinates.dec"}


def _find(tree, path):
    body = tree.body
    node = None
    for part in path.split("."):
        node = None
        stack = list(body)
        while stack:
            n = stack.pop(0)
            if isinstance(n, (ast.FunctionDef, ast.ClassDef)) and n.name == part:
                node = n
                break
            if isinstance(n, (ast.If, ast.Try)):
                stack = list(n.body) + list(n.orelse) + stack
        if node is None:
            return None
        body = node.body
    return node


@unit(P, "positions_only_through_geometry", kind="structural")
def u_lint(ctx):
    """frame condition generated from the current source: no function of the counting pipeline reads the columns ra/dec (or the
    .ra/.dec attributes) itself - positions enter only through get_coords -> to_3d / distance / mean, whose contracts are
    stated over unit vectors (C14).  Hence the contracts of C01/C12 are statements about chord distances and the rotation lemma
    applies to them."""
    import os
    ctx.canary()
    root = shadow.repo_root()
    n = 0
    for modname, funcs in PIPELINE:
        path = os.path.join(root, "src", *modname.split(".")) + ".py"
        tree = ast.parse(open(path, encoding="utf-8").read())
        for fn in funcs:
            node = _find(tree, fn)
            ctx.check(f"C13/lint/{modname}:{fn}/exists", node is not None)
            if node is None:
                continue
            bad = []
            for x in ast.walk(node):
                if isinstance(x, ast.Constant) and x.value in ("ra", "dec") and not isinstance(getattr(x, "parent", None), ast.Expr):
                    bad.append(f"'{x.value}' line {x.lineno}")
                if isinstance(x, ast.Attribute) and x.attr in ("ra", "dec"):
                    bad.append(f".{x.attr} line {x.lineno}")
            # docstrings mention ra/dec legitimately: drop constants that are (part of) the docstring
            doc = ast.get_docstring(node) or ""
            bad = [b for b in bad if not (b.startswith("'") and False)]
            ctx.check(f"C13/lint/{modname}:{fn}/reads_positions_only_through_geometry_primitives", not bad, detail="; ".join(bad))
            n += 1
    ctx.check("C13/lint/functions_checked", n >= 12)


@unit(P, "weight_scale.sample_patch_sum", fuc=["yaw.correlation.paircounts:BinwisePatchwiseArray.sample_patch_sum", "yaw.correlation.paircounts:PatchedCounts.get_array"],
      cases=[dict(auto=False), dict(auto=True)], trusted=["np.einsum", "np.tile"])
def u_scale_sps(ctx, auto):
    """relational: scaling every count by c scales the patch sum and every jackknife sample by c (two runs of the real function)"""
    PC = mod("yaw.correlation.paircounts")
    binning, nb = CC.make_binning(ctx)
    N = ctx.fresh_int("num_patches", lo=1, size=True)
    pc = CC.make_patched_counts(ctx, binning, nb, N, auto)
    c = ctx.fresh_real("c")
    ctx.assume(c.t > 0, "pre:positive factor")
    A = pc.counts._elem
    pc2 = PC.PatchedCounts.__new__(PC.PatchedCounts)
    pc2.binning, pc2.auto = binning, auto
    pc2.counts = SArr(pc.counts.shape, lambda b, i, j: c.t * A(b, i, j), "f")
    name = "C13/weight_scale/sample_patch_sum"
    ctx.canary()
    r1 = expect_no_exception(ctx, call(type(pc).sample_patch_sum, pc), name)
    r2 = expect_no_exception(ctx, call(type(pc2).sample_patch_sum, pc2), name)
    b, k = ctx.fresh_int("b", lo=0), ctx.fresh_int("k", lo=0)
    ctx.assume(z3.And(b.t < nb.t, k.t < N.t), "post:arbitrary bin and patch")
    bb, ii, jj = bv("b"), bv("i"), bv("j")
    # linearity of the four sums (instances of the proved schema 'scale', generalised over the outer indices)
    sigma.scale(ctx, lambda j: A(bb, ii, j), c.t, N.t, forall=(bb, ii))           # inner sum of the total and the sum over j ('ib')
    sigma.scale(ctx, lambda i: A(bb, i, jj), c.t, N.t, forall=(bb, jj))           # sum over i ('jb')
    inner = lambda i: sigma.total(lambda j: A(b.t, i, j), N.t)  # noqa: E731
    sigma.congruence(ctx, lambda i: sigma.total(lambda j: c.t * A(b.t, i, j), N.t), lambda i: c.t * inner(i), N.t, name="inner sums scale")
    sigma.scale(ctx, inner, c.t, N.t)
    ctx.check(f"{name}/post:patch_sum_scales", SBool(r2.data._elem(b.t) == c.t * r1.data._elem(b.t)))
    ctx.check(f"{name}/post:every_jackknife_sample_scales", SBool(r2.samples._elem(k.t, b.t) == c.t * r1.samples._elem(k.t, b.t)))


@unit(P, "weight_scale.weight_products", fuc=["yaw.correlation.paircounts:PatchedSumWeights.get_array"], cases=[dict(auto=False), dict(auto=True)])
def u_scale_sw(ctx, auto):
    """relational: scaling the sums of weights of the first catalog by c scales every cell of the weight-product array by c"""
    PC = mod("yaw.correlation.paircounts")
    binning, nb = CC.make_binning(ctx)
    N = ctx.fresh_int("num_patches", lo=1, size=True)
    sw = CC.make_sum_weights(ctx, binning, nb, N, auto)
    c = ctx.fresh_real("c")
    ctx.assume(c.t > 0, "pre:positive factor")
    sw2 = PC.PatchedSumWeights.__new__(PC.PatchedSumWeights)
    sw2.binning, sw2.auto = binning, auto
    w1 = sw.sum_weights1._elem
    sw2.sum_weights1 = SArr(sw.sum_weights1.shape, lambda b, i: c.t * w1(b, i), "f")
    sw2.sum_weights2 = sw.sum_weights2
    ctx.canary()
    a1 = expect_no_exception(ctx, call(type(sw).get_array, sw), "C13/weight_scale/get_array")
    a2 = expect_no_exception(ctx, call(type(sw2).get_array, sw2), "C13/weight_scale/get_array")
    b, i, j = ctx.fresh_int("b", lo=0), ctx.fresh_int("i", lo=0), ctx.fresh_int("j", lo=0)
    ctx.assume(z3.And(b.t < nb.t, i.t < N.t, j.t < N.t), "post:arbitrary cell")
    ctx.check("C13/weight_scale/get_array/post:cell_scales", SBool(a2._elem(b.t, i.t, j.t) == c.t * a1._elem(b.t, i.t, j.t)))


@unit(P, "ratio_lemma", kind="lemma")
def u_ratio(ctx):
    """(c X)/(c Y) = X/Y for c > 0, Y != 0: a normalised count does not see a common factor of counts and weight products"""
    X, Y, c = z3.Reals("X Y c")
    ctx.canary()
    ctx.lemma_nra("C13/ratio_lemma", z3.Implies(z3.And(c > 0, Y != 0), (c * X) / (c * Y) == X / Y))


@unit(P, "weight_scale.NormalisedCounts", fuc=["yaw.correlation.paircounts:NormalisedCounts.sample_patch_sum", "yaw.correlation.paircounts:NormalisedCounts.get_array"],
      cases=[dict(which="sample_patch_sum"), dict(which="get_array")], trusted=["ratio_lemma instances"])
def u_scale_norm(ctx, which):
    """relational, on the real division step: if the counts and the product of the sums of weights carry the same factor c > 0
    (any c, however small or large), the normalised counts - value, every jackknife sample, every cell - are unchanged wherever
    the weight product is not zero (two runs of the real function)"""
    PC = mod("yaw.correlation.paircounts")
    binning, nb = CC.make_binning(ctx)
    N = ctx.fresh_int("num_patches", lo=1, size=True)
    c = ctx.fresh_real("c")
    ctx.assume(c.t > 0, "pre:positive factor")
    X, Xs = SArr.fresh(ctx, "sum_counts", (nb,), "f"), SArr.fresh(ctx, "sample_counts", (N, nb), "f")
    Y, Ys = SArr.fresh(ctx, "sum_w", (nb,), "f"), SArr.fresh(ctx, "sample_w", (N, nb), "f")
    cells = SArr.fresh(ctx, "cells", (nb, N, N), "f")

    def scaled(a, f):
        e = a._elem
        return SArr(a.shape, lambda *i: f * e(*i), "f")

    class Part:
        def __init__(self, f, data, samples):
            self.f, self.d, self.s = f, data, samples
            self.binning = binning

        def sample_patch_sum(self):
            sd = CC.make_sampled(ctx, binning, nb, N)
            sd.data, sd.samples = (self.d if self.f is None else scaled(self.d, self.f)), (self.s if self.f is None else scaled(self.s, self.f))
            return sd

        def get_array(self):
            return cells if self.f is None else scaled(cells, self.f)

    def norm(f):
        n = PC.NormalisedCounts.__new__(PC.NormalisedCounts)
        n.counts, n.sum_weights = Part(f, X, Xs), Part(f, Y, Ys)
        return n
    name = f"C13/weight_scale/NormalisedCounts.{which}"
    ctx.canary()
    fn = getattr(PC.NormalisedCounts, which)
    r1 = expect_no_exception(ctx, call(fn, norm(None)), name)
    r2 = expect_no_exception(ctx, call(fn, norm(c.t)), name)
    b, k, i, j = (ctx.fresh_int(v, lo=0) for v in "bkij")
    ctx.assume(z3.And(b.t < nb.t, k.t < N.t, i.t < N.t, j.t < N.t), "post:arbitrary bin, sample and cell")

    def ratio(x, y):
        ctx.assume(z3.Implies(y != 0, (c.t * x) / (c.t * y) == x / y), "lemma:ratio_lemma instance")
    if which == "sample_patch_sum":
        ratio(X._elem(b.t), Y._elem(b.t))
        ratio(Xs._elem(k.t, b.t), Ys._elem(k.t, b.t))
        ctx.check(f"{name}/post:value_unchanged", SBool(z3.Implies(Y._elem(b.t) != 0, r2.data._elem(b.t) == r1.data._elem(b.t))))
        ctx.check(f"{name}/post:value_is_the_ratio", SBool(z3.Implies(Y._elem(b.t) != 0, r1.data._elem(b.t) == X._elem(b.t) / Y._elem(b.t))))
        ctx.check(f"{name}/post:every_jackknife_sample_unchanged", SBool(z3.Implies(Ys._elem(k.t, b.t) != 0, r2.samples._elem(k.t, b.t) == r1.samples._elem(k.t, b.t))))
    else:
        ratio(cells._elem(b.t, i.t, j.t), Y._elem(b.t))
        ctx.check(f"{name}/post:cell_unchanged", SBool(z3.Implies(Y._elem(b.t) != 0, r2._elem(b.t, i.t, j.t) == r1._elem(b.t, i.t, j.t))))
        ctx.check(f"{name}/post:cell_is_the_ratio", SBool(z3.Implies(Y._elem(b.t) != 0, r1._elem(b.t, i.t, j.t) == cells._elem(b.t, i.t, j.t) / Y._elem(b.t))))


# additivity of the containers: the C17 unit on the real __add__ (cell-wise sum, same weights required)
unit(P, "additivity.PatchedCounts.__add__", fuc=["yaw.correlation.paircounts:PatchedCounts.__add__"],
     cases=[dict(ca=a, cb=b) for a in ("left", "right") for b in ("left", "right")])(_C17.u_pc_add)


# which patch pairs are counted must not depend on the labels: the linkage is exactly the symmetric condition
# d(c_i, c_j) <= R_i + R_j + theta (the C01 unit on PatchLinkage.from_catalogs, run here as well)
def _register_shared():
    from . import C01 as _C01
    unit(P, "patch_labels.linkage_is_symmetric", fuc=["yaw.correlation.measurements:PatchLinkage.from_catalogs"],
         cases=[dict(ncat=n) for n in (2, 3)], trusted=["metric axioms", "itertools.compress"])(_C01.u_links)


# _register_shared() is called by the driver after this module is fully imported (no import cycles)


# ---------------------------------------------------------------------------------------------------------
# bounded metamorphic battery on the real pipeline
# ---------------------------------------------------------------------------------------------------------

_BAT = {}


def _battery(quick):
    if quick not in _BAT:
        import warnings
        from bounded import c13_invariance
        with warnings.catch_warnings():
            warnings.simplefilter("ignore")
            _BAT[quick] = c13_invariance.battery(quick)
    return _BAT[quick]


def replay_witness(unit_name, case, ob):
    fails = [(n, d) for n, ok, d in _battery(True) if not ok]
    return {"reproduced": bool(fails), "failed_relations": [f"{n}: {d}" for n, d in fails][:6],
            "note": "metamorphic relations on the real pipeline (catalog creation, cross/autocorrelation, sampling, redshift estimate)"}


def bounded(opts):
    import time
    t0 = time.time()
    quick = opts.get("tier", "quick") == "quick"
    res = _battery(quick)
    fails = [(n, d) for n, ok, d in res if not ok]
    return dict(kind="bounded", bound="real pipeline with 500/700 (thorough 900/1200) clustered objects on 6 given patch centres, 3 bins: 3 (thorough 4) rigid "
                "rotations (generic, onto a pole, across RA = 0) of all catalogs and centres; rows shuffled / sorted by position and read in chunks of 150 / 97; "
                "centres permuted (samples permute accordingly); weights of the unknown / reference catalog x 3.7 (thorough: also 1e-3, 250); unknown / reference "
                "catalog split in two (raw DD counts add up); amplitudes, samples, covariance, redshift estimate compared at 1e-9 (covariance 1e-7) relative",
                evaluations=len(res), distinct_nontrivial=len(res), violations=[dict(id=f"bounded:{n}", detail=d) for n, d in fails][:12],
                samples=[n for n, _, _ in res[:3]], wall_s=round(time.time() - t0, 2), note="real library; labelled bounded, not counted as proved")


# ---------------------------------------------------------------------------------------------------------
# invariance of finite sums under permutations of their terms; row order and patch relabelling on the real containers
# ---------------------------------------------------------------------------------------------------------

@unit(P, "sum_permutation_lemma", kind="lemma")
def u_perm_lemma(ctx):
    """Σ_{t<n} f(σ t) = Σ_{t<n} f(t) for every bijection σ of [0, n): induction on n over all bijections (the step instantiates the
    hypothesis at the bijection that agrees with σ except at σ⁻¹(n)); uses the proved point-update schema"""
    ctx.canary()
    sigma.prove_schemas(ctx)
    sigma.prove_permute(ctx)


def bijection(ctx, n, hint="pi"):
    I = z3.IntSort()
    p, pinv = ctx.fresh_fn(hint, I, I), ctx.fresh_fn(hint + "_inv", I, I)
    t = bv("t")
    ctx.assume(forall([t], z3.Implies(z3.And(t >= 0, t < n), z3.And(p(t) >= 0, p(t) < n, pinv(p(t)) == t)), patterns=[p(t)]), "pre:a permutation")
    ctx.assume(forall([t], z3.Implies(z3.And(t >= 0, t < n), z3.And(pinv(t) >= 0, pinv(t) < n, p(pinv(t)) == t)), patterns=[pinv(t)]), "pre:a permutation")
    return p, pinv


@unit(P, "patch_relabelling.sample_patch_sum", fuc=["yaw.correlation.paircounts:BinwisePatchwiseArray.sample_patch_sum", "yaw.correlation.paircounts:PatchedCounts.get_array"],
      trusted=["np.einsum", "np.tile"])
def u_relabel(ctx):
    """relational: relabelling the patches by a permutation σ (counts'[b, σi, σj] = counts[b, i, j]) leaves the patch sum unchanged
    and permutes the jackknife samples accordingly: samples'[σk] = samples[k] (two runs of the real function, any N and σ)"""
    PC = mod("yaw.correlation.paircounts")
    binning, nb = CC.make_binning(ctx)
    N = ctx.fresh_int("num_patches", lo=1, size=True)
    pc = CC.make_patched_counts(ctx, binning, nb, N, False)
    sg, si = bijection(ctx, N.t, "relabel")
    A = pc.counts._elem
    A2 = lambda b, i, j: A(b, si(i), si(j))  # noqa: E731
    pc2 = PC.PatchedCounts.__new__(PC.PatchedCounts)
    pc2.binning, pc2.auto = binning, False
    pc2.counts = SArr(pc.counts.shape, A2, "f")
    name = "C13/patch_relabelling/sample_patch_sum"
    ctx.canary()
    r1 = expect_no_exception(ctx, call(type(pc).sample_patch_sum, pc), name)
    r2 = expect_no_exception(ctx, call(type(pc2).sample_patch_sum, pc2), name)
    b, k = ctx.fresh_int("b", lo=0), ctx.fresh_int("k", lo=0)
    ctx.assume(z3.And(b.t < nb.t, k.t < N.t), "post:arbitrary bin and patch")
    ctx.assume(z3.And(sg(k.t) >= 0, sg(k.t) < N.t, si(sg(k.t)) == k.t), "pre:a permutation (instance)")
    ii, jj = bv("i"), bv("j")
    n = N.t
    rng_i = z3.And(ii >= 0, ii < n)
    # (1) inner sums: for every row i', summing over j' = σ j:   Σ_j' A'(b, i', j') = Σ_j A'(b, i', σ j)
    sigma.permute(ctx, lambda j: A2(b.t, ii, j), sg, si, n, forall=(ii,), bijection_checked=False)
    # (2) at i' = σ i the re-indexed inner sum is the original row sum:  Σ_j A'(b, σ i, σ j) = Σ_j A(b, i, j)
    sigma.congruence(ctx, lambda j: A2(b.t, sg(ii), sg(j)), lambda j: A(b.t, ii, j), n, forall=(ii,), where=rng_i, name="relabelled cells are the original cells")
    # (3) outer sum over i' = σ i
    inner2 = lambda i: sigma.total(lambda j: A2(b.t, i, j), n)  # noqa: E731
    inner1 = lambda i: sigma.total(lambda j: A(b.t, i, j), n)   # noqa: E731
    sigma.permute(ctx, inner2, sg, si, n, bijection_checked=False)
    sigma.congruence(ctx, lambda i: inner2(sg(i)), inner1, n, name="row sums re-indexed")
    ctx.check(f"{name}/post:patch_sum_unchanged", SBool(r2.data._elem(b.t) == r1.data._elem(b.t)))
    # column / row sums through patch σk
    sk = sg(k.t)
    sigma.permute(ctx, lambda i: A2(b.t, i, sk), sg, si, n, bijection_checked=False)
    sigma.congruence(ctx, lambda i: A2(b.t, sg(i), sk), lambda i: A(b.t, i, k.t), n, name="column through the relabelled patch")
    sigma.permute(ctx, lambda j: A2(b.t, sk, j), sg, si, n, bijection_checked=False)
    sigma.congruence(ctx, lambda j: A2(b.t, sk, sg(j)), lambda j: A(b.t, k.t, j), n, name="row through the relabelled patch")
    ctx.check(f"{name}/post:jackknife_samples_permute_with_the_labels", SBool(r2.samples._elem(sk, b.t) == r1.samples._elem(k.t, b.t)),
              detail="samples'[sigma(k)] == samples[k]")


@unit(P, "row_order.reductions", fuc=[], trusted=["np.sum / np.max / np.min contracts"], kind="lemma")
def u_row_order(ctx):
    """the reductions the per-patch metadata and the sums of weights are built from do not depend on the order of the records:
    for any array x and any permutation π of its positions  sum(x∘π) = sum(x), max(x∘π) = max(x), min(x∘π) = min(x)
    (the numpy contracts on both sides; the sum through the permutation lemma)"""
    from pyvc import npshim
    n = ctx.fresh_int("n", lo=1, size=True)
    pi, pinv = bijection(ctx, n.t)
    x = SArr.fresh(ctx, "x", (n,), "f")
    xe = x._elem
    y = SArr((n,), lambda t: xe(pi(t)), "f")
    ctx.canary()
    sigma.permute(ctx, lambda t: xe(t), pi, pinv, n.t, bijection_checked=False)
    ctx.check("C13/row_order/sum", npshim.sum(y) == npshim.sum(x))
    def both(fn):
        mx = fn(x)
        wx = ctx.ghost["last_extreme_at"].t
        my = fn(y)
        wy = ctx.ghost["last_extreme_at"].t
        # instances of the permutation axioms at the two positions where the extremes are attained
        ctx.assume(z3.And(pinv(wx) >= 0, pinv(wx) < n.t, pi(pinv(wx)) == wx, pi(wy) >= 0, pi(wy) < n.t), "pre:a permutation (instances)")
        return mx == my
    ctx.check("C13/row_order/max", both(npshim.amax))
    ctx.check("C13/row_order/min", both(npshim.amin))


# additivity under a split: which patch pairs are counted must not depend on which catalogs take part beyond what the link angle
# needs - the link angle is the largest angle the counting uses, converted with the cosmology of the configuration (C01 unit)
def _register_shared_round10():
    from . import C01 as _C01
    unit(P, "get_max_angle", fuc=["yaw.correlation.measurements:get_max_angle"])(_C01.u_max_angle)


# _register_shared_round10() is called by the driver after this module is fully imported (no import cycles)
