"""Fixtures for the pair-count / data containers (shared by C03, C04, C05, C17, C11)."""
from __future__ import annotations

import z3

from pyvc import core
from pyvc.core import SNum, SBool, Ctx, to_term, tob
from pyvc.arrays import SArr, bv, forall, dim_term
from .common import mod


def make_binning(ctx, closed="left", nb=None, hint="edges"):   # not the library default: a lost closed= argument shows
    B = mod("yaw.binning")
    O = mod("yaw.options")
    nb = nb if nb is not None else ctx.fresh_int("num_bins", lo=1, size=True)
    edges = SArr.fresh(ctx, hint, (nb + 1,), "f", register=True)
    t = bv("e")
    ctx.assume(forall([t], z3.Implies(z3.And(t >= 0, t < to_term(nb)), edges._elem(t) < edges._elem(t + 1)),
                      patterns=[edges._elem(t)]), "type:Binning invariant (strictly increasing edges)")
    b = B.Binning.__new__(B.Binning)
    b.edges = edges
    b.closed = O.Closed(closed)
    ctx.inputs.setdefault("num_bins", ("int", nb))
    return b, nb


def make_patched_counts(ctx, binning, nb, npatch, auto, hint="counts"):
    PC = mod("yaw.correlation.paircounts")
    c = PC.PatchedCounts.__new__(PC.PatchedCounts)
    c.binning = binning
    c.auto = auto
    c.counts = SArr.fresh(ctx, hint, (nb, npatch, npatch), "f", register=True)
    return c


def make_sum_weights(ctx, binning, nb, npatch, auto, hint="sw"):
    PC = mod("yaw.correlation.paircounts")
    s = PC.PatchedSumWeights.__new__(PC.PatchedSumWeights)
    s.binning = binning
    s.auto = auto
    s.sum_weights1 = SArr.fresh(ctx, hint + "1", (nb, npatch), "f", register=True)
    s.sum_weights2 = SArr.fresh(ctx, hint + "2", (nb, npatch), "f", register=True)
    return s


def make_normalised(ctx, binning, nb, npatch, auto, hint=""):
    PC = mod("yaw.correlation.paircounts")
    n = PC.NormalisedCounts.__new__(PC.NormalisedCounts)
    n.counts = make_patched_counts(ctx, binning, nb, npatch, auto, hint + "counts")
    n.sum_weights = make_sum_weights(ctx, binning, nb, npatch, auto, hint + "sw")
    return n


def make_sampled(ctx, binning, nb, nsamp, hint="sd", cls=None):
    CD = mod("yaw.correlation.corrdata")
    cls = cls or CD.SampledData
    s = cls.__new__(cls)
    s.binning = binning
    s.data = SArr.fresh(ctx, hint + "_data", (nb,), "f", register=True)
    s.samples = SArr.fresh(ctx, hint + "_samples", (nsamp, nb), "f", register=True)
    return s
