"""C03 - jackknife sample k is the statistic with patch k left out; delete-one covariance.

Specification (from the statement), for an arbitrary bin b and an arbitrary patch k (no bound on bins/patches):
  sample_patch_sum   data[b]      = Σ_i Σ_j A[b,i,j]
                     samples[k,b] = Σ_{i != k} Σ_{j != k} A[b,i,j]            (row index = patch index)
  PatchedSumWeights.get_array     cross: w1[b,i]*w2[b,j];  auto: upper triangle, diagonal halved
  NormalisedCounts.sample_patch_sum   sample k = (counts without patch k) / (weight products without patch k)
  CorrFunc.sample    one estimator, applied to the value and to every jackknife row (shared with C04)
  HistData.from_catalog   data = Σ_t hist(patch_t), samples[k] = Σ_{t != k} hist(patch_t), for every arrival order
  resample_jackknife out[k] = Σ_{t != k} obs[t]         (bounded in the number of patches, see below)
  cov_from_samples   C = (N-1)/N Σ_k (x_k - mean)(x_k - mean)^T, symmetric; error^2 = diag C
"""
from __future__ import annotations

import z3

from pyvc import core, shadow, sigma
from pyvc.core import SNum, SBool, Ctx, EndPath, to_term, tob, to_real
from pyvc.arrays import SArr, SRec, bv, in_range, forall, dim_term
from pyvc.builtins_shim import SymIterable, SSeq
from .common import And, Or, Implies, Not, Min, ForAll, Exists, mod, unit, call, Raised, expect_no_exception, fail, \
    use_loops, LoopSpec, Patches
from . import containers_common as CC

P = "C03"
EXPLANATION = (
    "Deductive: the resampling functions of paircounts.py, corrfunc.py, corrdata.py and redshifts.py are re-read from "
    "the current source and executed on symbolic arrays with a symbolic number of bins and patches. Sums are Σ-terms; "
    "the leave-one-out identity is derived from explicitly instantiated lemma schemas (remove_one, linearity, "
    "congruence) which are themselves proved by induction in this run. resample_jackknife is decided exhaustively for "
    "every number of patches up to a stated bound with symbolic observations (bounded in N, unbounded in the values "
    "and the number of bins); everything else is unbounded.")
TRUSTED = []
NOT_DECIDED = ["positive semi-definiteness of the covariance beyond its algebraic form (a Gram-matrix fact about the "
               "proved formula; see DESIGN §8 C03)", "NaN propagation"]
ASSUMPTIONS = []

N_MAX_RESAMPLE = 7


@unit(P, "sigma_schemas", kind="lemma")
def u_sigma(ctx):
    """induction proofs of the Σ-library lemma schemas used below"""
    ctx.canary()
    sigma.prove_schemas(ctx)


def jackknife_identity(ctx, A, b, k, N):
    """adds the lemma instances that derive
         Σ_i [i!=k] Σ_j [j!=k] A(b,i,j)  =  ΣΣ A - Σ_i A(b,i,k) - Σ_j A(b,k,j) + A(b,k,k)
    and returns the left-hand side (the specification term).  A: (b,i,j) -> z3 Real term."""
    Nt, kt, bt = to_term(N), to_term(k), to_term(b)
    i = bv("i")
    # inner: for every i:  Σ_j [j!=k] A(b,i,j) = R(i) - A(b,i,k)
    sigma.remove_one(ctx, lambda j: A(bt, i, j), Nt, kt, forall=[i])
    R = lambda ii: sigma.total(lambda j: A(bt, ii, j), Nt)  # noqa: E731
    inner_x = lambda ii: sigma.total(lambda j: z3.If(j == kt, z3.RealVal(0), A(bt, ii, j)), Nt)  # noqa: E731
    h = lambda ii: R(ii) - A(bt, ii, kt)  # noqa: E731
    spec_summand = lambda ii: z3.If(ii == kt, z3.RealVal(0), inner_x(ii))  # noqa: E731
    mid_summand = lambda ii: z3.If(ii == kt, z3.RealVal(0), h(ii))  # noqa: E731
    # congruence: the premise (pointwise equality of the outer summands) is checked as an obligation
    sigma.congruence(ctx, spec_summand, mid_summand, Nt, name="leave_one_out_inner")
    # outer: Σ_i [i!=k] h(i) = Σ_i h(i) - h(k)
    sigma.remove_one(ctx, h, Nt, kt)
    # linearity: Σ_i (R(i) - A(b,i,k)) = Σ_i R(i) - Σ_i A(b,i,k)
    one, mone = z3.RealVal(1), z3.RealVal(-1)
    comb, sR, sC = sigma.linear2(ctx, R, lambda ii: A(bt, ii, kt), one, mone, Nt)
    # the combination summand 1*R + (-1)*A and h = R - A are the same function
    sigma.congruence(ctx, h, lambda ii: one * R(ii) + mone * A(bt, ii, kt), Nt, name="leave_one_out_linear_form")
    return sigma.total(spec_summand, Nt)


@unit(P, "BinwisePatchwiseArray.sample_patch_sum", fuc=["yaw.correlation.paircounts:BinwisePatchwiseArray.sample_patch_sum",
                                                        "yaw.correlation.paircounts:PatchedCounts.get_array",
                                                        "yaw.correlation.corrdata:SampledData.__init__"],
      cases=[dict(auto=False), dict(auto=True)], trusted=["np.einsum", "np.tile"])
def u_sps(ctx, auto):
    """data[b] = ΣΣ A[b,i,j];  samples[k,b] = Σ_{i!=k} Σ_{j!=k} A[b,i,j], row k = patch k"""
    binning, nb = CC.make_binning(ctx)
    N = ctx.fresh_int("num_patches", lo=1, size=True)
    ctx.inputs["num_patches"] = ("int", N)
    pc = CC.make_patched_counts(ctx, binning, nb, N, auto)
    name = "C03/sample_patch_sum"
    ctx.canary()
    res = expect_no_exception(ctx, call(type(pc).sample_patch_sum, pc), name)
    A = lambda b, i, j: pc.counts._elem(b, i, j)  # noqa: E731
    b = ctx.fresh_int("b", lo=0)
    k = ctx.fresh_int("k", lo=0)
    ctx.assume(z3.And(b.t < nb.t, k.t < N.t), "post:arbitrary bin and patch")
    ctx.inputs.update(b=("int", b), k=("int", k))
    ctx.check(f"{name}/post:shapes", And(res.data.shape[0] == nb, res.samples.shape[0] == N, res.samples.shape[1] == nb))
    total = sigma.total(lambda i: sigma.total(lambda j: A(b.t, i, j), N.t), N.t)
    ctx.check(f"{name}/post:data_is_sum_over_all_patch_pairs", res.data.elem(b.t) == total)
    spec = jackknife_identity(ctx, A, b, k, N)
    ctx.check(f"{name}/post:sample_k_is_sum_without_patch_k", res.samples.elem(k.t, b.t) == spec,
              detail="samples[k,b] vs Σ_{i!=k} Σ_{j!=k} A[b,i,j]")
    ctx.check(f"{name}/post:binning_passed_on", res.binning is binning)


@unit(P, "PatchedSumWeights.get_array", fuc=["yaw.correlation.paircounts:PatchedSumWeights.get_array"],
      cases=[dict(auto=False), dict(auto=True)], trusted=["np.einsum", "np.triu"])
def u_sw_array(ctx, auto):
    """cross: w1[b,i]*w2[b,j];  auto: upper triangle with the diagonal halved, zero below"""
    binning, nb = CC.make_binning(ctx)
    N = ctx.fresh_int("num_patches", lo=1, size=True)
    sw = CC.make_sum_weights(ctx, binning, nb, N, auto)
    name = "C03/PatchedSumWeights.get_array"
    ctx.canary()
    res = expect_no_exception(ctx, call(type(sw).get_array, sw), name)
    b, i, j = ctx.fresh_int("b", lo=0), ctx.fresh_int("i", lo=0), ctx.fresh_int("j", lo=0)
    ctx.assume(z3.And(b.t < nb.t, i.t < N.t, j.t < N.t), "post:arbitrary cell")
    ctx.inputs.update(num_patches=("int", N), b=("int", b), i=("int", i), j=("int", j))
    ctx.check(f"{name}/post:shape", And(res.shape[0] == nb, res.shape[1] == N, res.shape[2] == N))
    prod = sw.sum_weights1.elem(b.t, i.t) * sw.sum_weights2.elem(b.t, j.t)
    if auto:
        want = z3.If(i.t < j.t, prod, z3.If(i.t == j.t, prod / 2, z3.RealVal(0)))
    else:
        want = prod
    ctx.check(f"{name}/post:cell", res.elem(b.t, i.t, j.t) == want)
    ctx.check(f"{name}/frame:inputs_unchanged", And(sw.sum_weights1.shape[0] == nb, sw.auto == auto))


@unit(P, "NormalisedCounts.sample_patch_sum", fuc=["yaw.correlation.paircounts:NormalisedCounts.sample_patch_sum",
                                                   "yaw.correlation.paircounts:NormalisedCounts.binning"],
      cases=[dict(auto=False), dict(auto=True)])
def u_norm_sps(ctx, auto):
    """value = counts/weights; sample k = (counts without patch k)/(weight products without patch k)
    (callee contracts: the two sample_patch_sum results, proved above)"""
    PC = mod("yaw.correlation.paircounts")
    binning, nb = CC.make_binning(ctx)
    N = ctx.fresh_int("num_patches", lo=1, size=True)
    nc = CC.make_normalised(ctx, binning, nb, N, auto)
    c_res = CC.make_sampled(ctx, binning, nb, N, "counts_resampled")
    w_res = CC.make_sampled(ctx, binning, nb, N, "weights_resampled")
    calls = []

    def stub(self):
        calls.append(self)
        return c_res if self is nc.counts else (w_res if self is nc.sum_weights else None)
    name = "C03/NormalisedCounts.sample_patch_sum"
    with Patches() as pt:
        pt.set(PC.PatchedCounts, "sample_patch_sum", stub)
        pt.set(PC.PatchedSumWeights, "sample_patch_sum", stub)
        ctx.canary()
        res = expect_no_exception(ctx, call(PC.NormalisedCounts.sample_patch_sum, nc), name)
    b, k = ctx.fresh_int("b", lo=0), ctx.fresh_int("k", lo=0)
    ctx.assume(z3.And(b.t < nb.t, k.t < N.t), "post:arbitrary bin and patch")
    ctx.check(f"{name}/post:resamples_counts_and_weights_once", And(len(calls) == 2, calls[0] is not calls[-1]))
    ctx.check(f"{name}/post:value", res.data.elem(b.t) == c_res.data.elem(b.t) / w_res.data.elem(b.t))
    ctx.check(f"{name}/post:sample_k_normalised_by_weights_without_patch_k",
              res.samples.elem(k.t, b.t) == c_res.samples.elem(k.t, b.t) / w_res.samples.elem(k.t, b.t),
              detail="each jackknife sample must be divided by the *resampled* normalisation")
    ctx.check(f"{name}/post:binning", res.binning is binning)


# ---------------------------------------------------------------------------------------------------------
# resample_jackknife (bounded in N) and HistData.from_catalog (unbounded)
# ---------------------------------------------------------------------------------------------------------

@unit(P, "resample_jackknife", fuc=["yaw.redshifts:resample_jackknife"],
      cases=[dict(N=n) for n in range(1, N_MAX_RESAMPLE + 1)], kind="bounded")
def u_resample(ctx, N):
    """BOUNDED in the number of patches N (every N <= N_MAX_RESAMPLE), unbounded in the observation values and in the
    number of bins: out[k, c] = Σ_{t != k} obs[t, c].  The index gymnastics (arange/tile/delete/reshape) run in real
    numpy on concrete N; the observations are symbolic."""
    R = mod("yaw.redshifts")
    nb = ctx.fresh_int("num_bins", lo=1, size=True)
    obs = SArr.fresh(ctx, "obs", (N, nb), "f", register=True)
    name = "C03/resample_jackknife"
    ctx.canary()
    res = expect_no_exception(ctx, call(R.resample_jackknife, obs), name)
    c = ctx.fresh_int("c", lo=0)
    ctx.assume(c.t < nb.t, "post:arbitrary bin")
    ctx.check(f"{name}/post:shape", And(res.shape[0] == N, res.shape[1] == nb))
    for k in range(N):
        want = z3.RealVal(0)
        for t in range(N):
            if t != k:
                want = want + obs._elem(z3.IntVal(t), c.t)
        ctx.check(f"{name}/post:row_{k}_leaves_out_patch_{k}", res.elem(z3.IntVal(k), c.t) == want,
                  detail=f"N={N}: jackknife row k must be the sum of all patches except patch k")


class Permuted(SymIterable):
    """contract of parallel.iter_unordered (DESIGN §5.4): the results of func on the items, each exactly once, in an
    arbitrary order pi (bijection on [0, n)); nothing else is known about pi; max_workers does not occur."""

    def __init__(self, ctx, func, items, func_args=(), func_kwargs=None, unpack=False):
        from pyvc.builtins_shim import indexable, vc_len
        self.ctx, self.func = ctx, func
        self.items = indexable(items)
        self.n = vc_len(self.items)
        self.func_args, self.func_kwargs, self.unpack = tuple(func_args or ()), dict(func_kwargs or {}), unpack
        I = z3.IntSort()
        self.pi = ctx.fresh_fn("pi", I, I)
        self.pinv = ctx.fresh_fn("pi_inv", I, I)
        t = bv("t")
        nt = dim_term(self.n)
        ctx.assume(forall([t], z3.Implies(z3.And(t >= 0, t < nt),
                                          z3.And(self.pi(t) >= 0, self.pi(t) < nt, self.pinv(self.pi(t)) == t)),
                          patterns=[self.pi(t)]), "contract:iter_unordered (arrival order is a bijection)")
        ctx.assume(forall([t], z3.Implies(z3.And(t >= 0, t < nt),
                                          z3.And(self.pinv(t) >= 0, self.pinv(t) < nt, self.pi(self.pinv(t)) == t)),
                          patterns=[self.pinv(t)]), "contract:iter_unordered (arrival order is a bijection)")
        ctx.trust("parallel.iter_unordered contract: every result exactly once, arbitrary order (proved for the "
                  "multiprocessing variant in C05 relative to Pool.imap_unordered)")

    def vc_len(self):
        return self.n

    def item(self, t):
        from pyvc.builtins_shim import item_of
        tt = to_term(t)
        nt = dim_term(self.n)
        # instance of the bijection axioms at the position that is being looked at (ground fact for the
        # quantifier-free feasibility relaxation)
        self.ctx.assume(z3.Implies(z3.And(tt >= 0, tt < nt),
                                   z3.And(self.pi(tt) >= 0, self.pi(tt) < nt, self.pinv(self.pi(tt)) == tt)),
                        "contract:iter_unordered instance")
        src = item_of(self.items, SNum(self.pi(tt)))
        if self.unpack:
            return self.func(*src, *self.func_args, **self.func_kwargs)
        return self.func(src, *self.func_args, **self.func_kwargs)


class CatalogProxy:
    """a catalog of N patches in id order; values() yields patch proxies indexed by position"""

    def __init__(self, ctx, N):
        self.ctx, self.N = ctx, N

    def vc_len(self):
        return self.N

    def __len__(self):
        raise core.Unsupported("len(catalog) reached CPython")

    def values(self):
        N = self.N
        return SSeq(N, lambda t: ("PATCH", t))


@unit(P, "HistData.from_catalog", fuc=["yaw.redshifts:HistData.from_catalog", "yaw.redshifts:_indexed_redshift_histogram"],
      trusted=["iter_unordered contract"])
def u_hist_from_catalog(ctx):
    """rows of the per-patch histogram table are indexed by patch, for every arrival order; data is the column sum"""
    R = mod("yaw.redshifts")
    binning, nb = CC.make_binning(ctx)
    N = ctx.fresh_int("num_patches", lo=1, size=True)
    ctx.inputs["num_patches"] = ("int", N)
    hist = z3.Function("patch_hist", z3.IntSort(), z3.IntSort(), z3.RealSort())   # hist(patch index, bin)
    state = {}

    def hist_stub(patch, binning_):
        tag, t = patch
        tt = to_term(t)
        return SArr((nb,), lambda c: hist(tt, c), "f")

    class Cfg:
        pass
    cfg = Cfg()
    cfg.binning = binning
    cfg.num_bins = nb

    def iter_unordered_stub(func, iterable, *, func_args=None, func_kwargs=None, unpack=False, max_workers=None, **kw):
        state["perm"] = Permuted(ctx, func, iterable, func_args, func_kwargs, unpack)
        state["max_workers"] = max_workers
        return state["perm"]

    def resample_stub(counts, patch_rows=True):
        state["resampled"] = counts.copy()
        return "SAMPLES"

    class Par:
        COMM = mod("yaw.utils.parallel").COMM
        on_root = staticmethod(lambda: True)
        on_worker = staticmethod(lambda: False)
        iter_unordered = staticmethod(iter_unordered_stub)

    def HistInit(self, b, data, samples):
        self.binning, self.data, self.samples = b, data, samples
    site = "yaw.redshifts:HistData.from_catalog#1"

    def inv(L):
        perm = state["perm"]
        t = bv("t")
        c = bv("c")
        # every row whose result has already arrived holds the histogram of *its* patch
        oc = L.old.counts._elem
        return dict(arrived=SBool(z3.ForAll([t, c], z3.Implies(z3.And(t >= 0, t < to_term(L.j), c >= 0, c < nb.t),
                                                                L.counts._elem(perm.pi(t), c) == hist(perm.pi(t), c)))),
                    # frame: the rows of the patches whose result has not arrived yet hold what they held before the loop
                    untouched=SBool(z3.ForAll([t, c], z3.Implies(z3.And(t >= to_term(L.j), t < N.t, c >= 0, c < nb.t),
                                                                  L.counts._elem(perm.pi(t), c) == oc(perm.pi(t), c)))))
    name = "C03/HistData.from_catalog"
    cat = CatalogProxy(ctx, N)
    with Patches() as pt, use_loops({site: LoopSpec(inv=inv)} if site in shadow.SITES else {}):
        pt.set(R, "_redshift_histogram", hist_stub)
        pt.set(R, "parallel", Par)
        pt.set(R, "resample_jackknife", resample_stub)
        pt.set(R.HistData, "__init__", HistInit)
        ctx.canary()
        res = expect_no_exception(ctx, call(R.HistData.from_catalog.__func__, R.HistData, cat, cfg, False, None), name)
    perm = state["perm"]
    counts = state.get("resampled")
    ctx.check(f"{name}/post:jackknife_samples_come_from_resample_jackknife", res.samples == "SAMPLES" and counts is not None)
    i, c = ctx.fresh_int("i", lo=0), ctx.fresh_int("c", lo=0)
    ctx.assume(z3.And(i.t < N.t, c.t < nb.t), "post:arbitrary patch and bin")
    ctx.inputs.update(i=("int", i), c=("int", c))
    # instance of the bijection: row i arrived at position pinv(i)
    ctx.assume(z3.And(perm.pinv(i.t) >= 0, perm.pinv(i.t) < N.t, perm.pi(perm.pinv(i.t)) == i.t), "contract:iter_unordered instance")
    ctx.check(f"{name}/post:row_i_is_histogram_of_patch_i_for_every_arrival_order",
              counts.elem(i.t, c.t) == hist(i.t, c.t),
              detail="rows of the histogram table must be indexed by patch, not by arrival order")
    ctx.check(f"{name}/post:data_is_sum_over_patches",
              res.data.elem(c.t) == sigma.total(lambda t: counts._elem(t, c.t), N.t))


# ---------------------------------------------------------------------------------------------------------
# covariance
# ---------------------------------------------------------------------------------------------------------

@unit(P, "cov_from_samples", fuc=["yaw.correlation.corrdata:cov_from_samples", "yaw.correlation.corrdata:SampledData.covariance",
                                  "yaw.correlation.corrdata:SampledData.error"], trusted=["np.cov"])
def u_cov(ctx):
    """C[a,b] = (N-1)/N Σ_k (x_ka - mean_a)(x_kb - mean_b) for N >= 2, symmetric; error^2 = diag C"""
    CD = mod("yaw.correlation.corrdata")
    binning, nb = CC.make_binning(ctx)
    N = ctx.fresh_int("num_samples", lo=2, size=True)
    ctx.inputs["num_samples"] = ("int", N)
    sd = CC.make_sampled(ctx, binning, nb, N)
    name = "C03/cov_from_samples"
    ctx.canary()
    res = expect_no_exception(ctx, call(CD.cov_from_samples, sd.samples), name)
    a, b = ctx.fresh_int("a", lo=0), ctx.fresh_int("b", lo=0)
    ctx.assume(z3.And(a.t < nb.t, b.t < nb.t), "post:arbitrary matrix cell")
    x = sd.samples._elem
    Nr = z3.ToReal(N.t)
    mean = lambda q: sigma.total(lambda k: x(k, q), N.t, "M") / Nr  # noqa: E731
    spec = lambda p, q: (Nr - 1) / Nr * sigma.total(lambda k: (x(k, p) - mean(p)) * (x(k, q) - mean(q)), N.t, "C")  # noqa: E731
    ctx.check(f"{name}/post:shape", And(res.ndim == 2, res.shape[0] == nb, res.shape[1] == nb))
    ctx.check(f"{name}/post:delete_one_jackknife_covariance", res.elem(a.t, b.t) == spec(a.t, b.t),
              detail="C[a,b] vs (N-1)/N Σ_k (x_ka - mean_a)(x_kb - mean_b)")
    # symmetry: the summands of C[a,b] and C[b,a] are pointwise equal
    sigma.congruence(ctx, lambda k: (x(k, a.t) - mean(a.t)) * (x(k, b.t) - mean(b.t)),
                     lambda k: (x(k, b.t) - mean(b.t)) * (x(k, a.t) - mean(a.t)), N.t, hint="C", name="symmetry")
    ctx.check(f"{name}/post:symmetric", res.elem(a.t, b.t) == res.elem(b.t, a.t))
    # the diagonal is a sum of squares: non-negative
    sigma.nonneg(ctx, lambda k: (x(k, a.t) - mean(a.t)) * (x(k, a.t) - mean(a.t)), N.t, hint="C", name="diag_nonneg")
    ctx.check(f"{name}/post:variances_nonnegative", res.elem(a.t, a.t) >= 0)
    cov2 = expect_no_exception(ctx, call(lambda: sd.covariance), "C03/SampledData.covariance")
    ctx.check("C03/SampledData.covariance/post:is_cov_from_samples_of_the_samples", cov2.elem(a.t, b.t) == res.elem(a.t, b.t))
    err = expect_no_exception(ctx, call(lambda: sd.error), "C03/SampledData.error")
    ctx.check("C03/SampledData.error/post:error_squared_is_diagonal",
              And(err.elem(a.t) >= 0, err.elem(a.t) * err.elem(a.t) == res.elem(a.t, a.t)))


# ---------------------------------------------------------------------------------------------------------
# replay on the real code
# ---------------------------------------------------------------------------------------------------------

def _arr_from(w, key, shape, rng):
    """witness array if it has the right shape and is not degenerate, else generic values"""
    import numpy as np
    v = w.get(key)
    try:
        a = np.array(v, dtype=float)
        if a.shape == tuple(shape) and len(np.unique(a)) > max(1, a.size // 2):
            return a
    except Exception:  # noqa: BLE001
        pass
    return rng.integers(1, 50, size=shape).astype(float) + rng.random(shape).round(2)


def replay_witness(unit_name, case, ob):
    import numpy as np
    w = ob.get("witness") or {}
    rng = np.random.default_rng(12345)
    from yaw.binning import Binning
    from yaw.correlation import paircounts as PCr
    from yaw.correlation import corrdata as CDr
    auto = case.get("auto") in (True, "True")
    nb = int(w.get("num_bins", 2)) if isinstance(w.get("num_bins"), int) and 1 <= w.get("num_bins") <= 4 else 2
    N = int(w.get("num_patches", 3)) if isinstance(w.get("num_patches"), int) and 1 <= w.get("num_patches") <= 5 else 3
    binning = Binning(np.linspace(0.1, 1.0, nb + 1))
    if unit_name == "BinwisePatchwiseArray.sample_patch_sum":
        A = _arr_from(w, "counts", (nb, N, N), rng)
        res = PCr.PatchedCounts(binning, A, auto=auto).sample_patch_sum()
        exp_data = A.sum(axis=(1, 2))
        exp_s = np.array([[np.delete(np.delete(A[b], k, 0), k, 1).sum() for b in range(nb)] for k in range(N)])
        bad = not (np.allclose(res.data, exp_data) and np.allclose(res.samples, exp_s))
        return {"reproduced": bool(bad), "inputs": {"counts": A.tolist(), "auto": auto},
                "observed": {"data": res.data.tolist(), "samples": res.samples.tolist()},
                "expected": {"data": exp_data.tolist(), "samples": exp_s.tolist()}}
    if unit_name == "PatchedSumWeights.get_array":
        w1, w2 = _arr_from(w, "sw1", (nb, N), rng), _arr_from(w, "sw2", (nb, N), rng)
        got = PCr.PatchedSumWeights(binning, w1, w2, auto=auto).get_array()
        exp = np.einsum("bi,bj->bij", w1, w2)
        if auto:
            for b in range(nb):
                exp[b] = np.triu(exp[b])
                exp[b][np.diag_indices(N)] *= 0.5
        return {"reproduced": bool(not np.allclose(got, exp)), "inputs": {"sum_weights1": w1.tolist(), "sum_weights2": w2.tolist(), "auto": auto},
                "observed": got.tolist(), "expected": exp.tolist()}
    if unit_name == "NormalisedCounts.sample_patch_sum":
        A = _arr_from(w, "counts", (nb, N, N), rng)
        w1, w2 = _arr_from(w, "sw1", (nb, N), rng), _arr_from(w, "sw2", (nb, N), rng)
        if auto:
            A = np.triu(A)
        pc = PCr.PatchedCounts(binning, A, auto=auto)
        sw = PCr.PatchedSumWeights(binning, w1, w2, auto=auto)
        res = PCr.NormalisedCounts(pc, sw).sample_patch_sum()
        W = sw.get_array()
        exp = np.array([[np.delete(np.delete(A[b], k, 0), k, 1).sum() / np.delete(np.delete(W[b], k, 0), k, 1).sum()
                         for b in range(nb)] for k in range(N)]) if N > 1 else res.samples
        bad = not np.allclose(res.samples, exp, equal_nan=True)
        return {"reproduced": bool(bad), "inputs": {"counts": A.tolist(), "sw1": w1.tolist(), "sw2": w2.tolist(), "auto": auto},
                "observed": res.samples.tolist(), "expected": exp.tolist()}
    if unit_name == "resample_jackknife":
        import importlib
        red = importlib.import_module("yaw.redshifts")
        Nn = int(case.get("N", 3))
        obs = _arr_from(w, "obs", (Nn, nb), rng)
        got = red.resample_jackknife(obs)
        exp = obs.sum(axis=0)[None, :] - obs
        return {"reproduced": bool(got.shape != exp.shape or not np.allclose(got, exp)), "inputs": {"observations": obs.tolist()},
                "observed": got.tolist(), "expected": exp.tolist()}
    if unit_name == "cov_from_samples":
        Ns = int(w.get("num_samples", 4)) if isinstance(w.get("num_samples"), int) and 2 <= w.get("num_samples") <= 6 else 4
        x = _arr_from(w, "sd_samples", (Ns, nb), rng)
        got = CDr.cov_from_samples(x)
        d = x - x.mean(axis=0)
        exp = (Ns - 1) / Ns * d.T @ d
        sd = CDr.SampledData(binning, x.mean(axis=0), x)
        bad = not np.allclose(got, exp) or not np.allclose(sd.error ** 2, np.diag(exp))
        return {"reproduced": bool(bad), "inputs": {"samples": x.tolist()}, "observed": got.tolist(), "expected": exp.tolist()}
    if unit_name == "HistData.from_catalog":
        return _replay_hist_from_catalog()
    return {"reproduced": False, "note": "no concrete replay harness for this obligation"}


def _replay_hist_from_catalog():
    """real HistData.from_catalog on a real (temporary) catalog, with iter_unordered replaced by a version that
    delivers the *real sequential* results in reversed order: the result must not change"""
    import importlib
    import shutil
    import tempfile
    import numpy as np
    import pandas as pd
    import yaw
    from yaw.utils import parallel
    red = importlib.import_module("yaw.redshifts")
    tmp = tempfile.mkdtemp(prefix="c03replay")
    try:
        rng = np.random.default_rng(5)
        n = 600
        df = pd.DataFrame(dict(ra=rng.uniform(0, 20, n), dec=rng.uniform(-10, 10, n), z=rng.uniform(0.1, 1.0, n),
                               pid=np.repeat(np.arange(4), n // 4)))
        cat = yaw.Catalog.from_dataframe(tmp + "/cat", df, ra_name="ra", dec_name="dec", redshift_name="z", patch_name="pid")
        cfg = yaw.Configuration.create(rmin=100, rmax=1000, zmin=0.1, zmax=1.0, num_bins=3)
        base = red.HistData.from_catalog(cat, cfg)
        orig = parallel.iter_unordered

        def reversed_order(func, iterable, **kw):
            return iter(list(orig(func, iterable, **kw))[::-1])
        parallel.iter_unordered = reversed_order
        try:
            other = red.HistData.from_catalog(cat, cfg)
        finally:
            parallel.iter_unordered = orig
        counts = np.array([red._redshift_histogram(p, cfg.binning.binning) for p in cat.values()])
        exp = counts.sum(axis=0) - counts
        bad = not (np.array_equal(base.samples, other.samples) and np.allclose(base.samples, exp))
        return {"reproduced": bool(bad), "inputs": "4 patches x 150 objects, arrival order reversed",
                "observed": {"sequential": base.samples.tolist(), "reversed_arrival": other.samples.tolist()},
                "expected": exp.tolist()}
    finally:
        shutil.rmtree(tmp, ignore_errors=True)


# ---------------------------------------------------------------------------------------------------------
# the redshift estimate: sample k is built from sample k of every ingredient (the C04 units on the same functions)
# ---------------------------------------------------------------------------------------------------------

def _register_shared_nz():
    from . import C04 as _C04
    unit(P, "RedshiftData.from_corrdata", fuc=["yaw.redshifts:RedshiftData.from_corrdata"],
         cases=[dict(ref=r, unk=u) for r in (False, True) for u in (False, True)], trusted=["np.tile+reshape identity"])(_C04.u_from_corrdata)
    unit(P, "RedshiftData.from_corrfuncs", fuc=["yaw.redshifts:RedshiftData.from_corrfuncs"],
         cases=[dict(ref=r, unk=u) for r in (False, True) for u in (False, True)])(_C04.u_from_corrfuncs)
    # the correlation function samples are the estimator applied to the leave-one-out pair counts, row by row (C04 unit)
    unit(P, "CorrFunc.sample", fuc=["yaw.correlation.corrfunc:CorrFunc.sample"], cases=_C04.SUBSETS)(_C04.u_sample)


# _register_shared_nz() is called by the driver after this module is fully imported (no import cycles)


# "in patch-index order": the histogram samples are numbered by the position of a patch in the iteration over the catalog, which
# must be ascending patch id whatever order the patches were loaded in (C12 unit on the catalog accessors)
def _register_shared_round9():
    from . import C12 as _C12
    unit(P, "Catalog.accessors", fuc=["yaw.catalog.catalog:Catalog.__iter__", "yaw.catalog.catalog:Catalog.get_centers", "yaw.catalog.catalog:Catalog.get_num_records"],
         kind="bounded")(_C12.u_accessors)


# _register_shared_round9() is called by the driver after this module is fully imported (no import cycles)


# the histogram "with patch k removed" is the sum of the per-patch histograms of the other patches: each of them is the weighted count
# of the records of that patch (C10 unit on _redshift_histogram)
def _register_shared_hist():
    from . import C10 as _C10
    unit(P, "_redshift_histogram", fuc=["yaw.redshifts:_redshift_histogram"], cases=[dict(closed=c, has_weights=w) for c in _C10.CLOSED for w in (False, True)])(_C10.u_hist)


# _register_shared_hist() is called by the driver after this module is fully imported (no import cycles)
