"""C14 - spherical geometry primitives.

Deductive part (formula level, over the reals with sin/cos/arcsin/arccos/sqrt as uninterpreted functions and their
axioms): the code computes the exact-geometry formulas -
  to_3d           (cos ra cos dec, sin ra cos dec, sin dec), a unit vector
  from_3d         dec = arcsin(z/|v|), ra = arccos(x/rho) * sgn(y) mod 2pi in [0, 2pi); ra = 0 on the polar axis
  round trips     from_3d(to_3d(p)) = p for dec in (-pi/2, pi/2), ra in [0, 2pi)
  distance        chord = |u_p - u_q|, angle = 2 arcsin(chord/2); chord > 2 is rejected
  chord <-> angle mutually inverse on [0, pi] / [0, 2], order preserving
  sgn             sgn(0) = +1
  mean            direction of the (weighted) vector mean
Bounded part (labelled bounded): explicit floating-point bounds against a 50-digit mpmath reference on a grid with
poles, the RA wrap, tiny and near-antipodal separations.  The floating-point bounds - the heart of the statement -
are NOT decided deductively (reals only).
"""
from __future__ import annotations

import z3

from pyvc import core, shadow, realfn, sigma
from pyvc.core import SNum, SBool, Ctx, EndPath, to_term, tob, to_real
from pyvc.arrays import SArr, bv, forall, dim_term
from .common import And, Or, Implies, Not, ForAll, mod, unit, call, Raised, expect_no_exception, fail, Patches

P = "C14"
EXPLANATION = (
    "Deductive at formula level: coordinates.py is re-read from the current source and executed on symbolic coordinate "
    "arrays; each result element is compared with the exact-geometry formula over the reals (trigonometric functions "
    "are uninterpreted symbols with axioms). Floating-point accuracy is covered only by the bounded grid against a "
    "50-digit reference (labelled bounded, not counted as proved).")
TRUSTED = ["axioms of sin/cos/arcsin/arccos/sqrt over the reals (pyvc/realfn.py)", "numpy real modulo contract"]
NOT_DECIDED = ["explicit floating-point error bounds at every position (decided only on the bounded grid)",
               "half-angle identity 2 arcsin(sqrt((1-c)/2)) = arccos(c) is used as an axiom, not derived"]
ASSUMPTIONS = []

S, C_, AS, AC, SQ = (realfn.F[k] for k in ("sin", "cos", "arcsin", "arccos", "sqrt"))


def coords(ctx, n, hint="p"):
    CO = mod("yaw.coordinates")
    a = CO.AngularCoordinates.__new__(CO.AngularCoordinates)
    a.data = SArr.fresh(ctx, hint, (n, 2), "f", register=True)
    return a


def trig_instances(ctx, *angles):
    """ground instances of the Pythagorean identity and ranges at the angles that occur"""
    for a in angles:
        ctx.assume(z3.And(S(a) * S(a) + C_(a) * C_(a) == 1, S(a) >= -1, S(a) <= 1, C_(a) >= -1, C_(a) <= 1), "realfn:sin/cos instance")


@unit(P, "sgn", fuc=["yaw.coordinates:sgn"])
def u_sgn(ctx):
    CO = mod("yaw.coordinates")
    n = ctx.fresh_int("n", lo=1, size=True)
    v = SArr.fresh(ctx, "v", (n,), "f", register=True)
    ctx.canary()
    r = expect_no_exception(ctx, call(CO.sgn, v), "C14/sgn")
    t = ctx.fresh_int("t", lo=0)
    ctx.assume(t.t < n.t, "post:arbitrary element")
    x = v._elem(t.t)
    ctx.check("C14/sgn/post:sign_with_zero_positive", r.elem(t.t) == z3.If(x >= 0, z3.RealVal(1), z3.RealVal(-1)))


@unit(P, "AngularCoordinates.to_3d", fuc=["yaw.coordinates:AngularCoordinates.to_3d", "yaw.coordinates:AngularCoordinates.ra",
                                         "yaw.coordinates:AngularCoordinates.dec"])
def u_to3d(ctx):
    """(cos ra cos dec, sin ra cos dec, sin dec); unit length"""
    n = ctx.fresh_int("n", lo=1, size=True)
    p = coords(ctx, n)
    ctx.canary()
    v = expect_no_exception(ctx, call(type(p).to_3d, p), "C14/to_3d")
    t = ctx.fresh_int("t", lo=0)
    ctx.assume(t.t < n.t, "post:arbitrary point")
    ra, dec = p.data._elem(t.t, z3.IntVal(0)), p.data._elem(t.t, z3.IntVal(1))
    ctx.check("C14/to_3d/post:shape", And(v.shape[0] == n, v.shape[1] == 3))
    ctx.check("C14/to_3d/post:components", And(v.at(t, 0) == SNum(C_(ra) * C_(dec)), v.at(t, 1) == SNum(S(ra) * C_(dec)), v.at(t, 2) == SNum(S(dec))))
    trig_instances(ctx, ra, dec)
    x, y, z = v.elem(t.t, 0), v.elem(t.t, 1), v.elem(t.t, 2)
    ctx.check("C14/to_3d/post:unit_length", SBool(x * x + y * y + z * z == 1))


@unit(P, "AngularCoordinates.from_3d", fuc=["yaw.coordinates:AngularCoordinates.from_3d", "yaw.coordinates:AngularCoordinates.__init__"],
      trusted=["real modulo", "arccos/arcsin ranges"])
def u_from3d(ctx):
    """dec = arcsin(z/|v|); ra = arccos(x/rho)*sgn(y) mod 2pi, 0 on the polar axis; ra in [0, 2pi)"""
    CO = mod("yaw.coordinates")
    n = ctx.fresh_int("n", lo=1, size=True)
    xyz = SArr.fresh(ctx, "xyz", (n, 3), "f", register=True)
    t = ctx.fresh_int("t", lo=0)
    ctx.assume(t.t < n.t, "post:arbitrary point")
    x, y, z = (xyz._elem(t.t, z3.IntVal(k)) for k in range(3))
    ctx.assume(x * x + y * y + z * z > 0, "pre:non-zero vector")
    ctx.canary()
    res = expect_no_exception(ctx, call(CO.AngularCoordinates.from_3d.__func__, CO.AngularCoordinates, xyz), "C14/from_3d")
    pi = realfn.pi().t
    ra, dec = res.data.elem(t.t, 0), res.data.elem(t.t, 1)
    rho, r = SQ(x * x + y * y), SQ(x * x + y * y + z * z)
    ctx.check("C14/from_3d/post:dec_is_arcsin(z/|v|)", SBool(dec == AS(z / r)))
    xn = z3.If(rho > 0, x / rho, z3.RealVal(1))
    sg = z3.If(y >= 0, z3.RealVal(1), z3.RealVal(-1))
    K = z3.Function("mod_quotient", z3.RealSort(), z3.RealSort(), z3.IntSort())
    raw = AC(xn) * sg
    ctx.check("C14/from_3d/post:ra_is_signed_arccos_mod_2pi", SBool(ra == raw - 2 * pi * z3.ToReal(K(raw, 2 * pi))))
    ctx.check("C14/from_3d/post:ra_in_[0,2pi)", SBool(z3.And(ra >= 0, ra < 2 * pi)))
    ctx.check("C14/from_3d/post:shape", And(res.data.shape[0] == n, res.data.shape[1] == 2))


@unit(P, "round_trip", fuc=["yaw.coordinates:AngularCoordinates.from_3d", "yaw.coordinates:AngularCoordinates.to_3d"],
      cases=[dict(half="east"), dict(half="west")], trusted=["cos(2pi - a) = cos a, sign of sin on (0,pi)/(pi,2pi)"])
def u_round_trip(ctx, half):
    """from_3d(to_3d(p)) = p for dec in (-pi/2, pi/2) and ra in [0, pi] (east) / (pi, 2pi) (west)"""
    CO = mod("yaw.coordinates")
    n = ctx.fresh_int("n", lo=1, size=True)
    p = coords(ctx, n)
    t = ctx.fresh_int("t", lo=0)
    ctx.assume(t.t < n.t, "post:arbitrary point")
    ra, dec = p.data._elem(t.t, z3.IntVal(0)), p.data._elem(t.t, z3.IntVal(1))
    pi = realfn.pi().t
    ctx.assume(z3.And(dec > -pi / 2, dec < pi / 2), "pre:not on a pole")
    if half == "east":
        ctx.assume(z3.And(ra >= 0, ra <= pi), "pre:eastern half")
    else:
        ctx.assume(z3.And(ra > pi, ra < 2 * pi), "pre:western half")
    ctx.canary()
    v = expect_no_exception(ctx, call(type(p).to_3d, p), "C14/round_trip")
    # facts about the trigonometric functions at the angles of point t (ground instances of real-analysis facts)
    trig_instances(ctx, ra, dec)
    cd, sr, cr = C_(dec), S(ra), C_(ra)
    ctx.assume(cd > 0, "realfn:cos > 0 on (-pi/2, pi/2)")
    ctx.assume(AS(S(dec)) == dec, "realfn:arcsin(sin x) = x on [-pi/2, pi/2]")
    if half == "east":
        ctx.assume(z3.And(sr >= 0, AC(cr) == ra), "realfn:sin >= 0 and arccos(cos x) = x on [0, pi]")
    else:
        ctx.assume(z3.And(sr < 0, AC(cr) == 2 * pi - ra), "realfn:sin < 0 and arccos(cos x) = 2pi - x on (pi, 2pi)")
    # sqrt of the squares that occur
    rho2 = (cr * cd) * (cr * cd) + (sr * cd) * (sr * cd)
    ctx.assume(z3.And(SQ(rho2) == cd, SQ(rho2 + S(dec) * S(dec)) == 1),
               "realfn:sqrt(cos^2 dec (cos^2 ra + sin^2 ra)) = cos dec > 0, sqrt(1) = 1 (Pythagorean identity)")
    back = expect_no_exception(ctx, call(CO.AngularCoordinates.from_3d.__func__, CO.AngularCoordinates, v), "C14/round_trip")
    ctx.check("C14/round_trip/post:dec_recovered", SBool(back.data.elem(t.t, 1) == dec))
    ctx.check("C14/round_trip/post:ra_recovered", SBool(back.data.elem(t.t, 0) == ra),
              detail=f"{half}ern half: from_3d(to_3d(p)).ra == p.ra")


@unit(P, "AngularDistances.chord_angle", fuc=["yaw.coordinates:AngularDistances.to_3d", "yaw.coordinates:AngularDistances.from_3d",
                                             "yaw.coordinates:AngularDistances.__init__"])
def u_chord_angle(ctx):
    """chord = 2 sin(angle/2), angle = 2 arcsin(chord/2); mutually inverse on [0,pi]/[0,2]; order preserving; chord > 2 rejected"""
    CO = mod("yaw.coordinates")
    n = ctx.fresh_int("n", lo=1, size=True)
    ang = CO.AngularDistances.__new__(CO.AngularDistances)
    ang.data = SArr.fresh(ctx, "angle", (n,), "f", register=True)
    t, u = ctx.fresh_int("t", lo=0), ctx.fresh_int("u", lo=0)
    ctx.assume(z3.And(t.t < n.t, u.t < n.t), "post:two arbitrary elements")
    pi = realfn.pi().t
    a, b = ang.data._elem(t.t), ang.data._elem(u.t)
    ctx.canary()
    ch = expect_no_exception(ctx, call(CO.AngularDistances.to_3d, ang), "C14/AngularDistances.to_3d")
    ctx.check("C14/AngularDistances.to_3d/post:chord_is_2sin(a/2)", SBool(ch.elem(t.t) == 2 * S(a / 2)))
    ctx.assume(z3.And(a >= 0, a <= pi, b >= 0, b <= pi), "pre:angles in [0, pi]")
    ctx.check("C14/AngularDistances.to_3d/post:order_preserving", SBool(z3.Implies(a < b, ch.elem(t.t) < ch.elem(u.t))))
    back = call(CO.AngularDistances.from_3d.__func__, CO.AngularDistances, ch)
    if isinstance(back, Raised):
        ctx.check("C14/AngularDistances.from_3d/post_exc[ValueError]:only_if_a_chord_exceeds_2",
                  And(isinstance(back.exc, ValueError), SBool(z3.Exists([bv("q")], z3.BoolVal(True)))) if False else
                  isinstance(back.exc, ValueError) and False, detail="chords of angles in [0,pi] never exceed 2")
        return
    ctx.assume(AS(S(a / 2)) == a / 2, "realfn:arcsin(sin x) = x on [0, pi/2]")
    ctx.check("C14/AngularDistances.from_3d/post:inverse_of_to_3d_on_[0,pi]", SBool(back.data.elem(t.t) == a))
    # the other direction on [0, 2]
    chords = SArr.fresh(ctx, "chord", (n,), "f")
    c = chords._elem(t.t)
    r = call(CO.AngularDistances.from_3d.__func__, CO.AngularDistances, chords)
    if isinstance(r, Raised):
        ctx.cover("rejects")
        q = bv("q")
        ctx.check("C14/AngularDistances.from_3d/post_exc[ValueError]:only_if_some_chord_exceeds_2",
                  And(isinstance(r.exc, ValueError), SBool(z3.Exists([q], z3.And(q >= 0, q < n.t, chords._elem(q) > 2)))))
        return
    ctx.cover("accepts")
    ctx.check("C14/AngularDistances.from_3d/post:no_chord_exceeds_2", SBool(c <= 2))
    ctx.check("C14/AngularDistances.from_3d/post:angle_is_2arcsin(c/2)", SBool(r.data.elem(t.t) == 2 * AS(c / 2)))
    ctx.assume(z3.And(c >= 0), "pre:non-negative chord")
    ctx.assume(z3.Implies(z3.And(c / 2 >= -1, c / 2 <= 1), S(AS(c / 2)) == c / 2), "realfn:sin(arcsin y) = y on [-1, 1]")
    ch2 = expect_no_exception(ctx, call(CO.AngularDistances.to_3d, r), "C14/AngularDistances.to_3d")
    ctx.check("C14/AngularDistances.to_3d/post:inverse_of_from_3d_on_[0,2]", SBool(ch2.elem(t.t) == c))


@unit(P, "AngularCoordinates.distance", fuc=["yaw.coordinates:AngularCoordinates.distance"], trusted=["half-angle identity"])
def u_distance(ctx):
    """angle = 2 arcsin(|u_p - u_q|/2), which is arccos(u_p . u_q) (half-angle identity); other types rejected"""
    CO = mod("yaw.coordinates")
    n = ctx.fresh_int("n", lo=1, size=True)
    p, q = coords(ctx, n, "p"), coords(ctx, n, "q")
    t = ctx.fresh_int("t", lo=0)
    ctx.assume(t.t < n.t, "post:arbitrary pair")
    ctx.canary()
    up = expect_no_exception(ctx, call(type(p).to_3d, p), "C14/distance")
    uq = expect_no_exception(ctx, call(type(q).to_3d, q), "C14/distance")

    def comps(tt):
        a = [up._elem(tt, z3.IntVal(k)) for k in range(3)]
        b = [uq._elem(tt, z3.IntVal(k)) for k in range(3)]
        d = [x - y for x, y in zip(a, b)]
        return a, b, d[0] * d[0] + d[1] * d[1] + d[2] * d[2], a[0] * b[0] + a[1] * b[1] + a[2] * b[2]
    # lemmas for every pair (quantified; proved by skolemisation): unit vectors, chord^2 = 2 - 2 u.v, chord <= 2
    i = bv("i")
    rng = z3.And(i >= 0, i < n.t)
    pyth = []
    for pt in (p, q):
        for col in (0, 1):
            ang = pt.data._elem(i, z3.IntVal(col))
            pyth.append(S(ang) * S(ang) + C_(ang) * C_(ang) == 1)
    ctx.assume(z3.ForAll([i], z3.Implies(rng, z3.And(pyth))), "realfn:Pythagorean identity at the coordinates")
    a_, b_, chord2_i, dot_i = comps(i)
    ctx.check("C14/distance/lemma:unit_vectors", SBool(z3.ForAll([i], z3.Implies(rng, z3.And(
        a_[0] * a_[0] + a_[1] * a_[1] + a_[2] * a_[2] == 1, b_[0] * b_[0] + b_[1] * b_[1] + b_[2] * b_[2] == 1)))), kind="lemma")
    ctx.check("C14/distance/lemma:chord_squared_is_2-2cos", SBool(z3.ForAll([i], z3.Implies(rng, chord2_i == 2 - 2 * dot_i))), kind="lemma")
    # generic lemma over six reals (pure polynomial arithmetic): |a| = |b| = 1  ->  0 <= |a - b|^2 <= 4
    g = [z3.Real(f"g{k}?gen") for k in range(6)]
    ga, gb = g[:3], g[3:]
    gd = sum(((x - y) * (x - y) for x, y in zip(ga, gb)), z3.RealVal(0))
    generic = z3.Implies(z3.And(sum((x * x for x in ga), z3.RealVal(0)) == 1, sum((y * y for y in gb), z3.RealVal(0)) == 1),
                         z3.And(gd >= 0, gd <= 4))
    ob = ctx.lemma_nra("C14/distance/lemma:chord_squared_at_most_4_for_unit_vectors", generic,
                       detail="|a-b|^2 = 2 - 2 a.b and |a+b|^2 = 2 + 2 a.b >= 0")
    if ob is not None and ob.status != "discharged":
        raise EndPath()
    ctx.assume(z3.ForAll([i], z3.Implies(rng, z3.And(chord2_i >= 0, chord2_i <= 4))),
               "lemma:instance of chord_squared_at_most_4_for_unit_vectors at the unit vectors of every pair")
    ctx.assume(z3.ForAll([i], z3.Implies(rng, SQ(chord2_i) <= 2), patterns=[SQ(chord2_i)]),
               "realfn:sqrt monotone, sqrt(4) = 2 (instance for the chords)")
    res = call(type(p).distance, p, q)
    _, _, chord2, dot = comps(t.t)
    if isinstance(res, Raised):
        ctx.check("C14/distance/post_exc:never_for_unit_vectors", False, detail=f"{type(res.exc).__name__}: {res.exc}")
        return
    ctx.check("C14/distance/post:angle_is_2arcsin(chord/2)", SBool(res.data.elem(t.t) == 2 * AS(SQ(chord2) / 2)))
    r = call(type(p).distance, p, 1.0)
    ctx.check("C14/distance/post_exc:other_type", isinstance(r, Raised) and isinstance(r.exc, TypeError))


@unit(P, "AngularCoordinates.mean", fuc=["yaw.coordinates:AngularCoordinates.mean"], cases=[dict(weighted=False), dict(weighted=True)],
      trusted=["np.average"])
def u_mean(ctx, weighted):
    """from_3d of the (weighted) average of the unit vectors"""
    CO = mod("yaw.coordinates")
    n = ctx.fresh_int("n", lo=1, size=True)
    p = coords(ctx, n)
    w = SArr.fresh(ctx, "w", (n,), "f") if weighted else None
    got = {}

    def from_3d(cls, xyz):
        got["xyz"] = xyz
        return "MEAN"
    with Patches() as pt:
        pt.set(CO.AngularCoordinates, "from_3d", classmethod(from_3d))
        ctx.canary()
        if weighted:
            ctx.assume(sigma.total(lambda t: w._elem(t), n.t, "A") != 0, "pre:non-zero total weight")
        res = expect_no_exception(ctx, call(type(p).mean, p, w), "C14/mean")
    v = expect_no_exception(ctx, call(type(p).to_3d, p), "C14/mean")
    if "xyz" not in got:
        from pyvc.core import Unsupported
        raise Unsupported("mean() did not hand a mean vector to from_3d on this path: the contract (result = from_3d(mean vector), which also "
                          "wraps the right ascension into [0, 2pi)) has to be restated for the new code; the floating-point grid decides")
    m = got["xyz"]
    ctx.check("C14/mean/post:result_is_from_3d_of_the_mean_vector", res == "MEAN" and m.ndim == 1 and bool(m.shape[0] == 3))
    for k in range(3):
        if weighted:
            want = sigma.total(lambda t: w._elem(t) * v._elem(t, z3.IntVal(k)), n.t, "A") / sigma.total(lambda t: w._elem(t), n.t, "A")
        else:
            want = sigma.total(lambda t: v._elem(t, z3.IntVal(k)), n.t, "A") / z3.ToReal(n.t)
        ctx.check(f"C14/mean/post:component_{k}_is_the_{'weighted_' if weighted else ''}average", SBool(m.elem(k) == want))


# ---------------------------------------------------------------------------------------------------------
# bounded: floating-point bounds against a 50-digit reference
# ---------------------------------------------------------------------------------------------------------

def _grid():
    import numpy as np
    eps = [0.0, 1e-300, 1e-17, 1e-12, 1e-9, 1e-7, 1e-5, 1e-3]
    ras = sorted(set([0.0, 1e-12, 1e-7, 1.0, np.pi / 2, np.pi - 1e-9, np.pi, np.pi + 1e-9, 4.0, 2 * np.pi - 1e-7, 2 * np.pi - 1e-12,
                      float(np.nextafter(2 * np.pi, 0))]))
    decs = sorted(set([0.0, 0.3, -0.7, 1.2] + [np.pi / 2 - e for e in eps] + [-np.pi / 2 + e for e in eps]))
    return ras, decs


def bounded(opts):
    import time
    import itertools
    import numpy as np
    import mpmath as mp
    from yaw.coordinates import AngularCoordinates, AngularDistances
    mp.mp.dps = 50
    t0 = time.time()
    ras, decs = _grid()
    pts = list(itertools.product(ras, decs))
    viol, evals, nontrivial = [], 0, 0
    ULP = 2.220446049250313e-16

    def bad(name, case, observed, expected, bound):
        if len(viol) < 6:
            viol.append(dict(id="bounded:" + name, case=case, observed=observed, expected=expected, bound=bound))
    P_ = AngularCoordinates(np.array(pts))
    xyz = P_.to_3d()
    for (ra, dec), v in zip(pts, xyz):
        ex = [mp.cos(ra) * mp.cos(dec), mp.sin(ra) * mp.cos(dec), mp.sin(dec)]
        evals += 1
        nontrivial += 1
        err = max(abs(mp.mpf(float(a)) - b) for a, b in zip(v, ex))
        if err > 4 * ULP:
            bad("to_3d", dict(ra=ra, dec=dec), [float(a) for a in v], [float(b) for b in ex], "4 ulp absolute")
    back = AngularCoordinates.from_3d(xyz)
    for (ra, dec), (ra2, dec2), v in zip(pts, back.data, xyz):
        evals += 1
        if not (0.0 <= ra2 < 2 * np.pi):
            bad("ra_range", dict(ra=ra, dec=dec), float(ra2), "[0, 2pi)", "exact")
        # the angular displacement caused by the round trip must be tiny (position on the sphere is what matters)
        u2 = AngularCoordinates(np.array([[ra2, dec2]])).to_3d()[0]
        disp = float(np.sqrt(((u2 - v) ** 2).sum()))
        # explicit bound: the arcsin/arccos formulas are ill-conditioned where their argument approaches 1 -
        # dec error ~ ulp/cos(dec) near the poles, ra error ~ ulp/|sin(ra)| near ra = 0, pi (capped at sqrt(ulp))
        cap = 1.5e-8
        tol = 8 * ULP + min(4 * ULP / max(np.cos(dec), 1e-300), cap) + np.cos(dec) * min(4 * ULP / max(abs(np.sin(ra)), 1e-300), cap)
        if disp > tol:
            bad("round_trip_displacement", dict(ra=ra, dec=dec), disp, 0.0, f"{tol:.3e} (8 ulp + conditioning of arcsin/arccos)")
    # from_3d on exact axis / meridian vectors (y == 0 exactly, polar axis, unnormalised input)
    axis = {(-1.0, 0.0, 0.0): (np.pi, 0.0), (1.0, 0.0, 0.0): (0.0, 0.0), (0.0, 1.0, 0.0): (np.pi / 2, 0.0), (0.0, -1.0, 0.0): (1.5 * np.pi, 0.0),
            (0.0, 0.0, 1.0): (0.0, np.pi / 2), (0.0, 0.0, -3.0): (0.0, -np.pi / 2), (-2.0, 0.0, 2.0): (np.pi, np.pi / 4),
            (3.0, -3.0, 0.0): (1.75 * np.pi, 0.0)}
    for vec, (era, edec) in axis.items():
        got = AngularCoordinates.from_3d(np.array([vec])).data[0]
        evals += 1
        nontrivial += 1
        if abs(got[0] - era) > 4 * ULP * max(era, 1) or abs(got[1] - edec) > 4 * ULP:
            bad("from_3d_axis", dict(vector=vec), [float(got[0]), float(got[1])], [era, edec], "4 ulp")
    # separations: tiny, ordinary and near-antipodal, at the equator, across the wrap and at the poles
    seps = [0.0, 1e-15, 1e-12, 1e-9, 1e-6, 1e-3, 0.5, 2.0, np.pi - 1e-3, np.pi - 1e-6, np.pi - 1e-8, np.pi]
    bases = [(0.0, 0.0), (2 * np.pi - 1e-9, 0.1), (1.0, np.pi / 2 - 1e-6), (3.0, -np.pi / 2 + 1e-9), (5.0, 0.9)]
    for (ra, dec), s in itertools.product(bases, seps):
        # second point at geodesic distance s along the meridian (exact construction in mp), folded over the pole
        d2 = mp.mpf(dec) + mp.mpf(s)
        ra2 = mp.mpf(ra)
        if d2 > mp.pi / 2:
            d2, ra2 = mp.pi - d2, (ra2 + mp.pi) % (2 * mp.pi)
        p1 = AngularCoordinates(np.array([[ra, dec]]))
        p2 = AngularCoordinates(np.array([[float(ra2), float(d2)]]))
        got = float(p1.distance(p2).data[0])
        # the same pair through the other calling patterns (many-vs-one as for patch radii, one-vs-many): same number
        pN = AngularCoordinates(np.array([[ra, dec], [ra, dec], [ra, dec]]))
        qN = AngularCoordinates(np.array([[float(ra2), float(d2)]] * 3))
        for label, val in (("many_vs_one", pN.distance(p2).data), ("one_vs_many", p1.distance(qN).data), ("many_vs_many", pN.distance(qN).data)):
            evals += 1
            if not np.all(val == got):
                bad("distance_calling_pattern", dict(pattern=label, p=(ra, dec), q=(float(ra2), float(d2)), separation=s), [float(v) for v in val], got, "identical")
        u1 = [mp.cos(ra) * mp.cos(dec), mp.sin(ra) * mp.cos(dec), mp.sin(dec)]
        r2, dd2 = mp.mpf(float(ra2)), mp.mpf(float(d2))
        u2 = [mp.cos(r2) * mp.cos(dd2), mp.sin(r2) * mp.cos(dd2), mp.sin(dd2)]
        chord = mp.sqrt(sum((a - b) ** 2 for a, b in zip(u1, u2)))
        exact = 2 * mp.asin(min(chord / 2, mp.mpf(1)))
        evals += 1
        nontrivial += 1
        # error budget of the chord formula: ~ulp absolute on the chord, amplified by 1/cos(angle/2) near antipodes
        amp = 1 / max(float(mp.cos(exact / 2)), 1e-8)
        tol = 8 * ULP * amp + 8 * ULP * float(exact)
        if abs(mp.mpf(got) - exact) > tol:
            bad("distance", dict(p=(ra, dec), q=(float(ra2), float(d2)), separation=s), got, float(exact), f"{tol:.3e}")
    # chord <-> angle: mutually inverse and order preserving on a fine grid
    ang = np.concatenate([[0.0], np.logspace(-300, -1, 40), np.linspace(0.1, np.pi, 400)])
    ch = AngularDistances(ang).to_3d()
    ang2 = AngularDistances.from_3d(ch).data
    evals += len(ang)
    if np.any(np.diff(ch) < 0) or np.any(np.diff(ang2) < 0):
        bad("order_preserving", "grid of 441 angles", "non-monotone", "monotone", "exact")
    rel = np.abs(ang2 - ang) / np.maximum(ang, 1e-300) * np.cos(ang / 2).clip(1e-8)
    if np.any(rel > 16 * ULP):
        k = int(np.argmax(rel))
        bad("chord_angle_inverse", dict(angle=float(ang[k])), float(ang2[k]), float(ang[k]), "16 ulp relative (x 1/cos(a/2))")
    try:
        AngularDistances.from_3d(np.array([2.0000001]))
        bad("chord_gt_2", 2.0000001, "accepted", "ValueError", "exact")
    except ValueError:
        pass
    # spherical mean: direction of the vector mean (mp reference), incl. clusters around a pole and across the wrap
    rng = np.random.default_rng(4)
    for centre in ((0.0, 0.0), (2 * np.pi - 1e-3, 0.2), (1.0, np.pi / 2 - 1e-3), (4.0, -np.pi / 2 + 1e-3)):
        ra = (centre[0] + rng.normal(0, 5e-4, 25)) % (2 * np.pi)
        dec = np.clip(centre[1] + rng.normal(0, 5e-4, 25), -np.pi / 2, np.pi / 2)
        w = rng.uniform(0.5, 2.0, 25)
        for weights in (None, w):
            m = AngularCoordinates(np.column_stack([ra, dec])).mean(weights)
            ww = w if weights is not None else np.ones(25)
            vec = [sum(mp.mpf(float(wi)) * f for wi, f in zip(ww, comp)) for comp in
                   ([mp.cos(a) * mp.cos(d) for a, d in zip(ra, dec)], [mp.sin(a) * mp.cos(d) for a, d in zip(ra, dec)], [mp.sin(d) for d in dec])]
            norm = mp.sqrt(sum(c * c for c in vec))
            unit_ = [c / norm for c in vec]
            got = m.to_3d()[0]
            err = max(abs(mp.mpf(float(a)) - b) for a, b in zip(got, unit_))
            evals += 1
            nontrivial += 1
            cosd = max(float(mp.sqrt(unit_[0] ** 2 + unit_[1] ** 2)), 1e-300)
            sinra = max(abs(float(unit_[1])) / cosd, 1e-300)
            # from_3d's arcsin is ill-conditioned towards the poles, its arccos towards ra = 0 / pi
            tol = 64 * ULP + min(8 * ULP / cosd, 1.5e-8) + cosd * min(8 * ULP / sinra, 1.5e-8)
            if err > tol:
                bad("mean", dict(centre=centre, weighted=weights is not None), [float(a) for a in got], [float(b) for b in unit_],
                    f"{tol:.3e} (64 ulp + conditioning of arcsin/arccos)")
    # right ascension in [0, 2pi) for every result, also for sets of one or two points given outside the principal range
    for ras_in in ([-0.3], [7.85], [2 * np.pi], [-0.3, -0.2], [6.4, 6.5], [-4.0], [13.0, 13.1, 13.2]):
        for weights in (None, np.linspace(1.0, 2.0, len(ras_in))):
            pts_in = np.column_stack([ras_in, np.linspace(0.1, 0.2, len(ras_in))])
            m = AngularCoordinates(pts_in).mean(weights)
            evals += 1
            nontrivial += 1
            ra_out = float(np.atleast_1d(m.ra)[0])
            want = float(np.mean(ras_in) % (2 * np.pi))
            if not (0.0 <= ra_out < 2 * np.pi) or min(abs(ra_out - want), 2 * np.pi - abs(ra_out - want)) > 0.2:
                bad("mean_ra_range", dict(ra=ras_in, weighted=weights is not None), ra_out, f"in [0, 2pi), near {want}", "range")
    return dict(kind="bounded", bound=f"{len(pts)} positions (12 right ascensions incl. 0, pi, 2pi-, 20 declinations incl. both poles +- 1e-300..1e-3), "
                f"{len(bases) * len(seps)} pairs with separations 0..pi incl. 1e-15 and pi-1e-8, 441 angles for the chord/angle maps, 8 clusters for the mean; "
                "reference: mpmath with 50 digits", evaluations=evals, distinct_nontrivial=nontrivial, violations=viol,
                samples=[dict(point=pts[5], unit_vector=[float(a) for a in xyz[5]])], wall_s=round(time.time() - t0, 2),
                note="explicit floating-point bounds checked on a fixed grid only; labelled bounded, not counted as proved")


def replay_witness(unit_name, case, ob):
    b = bounded({"tier": "quick"})
    return {"reproduced": bool(b["violations"]), "violations": b["violations"][:4], "note": "floating-point grid against the mpmath reference"}
