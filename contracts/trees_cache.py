"""Shared harness for the per-patch tree cache (C07: history independence, C08: crash safety).

Cache invariant of a patch directory d over the symbolic file system:
  Inv_trees(d):  d/binning exists  =>  it is a complete marker (one byte + edge array) that decodes to X and
                 d/trees.pkl == pickle(Trees(data(d), X))           (X = None for zero edges = unbinned)
`Trees(data, X)` is the specification of build_trees (proved in C10); here build_trees is replaced by a stub that
returns the token TreesTok(X) - the callee contract.
"""
from __future__ import annotations

import z3

from pyvc import core, shadow
from pyvc.core import SNum, SBool, Ctx, EndPath, to_term, tob
from pyvc.arrays import SArr, bv, forall, dim_term
from pyvc.fsmodel_sym import SymFS, SymPath, File, DIR
from .common import And, Or, Implies, Not, ForAll, mod

D = "/cat/patch_0"
PRIORS = ["none", "unbinned", "left", "right", "trees_only", "stale_tmp"]
REQUESTS = ["unbinned", "left", "right"]


class TreesTok:
    """Trees(data(d), X): what build_trees(patch, X) returns (contract stub)"""

    def __init__(self, binning):
        self.binning = binning     # None or a Binning instance

    def __repr__(self):
        return f"TreesTok({'unbinned' if self.binning is None else self.binning.closed})"


def same_binning(a, b):
    """clause: the binnings a, b (None = unbinned) are equal"""
    if a is None or b is None:
        return SBool(z3.BoolVal(a is None and b is None))
    from pyvc.builtins_shim import vc_len
    t = bv("t")
    ea, eb = a.edges, b.edges
    return And(str(a.closed) == str(b.closed), ea.shape[0] == eb.shape[0],
               SBool(z3.ForAll([t], z3.Implies(z3.And(t >= 0, t < dim_term(ea.shape[0])), ea._elem(t) == eb._elem(t)))))


def make_binning(ctx, closed, hint):
    B = mod("yaw.binning")
    O = mod("yaw.options")
    m = ctx.fresh_int(f"num_edges_{hint}", lo=2, size=True)
    edges = SArr.fresh(ctx, f"edges_{hint}", (m,), "f", register=True)
    t = bv("e")
    ctx.assume(forall([t], z3.Implies(z3.And(t >= 0, t + 1 < m.t), edges._elem(t) < edges._elem(t + 1)), patterns=[edges._elem(t)]),
               "type:Binning invariant (strictly increasing edges)")
    b = B.Binning.__new__(B.Binning)
    b.edges, b.closed = edges, O.Closed(closed)
    return b


def marker_parts(ctx, binning):
    if binning is None:
        return [("byte", 1), ("arr", SArr((0,), lambda t: z3.RealVal(0), "f"))]
    return [("byte", 1 if str(binning.closed) == "left" else 0), ("arr", binning.edges)]


class PatchProxy:
    def __init__(self, has_redshifts=True):
        self.cache_path = SymPath(D)
        self.has_redshifts = has_redshifts

    def load_data(self):
        raise AssertionError("build_trees is stubbed")


def setup(ctx, prior, request):
    """file system with data.bin/meta.yml and the prior cache state; returns (fs, patch, old_binning, requested)"""
    fs = SymFS(ctx)
    ctx.ghost["fs"] = fs
    fs.put_dir(D)
    fs.put_file(D + "/data.bin", [("bytes", "data", "DATA")])
    fs.put_file(D + "/meta.yml", [("text", "META")])
    old = None
    if prior in ("unbinned", "left", "right"):
        old = None if prior == "unbinned" else make_binning(ctx, prior, "old")
        fs.put_file(D + "/trees.pkl", [("pickle", TreesTok(old))])
        fs.put_file(D + "/binning", marker_parts(ctx, old))
    elif prior == "trees_only":
        # survivor of an interrupted build: trees of *some* binning, no marker
        fs.put_file(D + "/trees.pkl", [("partial", ("pickle", "ANY"))])
    elif prior == "stale_tmp":
        junk = make_binning(ctx, "left", "junk")
        fs.put_file(D + "/trees.pkl", [("pickle", TreesTok(junk))])
        fs.put_file(D + "/binning.tmp", [("byte", 1)])
    req = None if request == "unbinned" else make_binning(ctx, request, "req")
    return fs, PatchProxy(), old, req


def decode_marker(parts):
    """(ok, binning-description) of a marker file content: ok iff complete (byte + array)"""
    if len(parts) != 2 or parts[0][0] != "byte" or parts[1][0] != "arr":
        return False, None
    return True, (parts[0][1], parts[1][1])


def inv_trees(state, name, ctx, where):
    """obligations: Inv_trees holds in the OS-visible state `state` (dict path -> node)"""
    B = mod("yaw.binning")
    O = mod("yaw.options")
    marker = state.get(D + "/binning")
    if marker is None:
        return True
    if marker is DIR:
        ctx.check(f"{name}/{where}:marker_is_a_file", False)
        return False
    ok, dec = decode_marker(marker.parts)
    ctx.check(f"{name}/{where}:marker_complete", ok, detail=f"marker parts {[p[0] for p in marker.parts]}")
    if not ok:
        return False
    byte, edges = dec
    trees = state.get(D + "/trees.pkl")
    good = trees is not None and trees is not DIR and len(trees.parts) == 1 and trees.parts[0][0] == "pickle" and \
        isinstance(trees.parts[0][1], TreesTok)
    ctx.check(f"{name}/{where}:marked_trees_are_a_complete_pickle", good,
              detail=f"trees.pkl parts {None if trees is None or trees is DIR else [p[0] for p in trees.parts]}")
    if not good:
        return False
    tok = trees.parts[0][1]
    from pyvc.builtins_shim import vc_len
    n_edges = vc_len(edges) if isinstance(edges, SArr) else len(edges)
    if isinstance(n_edges, int) and n_edges == 0:
        ctx.check(f"{name}/{where}:marker_says_unbinned_and_trees_are_unbinned", tok.binning is None)
        return True
    if tok.binning is None:
        ctx.check(f"{name}/{where}:marker_says_binned_but_trees_are_unbinned", SBool(to_term(n_edges) == 0))
        return True
    closed = "left" if (byte if isinstance(byte, int) else int(byte)) else "right"
    t = bv("t")
    eq = And(str(tok.binning.closed) == closed, tok.binning.edges.shape[0] == n_edges,
             SBool(z3.ForAll([t], z3.Implies(z3.And(t >= 0, t < to_term(n_edges)), tok.binning.edges._elem(t) == edges._elem(t)))))
    ctx.check(f"{name}/{where}:trees_belong_to_the_marked_binning", eq)
    return True
