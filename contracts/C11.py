"""C11 - every persisted product reads back equal to what was written.

  HDF5      abstract store (tree of named groups / datasets; dataset write/read is ASSUMED to be the identity): what matters
            is the *names* and the sparse encoding.  CorrFunc for all 8 present/absent combinations of dr/rd/rr (7 valid),
            NormalisedCounts, PatchedSumWeights, Binning, PatchedCounts (sparse: every cell restored, also all-zero counts
            and counts that cancel over the bins), for any number of bins and patches.
  dict/YAML from_dict(to_dict(c)) == c for BinningConfig (linear/comoving/logspace/custom x closed), ScalesConfig (scalar / list
            scales x unit), Configuration (named cosmology), Metadata  (YAML itself: ASSUMED round trip of native data)
  text      layout of the .dat/.smp files for 1..3 bins (BOUNDED in the number of bins, symbolic values): closed side through
            the header, column/row layout, shapes after reading back; the numeric precision of the fixed-width format is
            checked only by the bounded grid (floats + strings are out of reach of both solvers)
"""
from __future__ import annotations

import itertools

import z3

from pyvc import core, shadow, sigma
from pyvc.core import SNum, SBool, Ctx, EndPath, Unsupported, to_term, tob
from pyvc.arrays import SArr, SList, bv, forall, dim_term
from pyvc.builtins_shim import vc_len, SSeq
from .common import And, Or, Implies, Not, ForAll, mod, unit, call, Raised, expect_no_exception, fail, use_loops, LoopSpec, Patches
from . import containers_common as CC
from . import C15 as _C15

P = "C11"
EXPLANATION = (
    "Deductive over an abstract HDF5 store and over dictionaries: to_hdf/from_hdf of all pair-count containers and "
    "to_dict/from_dict of all configuration classes and of the patch metadata are re-read from the current source and "
    "executed on symbolic containers (any number of bins/patches, symbolic contents); the object read back is compared "
    "field by field / cell by cell with the one written. The text files are decided for 1..3 bins with symbolic values "
    "(layout), their numeric precision only by a bounded grid.")
TRUSTED = ["h5py: a dataset reads back what was written under the same name; groups are independent name spaces",
           "PyYAML round trip of dict/list/str/int/float/None", "np.nonzero enumerates exactly the non-zero cells", "np.loadtxt parses what write_* wrote (bounded)"]
NOT_DECIDED = ["precision of format_float_fixed_width + np.loadtxt deductively (string theory + floats); NaN/inf tokens",
               "catalogs through their cache directory: decided in C02 (records) and C07/C08 (caches)"]
ASSUMPTIONS = []


# ---------------------------------------------------------------------------------------------------------
# abstract HDF5 store
# ---------------------------------------------------------------------------------------------------------

class H5Dataset:
    def __init__(self, data):
        self.data = data

    def __getitem__(self, key):
        d = self.data
        if key == ():
            if isinstance(d, str):
                return d.encode("utf-8")
            return d
        if key == slice(None):
            return d
        raise Unsupported("partial read of an HDF5 dataset")

    @property
    def attrs(self):
        return {}

    def vc_len(self):
        return vc_len(self.data)


class H5Group:
    def __init__(self, path="/"):
        self.items, self.path = {}, path

    def create_group(self, name):
        if name in self.items:
            raise ValueError(f"unable to create group (name already exists): {name}")
        g = H5Group(self.path + name + "/")
        self.items[name] = g
        return g

    def create_dataset(self, name, data=None, **kw):
        if name in self.items:
            raise ValueError(f"unable to create dataset (name already exists): {name}")
        if isinstance(data, SArr):
            data = data.copy()
        self.items[name] = H5Dataset(data)

    def __contains__(self, name):
        return name in self.items

    def __getitem__(self, name):
        if name not in self.items:
            raise KeyError(f"unable to open object (object '{name}' doesn't exist)")
        return self.items[name]


def same_binning(a, b):
    return And(vc_len(a) == vc_len(b), str(a.closed) == str(b.closed),
               ForAll("t", lambda t: Implies(And(t >= 0, t <= vc_len(a)), a.edges.at(t) == b.edges.at(t))))


def same_array(a, b):
    cs = [a.ndim == b.ndim]
    if a.ndim != b.ndim:
        return SBool(z3.BoolVal(False))
    cs += [x == y for x, y in zip(a.shape, b.shape)]
    names = [f"q{k}" for k in range(a.ndim)]
    cs.append(ForAll(names, lambda *i: Implies(And(*[And(v >= 0, v < s) for v, s in zip(i, a.shape)]), a.at(*i) == b.at(*i))))
    return And(*cs)


@unit(P, "Binning.hdf", fuc=["yaw.binning:Binning.to_hdf", "yaw.binning:Binning.from_hdf", "yaw.utils.misc:write_version_tag"],
      cases=[dict(closed=c) for c in ("left", "right")])
def u_binning_hdf(ctx, closed):
    binning, nb = CC.make_binning(ctx, closed)
    g = H5Group()
    ctx.canary()
    expect_no_exception(ctx, call(type(binning).to_hdf, binning, g), "C11/Binning.to_hdf")
    back = expect_no_exception(ctx, call(type(binning).from_hdf.__func__, type(binning), g), "C11/Binning.from_hdf")
    ctx.check("C11/Binning.hdf/post:round_trip", same_binning(back, binning))
    ctx.check("C11/Binning.hdf/post:version_tag_written", "version" in g)


@unit(P, "PatchedSumWeights.hdf", fuc=["yaw.correlation.paircounts:PatchedSumWeights.to_hdf", "yaw.correlation.paircounts:PatchedSumWeights.from_hdf",
                                      "yaw.utils.misc:is_legacy_dataset"], cases=[dict(auto=a) for a in (False, True)])
def u_sw_hdf(ctx, auto):
    PC = mod("yaw.correlation.paircounts")
    binning, nb = CC.make_binning(ctx)
    N = ctx.fresh_int("num_patches", lo=1, size=True)
    sw = CC.make_sum_weights(ctx, binning, nb, N, auto)
    g = H5Group()
    ctx.canary()
    expect_no_exception(ctx, call(PC.PatchedSumWeights.to_hdf, sw, g), "C11/PatchedSumWeights.to_hdf")
    back = expect_no_exception(ctx, call(PC.PatchedSumWeights.from_hdf.__func__, PC.PatchedSumWeights, g), "C11/PatchedSumWeights.from_hdf")
    ctx.check("C11/PatchedSumWeights.hdf/post:round_trip", And(same_array(back.sum_weights1, sw.sum_weights1), same_array(back.sum_weights2, sw.sum_weights2),
                                                              same_binning(back.binning, binning), back.auto == auto),
              detail="sum_weights1/2 must come back under their own names")


@unit(P, "PatchedCounts.hdf", fuc=["yaw.correlation.paircounts:PatchedCounts.to_hdf", "yaw.correlation.paircounts:PatchedCounts.from_hdf",
                                  "yaw.correlation.paircounts:PatchedCounts.zeros", "yaw.correlation.paircounts:PatchedCounts.set_patch_pair",
                                  "yaw.correlation.paircounts:PatchedCounts.__init__"], cases=[dict(auto=a) for a in (False, True)],
      trusted=["np.nonzero", "np.any(axis=0)"])
def u_pc_hdf(ctx, auto):
    """sparse storage restores every cell: stored pairs carry their counts, all other cells are zero in every bin"""
    PC = mod("yaw.correlation.paircounts")
    binning, nb = CC.make_binning(ctx)
    N = ctx.fresh_int("num_patches", lo=1, size=True)
    ctx.inputs["num_patches"] = ("int", N)
    pc = CC.make_patched_counts(ctx, binning, nb, N, auto)
    g = H5Group()
    name = "C11/PatchedCounts.hdf"
    ctx.canary()
    expect_no_exception(ctx, call(PC.PatchedCounts.to_hdf, pc, g), "C11/PatchedCounts.to_hdf")
    pairs = g["patch_pairs"].data
    binned = g["binned_counts"].data
    m = pairs.shape[0]
    ctx.check(f"{name}/post:stored_shapes", And(pairs.ndim == 2, pairs.shape[1] == 2, binned.shape[0] == m, binned.shape[1] == nb))
    site = "yaw.correlation.paircounts:PatchedCounts.from_hdf#1"
    orig = pc.counts._elem

    def inv(L):
        b, i, j = bv("b"), bv("i"), bv("j")
        new = L.new.counts._elem
        rng = z3.And(b >= 0, b < nb.t, i >= 0, i < N.t, j >= 0, j < N.t)
        t = bv("t")
        # cells of the pairs already processed hold the stored counts; every other cell is still zero
        done = z3.Exists([t], z3.And(t >= 0, t < to_term(L.j), pairs._elem(t, z3.IntVal(0)) == i, pairs._elem(t, z3.IntVal(1)) == j))
        return SBool(z3.ForAll([b, i, j], z3.Implies(rng, new(b, i, j) == z3.If(done, orig(b, i, j), z3.RealVal(0)))))

    def fresh_new(L):
        o = PC.PatchedCounts.__new__(PC.PatchedCounts)
        o.binning, o.auto = L.new.binning, L.new.auto
        o.counts = SArr.fresh(L.ctx, "restored", tuple(L.new.counts.shape), "f")
        return o
    with use_loops({site: LoopSpec(inv=inv, fresh={"new": fresh_new})}):
        back = expect_no_exception(ctx, call(PC.PatchedCounts.from_hdf.__func__, PC.PatchedCounts, g), "C11/PatchedCounts.from_hdf")
    b, i, j = ctx.fresh_int("b", lo=0), ctx.fresh_int("i", lo=0), ctx.fresh_int("j", lo=0)
    ctx.assume(z3.And(b.t < nb.t, i.t < N.t, j.t < N.t), "post:arbitrary cell")
    ctx.inputs.update(b=("int", b), i=("int", i), j=("int", j))
    ctx.check(f"{name}/post:shape", And(back.counts.shape[0] == nb, back.counts.shape[1] == N, back.counts.shape[2] == N))
    ctx.check(f"{name}/post:every_cell_restored", back.counts.elem(b.t, i.t, j.t) == orig(b.t, i.t, j.t),
              detail="a cell that is non-zero in some bin must be stored; cells not stored must be zero in every bin")
    ctx.check(f"{name}/post:binning_and_flags", And(same_binning(back.binning, binning), back.auto == auto))


class CountsTok:
    """stands for NormalisedCounts: remembers the group it was written to / read from"""

    def __init__(self, tag):
        self.tag = tag

    def to_hdf(self, group):
        group.items["__payload__"] = self.tag

    def is_compatible(self, other, *, require=False):
        return True


@unit(P, "CorrFunc.hdf", fuc=["yaw.correlation.corrfunc:CorrFunc.to_hdf", "yaw.correlation.corrfunc:CorrFunc.from_hdf",
                             "yaw.utils.abc:Serialisable.from_dict", "yaw.correlation.corrfunc:CorrFunc.__init__"],
      cases=[dict(dr=a, rd=b, rr=c) for a, b, c in itertools.product((False, True), repeat=3)])
def u_cf_hdf(ctx, dr, rd, rr):
    """every present member comes back in its own slot, absent members stay absent - for all 8 combinations"""
    CF = mod("yaw.correlation.corrfunc")
    present = dict(dd=True, dr=dr, rd=rd, rr=rr)
    name = "C11/CorrFunc.hdf"
    with Patches() as pt:
        pt.set(CF.NormalisedCounts, "from_hdf", classmethod(lambda cls, group: CountsTok(group.items["__payload__"])))
        ctx.canary()
        cf = call(CF.CorrFunc, *(CountsTok(k) if present[k] else None for k in ("dd", "dr", "rd", "rr")))
        if not (dr or rd or rr):
            ctx.check(f"{name}/pre:at_least_one_random_term", isinstance(cf, Raised))
            return
        cf = expect_no_exception(ctx, cf, name)
        g = H5Group()
        expect_no_exception(ctx, call(CF.CorrFunc.to_hdf, cf, g), "C11/CorrFunc.to_hdf")
        back = expect_no_exception(ctx, call(CF.CorrFunc.from_hdf.__func__, CF.CorrFunc, g), "C11/CorrFunc.from_hdf")
    for k in ("dd", "dr", "rd", "rr"):
        v = getattr(back, k)
        ctx.check(f"{name}/post:member_{k}_round_trips_in_its_own_slot", (v is None) if not present[k] else (isinstance(v, CountsTok) and v.tag == k),
                  detail=f"present={[q for q in present if present[q]]}: slot {k} read back as {getattr(v, 'tag', None)}")
    groups = {"dd": "data_data", "dr": "data_random", "rd": "random_data", "rr": "random_random"}
    ctx.check(f"{name}/post:group_names", set(n for n in g.items if n != "version") == {groups[k] for k in present if present[k]})


@unit(P, "NormalisedCounts.hdf", fuc=["yaw.correlation.paircounts:NormalisedCounts.to_hdf", "yaw.correlation.paircounts:NormalisedCounts.from_hdf",
                                     "yaw.correlation.paircounts:NormalisedCounts.__init__"])
def u_nc_hdf(ctx):
    PC = mod("yaw.correlation.paircounts")

    class Part:
        num_patches, num_bins = 3, 2

        def __init__(self, tag):
            self.tag = tag

        def to_hdf(self, group):
            group.items["__payload__"] = self.tag
    nc = PC.NormalisedCounts(Part("counts"), Part("sum_weights"))
    g = H5Group()
    with Patches() as pt:
        pt.set(PC.PatchedCounts, "from_hdf", classmethod(lambda cls, group: Part(group.items["__payload__"])))
        pt.set(PC.PatchedSumWeights, "from_hdf", classmethod(lambda cls, group: Part(group.items["__payload__"])))
        ctx.canary()
        expect_no_exception(ctx, call(PC.NormalisedCounts.to_hdf, nc, g), "C11/NormalisedCounts.to_hdf")
        back = expect_no_exception(ctx, call(PC.NormalisedCounts.from_hdf.__func__, PC.NormalisedCounts, g), "C11/NormalisedCounts.from_hdf")
    ctx.check("C11/NormalisedCounts.hdf/post:counts_and_weights_in_their_own_slots", back.counts.tag == "counts" and back.sum_weights.tag == "sum_weights")


# ---------------------------------------------------------------------------------------------------------
# dictionaries (YAML level)
# ---------------------------------------------------------------------------------------------------------

def yaml_round_trip(d):
    """ASSUMED: YAML keeps native python data; lists of symbolic numbers stay the same sequence"""
    Ctx.cur.trust("PyYAML round trip of dict/list/str/int/float/None")
    return {k: v for k, v in d.items()}


@unit(P, "BinningConfig.dict", fuc=["yaw.config.binning:BinningConfig.to_dict", "yaw.config.binning:BinningConfig.from_dict"],
      cases=[dict(method=m, closed=c) for m in ("linear", "comoving", "logspace", "custom") for c in ("left", "right")])
def u_binning_dict(ctx, method, closed):
    """from_dict(to_dict(c)) == c with identical bin edges, for every method and closed side (given the same cosmology)"""
    BC = mod("yaw.config.binning")
    Cos = _C15.cosmo_class()
    default = Cos("default")
    name = "C11/BinningConfig.dict"
    with Patches() as pt:
        _C15.install_cosmology(ctx, pt, default)
        if method == "custom":
            m = ctx.fresh_int("num_edges", lo=2, size=True)
            e = SArr.fresh(ctx, "edges", (m,), "f", register=True)
            t = bv("t")
            ctx.assume(forall([t], z3.Implies(z3.And(t >= 0, t + 1 < m.t), e._elem(t) < e._elem(t + 1))), "pre:valid edges")
            orig = expect_no_exception(ctx, call(BC.BinningConfig.create, edges=e, closed=closed), name + "/setup")
        else:
            zmin, zmax, nb = _C15.sym_params(ctx)
            ctx.assume(z3.And(zmin.t >= 0, zmin.t < zmax.t), "pre:valid limits")
            orig = expect_no_exception(ctx, call(BC.BinningConfig.create, zmin=zmin, zmax=zmax, num_bins=nb, method=method, closed=closed), name + "/setup")
        ctx.canary()
        d = expect_no_exception(ctx, call(orig.to_dict), "C11/BinningConfig.to_dict")
        back = expect_no_exception(ctx, call(BC.BinningConfig.from_dict.__func__, BC.BinningConfig, yaml_round_trip(d)), "C11/BinningConfig.from_dict")
    ctx.check(f"{name}/post:same_method", str(back.method) == str(orig.method))
    ctx.check(f"{name}/post:identical_bin_edges_and_closed_side", same_binning(back.binning, orig.binning),
              detail=f"method={method}: the configuration restored from its own dictionary must have identical bin edges")
    eq = expect_no_exception(ctx, call(lambda: bool(back == orig)), "C11/BinningConfig.__eq__")
    ctx.check(f"{name}/post:compares_equal", eq is True)


@unit(P, "ScalesConfig.dict", fuc=["yaw.config.scales:ScalesConfig.to_dict", "yaw.config.base:BaseConfig.from_dict", "yaw.config.scales:ScalesConfig.rmin",
                                  "yaw.config.scales:ScalesConfig.rmax"],
      cases=[dict(scalar=s, unit_=u) for s in (False, True) for u in ("kpc", "Mpc", "rad", "deg", "arcmin", "arcsec", "kpc/h", "Mpc/h")])
def u_scales_dict(ctx, scalar, unit_):
    SC = mod("yaw.config.scales")
    name = "C11/ScalesConfig.dict"
    if scalar:
        rmin, rmax = ctx.fresh_real("rmin"), ctx.fresh_real("rmax")
        ctx.assume(rmin.t < rmax.t, "pre:valid scales")
    else:
        m = ctx.fresh_int("num_scales", lo=2, size=True)
        rmin, rmax = SArr.fresh(ctx, "rmin", (m,), "f"), SArr.fresh(ctx, "rmax", (m,), "f")
        t = bv("t")
        ctx.assume(forall([t], z3.Implies(z3.And(t >= 0, t < m.t), rmin._elem(t) < rmax._elem(t))), "pre:valid scales")
    rw, res = ctx.fresh_real("rweight"), ctx.fresh_int("resolution", lo=1)
    ctx.canary()
    orig = expect_no_exception(ctx, call(SC.ScalesConfig.create, rmin=rmin, rmax=rmax, unit=unit_, rweight=rw, resolution=res), name + "/setup")
    d = expect_no_exception(ctx, call(orig.to_dict), "C11/ScalesConfig.to_dict")
    ctx.check(f"{name}/post:keys", set(d) == {"rmin", "rmax", "unit", "rweight", "resolution"} and d["unit"] == unit_)
    back = expect_no_exception(ctx, call(SC.ScalesConfig.from_dict.__func__, SC.ScalesConfig, yaml_round_trip(d)), "C11/ScalesConfig.from_dict")
    ctx.check(f"{name}/post:same_scales", And(back.scales.num_scales == orig.scales.num_scales, str(back.scales.unit) == unit_, type(back.scales) is type(orig.scales),
                                              ForAll("t", lambda t: Implies(And(t >= 0, t < orig.scales.num_scales),
                                                                            And(back.scales.scale_min.at(t) == orig.scales.scale_min.at(t),
                                                                                back.scales.scale_max.at(t) == orig.scales.scale_max.at(t))))))
    ctx.check(f"{name}/post:same_weighting", And(back.rweight == rw, back.resolution == res))


@unit(P, "Configuration.dict", fuc=["yaw.config.combined:Configuration.to_dict", "yaw.config.combined:Configuration.from_dict",
                                   "yaw.config.combined:cosmology_to_yaml", "yaw.config.combined:yaml_to_cosmology"],
      cases=[dict(cosmo=c) for c in ("Planck15", "WMAP9")])
def u_config_dict(ctx, cosmo):
    """the sections are written and read under their own keys; a named cosmology comes back as the same object; the
    binning is regenerated with that cosmology; unknown keys and custom cosmologies are rejected"""
    COMB = mod("yaw.config.combined")
    BASE = mod("yaw.config.base")
    BC, SC = mod("yaw.config.binning"), mod("yaw.config.scales")
    import astropy.cosmology as ac
    log = {}

    class S(SC.ScalesConfig):
        def __init__(self, tag):
            object.__setattr__(self, "tag", tag)

        def to_dict(self):
            return {"section": "scales"}

        @classmethod
        def from_dict(cls, d):
            log["scales"] = d
            return S("restored")

    class Bn(BC.BinningConfig):
        def __init__(self, tag):
            object.__setattr__(self, "tag", tag)

        def to_dict(self):
            return {"section": "binning"}

        @classmethod
        def from_dict(cls, d, cosmology=None):
            log["binning"] = (d, cosmology)
            return Bn("restored")
    name = "C11/Configuration.dict"
    with Patches() as pt:
        pt.set(COMB, "ScalesConfig", S)
        pt.set(COMB, "BinningConfig", Bn)
        ctx.canary()
        mw = ctx.fresh_int("max_workers", lo=1)
        c = expect_no_exception(ctx, call(COMB.Configuration, S("s"), Bn("b"), cosmology=getattr(ac, cosmo), max_workers=mw), name + "/setup")
        d = expect_no_exception(ctx, call(c.to_dict), "C11/Configuration.to_dict")
        ctx.check(f"{name}/post:sections", set(d) == {"scales", "binning", "cosmology", "max_workers"} and d["cosmology"] == cosmo and d["max_workers"] is mw)
        back = expect_no_exception(ctx, call(COMB.Configuration.from_dict.__func__, COMB.Configuration, yaml_round_trip(d)), "C11/Configuration.from_dict")
        ctx.check(f"{name}/post:sections_restored_from_their_own_keys", log["scales"] == {"section": "scales"} and log["binning"][0] == {"section": "binning"})
        ctx.check(f"{name}/post:cosmology_round_trips_and_is_used_for_the_binning", back.cosmology is getattr(ac, cosmo) and log["binning"][1] is getattr(ac, cosmo))
        ctx.check(f"{name}/post:max_workers", back.max_workers == mw)
        bad = dict(d)
        bad["extra"] = 1
        r = call(COMB.Configuration.from_dict.__func__, COMB.Configuration, bad)
        ctx.check(f"{name}/post_exc:unknown_entry_rejected", isinstance(r, Raised) and isinstance(r.exc, BASE.ConfigError))
        Cos = _C15.cosmo_class()
        c2 = expect_no_exception(ctx, call(COMB.Configuration, S("s"), Bn("b"), cosmology=Cos("custom")), name + "/setup")
        r = call(c2.to_dict)
        ctx.check(f"{name}/post_exc:custom_cosmology_cannot_be_serialised", isinstance(r, Raised) and isinstance(r.exc, BASE.ConfigError))


@unit(P, "Metadata.dict", fuc=["yaw.catalog.patch:Metadata.to_dict", "yaw.catalog.patch:Metadata.from_dict", "yaw.catalog.patch:Metadata.__init__"])
def u_meta_dict(ctx):
    """patch metadata through its dictionary: exactly the same numbers"""
    PA = mod("yaw.catalog.patch")
    CO = mod("yaw.coordinates")
    m = PA.Metadata.__new__(PA.Metadata)
    m.num_records = ctx.fresh_int("num_records", lo=1)
    m.sum_weights = ctx.fresh_real("sum_weights")
    m.center = CO.AngularCoordinates.__new__(CO.AngularCoordinates)
    m.center.data = SArr.fresh(ctx, "center", (1, 2), "f")
    m.radius = CO.AngularDistances.__new__(CO.AngularDistances)
    m.radius.data = SArr.fresh(ctx, "radius", (1,), "f")
    ctx.canary()
    d = expect_no_exception(ctx, call(m.to_dict), "C11/Metadata.to_dict")
    ctx.check("C11/Metadata.dict/post:keys", set(d) == {"num_records", "sum_weights", "center", "radius"})
    back = expect_no_exception(ctx, call(PA.Metadata.from_dict.__func__, PA.Metadata, yaml_round_trip(d)), "C11/Metadata.from_dict")
    ctx.check("C11/Metadata.dict/post:round_trip", And(back.num_records == m.num_records, back.sum_weights == m.sum_weights,
                                                        back.center.data.at(0, 0) == m.center.data.at(0, 0), back.center.data.at(0, 1) == m.center.data.at(0, 1),
                                                        back.radius.data.at(0) == m.radius.data.at(0), vc_len(back.center) == 1, vc_len(back.radius) == 1))


# ---------------------------------------------------------------------------------------------------------
# text files: layout for 1..3 bins with symbolic values (bounded in the number of bins)
# ---------------------------------------------------------------------------------------------------------

class Lines:
    """a text file as list of lines; number cells are tokens that np.loadtxt turns back into the value"""

    def __init__(self):
        self.text = ""

    def write(self, s):
        self.text += s

    def __enter__(self):
        return self

    def __exit__(self, *a):
        return False

    def readline(self):
        line, _, rest = self.text.partition("\n")
        self.text = rest
        return line + "\n"


class TextFS:
    def __init__(self):
        self.files = {}

    def path(self, name):
        fs = self

        class Pth:
            def __init__(s, n):
                s.n = n

            def open(s, mode="r"):
                if "w" in mode:
                    fs.files[s.n] = Lines()
                    return fs.files[s.n]
                f = Lines()
                f.text = fs.files[s.n].text
                return f

            def with_suffix(s, sfx):
                return Pth(s.n.rsplit(".", 1)[0] + sfx)
        return Pth(name)


def loadtxt_contract(fs):
    def loadtxt(path, ndmin=0, **kw):
        """ASSUMED: comment lines skipped, whitespace separated cells, one row per line; ndmin=2 keeps two dimensions,
        ndmin=0 squeezes a single row to one dimension"""
        rows = []
        for line in fs.files[path.n].text.splitlines():
            if line.startswith("#") or not line.strip():
                continue
            cells = line.split()
            vals = []
            for c in cells:
                tok = core.parse_token(c)
                vals.append(tok if tok is not None else float(c))
            rows.append(vals)
        if len({len(r) for r in rows}) > 1:
            raise ValueError("Wrong number of columns")
        arr = SArr.from_list(rows) if rows else SArr((0, 0), lambda i, j: z3.RealVal(0), "f")
        if ndmin < 2 and len(rows) == 1:
            return arr[0]
        return arr
    return loadtxt


@unit(P, "corrdata.text_files", fuc=["yaw.correlation.corrdata:write_data", "yaw.correlation.corrdata:load_data", "yaw.correlation.corrdata:write_samples",
                                    "yaw.correlation.corrdata:load_samples", "yaw.correlation.corrdata:create_columns",
                                    "yaw.correlation.corrdata:write_header", "yaw.correlation.corrdata:load_header"],
      cases=[dict(nb=n, closed=c, nsamp=s) for n in (1, 2, 3) for c in ("left", "right") for s in (1, 3)], kind="bounded")
def u_text(ctx, nb, closed, nsamp):
    """BOUNDED in the number of bins (1..3) and samples (1, 3), symbolic values (number formatting abstracted: a cell reads
    back as the value written): edges, closed side, data and every sample row come back in the right place and shape"""
    CD = mod("yaw.correlation.corrdata")
    fs = TextFS()
    edges = [ctx.fresh_real(f"e{k}") for k in range(nb + 1)]
    data = [ctx.fresh_real(f"d{k}") for k in range(nb)]
    err = [ctx.fresh_real(f"err{k}") for k in range(nb)]
    samples = SArr.from_list([[ctx.fresh_real(f"s{r}_{k}") for k in range(nb)] for r in range(nsamp)])
    name = "C11/corrdata.text"
    with Patches() as pt:
        pt.set(CD, "format_float_fixed_width", lambda value, width: format(value, "d") if isinstance(value, SNum) else repr(value))
        pt.set(CD.np, "loadtxt", loadtxt_contract(fs)) if False else None
        shim = CD.np

        class NpStub:
            """the numpy shim of the module with loadtxt reading the text-file model; everything else is passed through"""
            loadtxt = staticmethod(loadtxt_contract(fs))

            def __getattr__(self, k):
                return getattr(shim, k)
        pt.set(CD, "np", NpStub())
        ctx.canary()
        pth = fs.path("res.dat")
        expect_no_exception(ctx, call(CD.write_data, pth, "description", zleft=edges[:-1], zright=edges[1:], data=data, error=err, closed=closed), "C11/write_data")
        expect_no_exception(ctx, call(CD.write_samples, fs.path("res.smp"), "description", zleft=edges[:-1], zright=edges[1:], samples=samples, closed=closed),
                            "C11/write_samples")
        got = expect_no_exception(ctx, call(CD.load_data, pth), "C11/load_data")
        smp = expect_no_exception(ctx, call(CD.load_samples, fs.path("res.smp")), "C11/load_samples")
    e2, closed2, d2 = got
    ctx.check(f"{name}/post:closed_side_through_the_header", closed2 == closed)
    ctx.check(f"{name}/post:edges", bool(vc_len(e2) == nb + 1) and all(bool(e2.at(k) == edges[k]) for k in range(nb + 1)))
    ctx.check(f"{name}/post:data", bool(vc_len(d2) == nb) and all(bool(d2.at(k) == data[k]) for k in range(nb)))
    ctx.check(f"{name}/post:samples_shape", smp.ndim == 2 and bool(And(smp.shape[0] == nsamp, smp.shape[1] == nb)),
              detail=f"{nb} bin(s), {nsamp} sample(s): samples must come back as (num_samples, num_bins)")
    if smp.ndim == 2:
        ctx.check(f"{name}/post:samples", all(bool(smp.at(r, k) == samples.at(r, k)) for r in range(nsamp) for k in range(nb)))


# ---------------------------------------------------------------------------------------------------------
# replay on the real library / bounded stand-in (real files)
# ---------------------------------------------------------------------------------------------------------

_BAT = {}


def _battery(quick):
    if quick not in _BAT:
        import warnings
        from bounded import c11_files
        with warnings.catch_warnings():
            warnings.simplefilter("ignore")
            _BAT[quick] = c11_files.battery(quick)
    return _BAT[quick]


def replay_witness(unit_name, case, ob):
    """the counter-model lives in the abstract store; replay = the real-file battery restricted to the medium of the unit"""
    medium = "hdf:" if (unit_name or "").split("[")[0].endswith(".hdf") else "yaml:" if ".dict" in (unit_name or "") else "text:" if "text" in (unit_name or "") else ""
    fails = [(n, d) for n, ok, d in _battery(False) if not ok and n.startswith(medium)]
    return {"reproduced": bool(fails), "failed_round_trips": [f"{n}: {d}" for n, d in fails][:8],
            "note": "round trips of the real library through real files (HDF5 / YAML / text / cache directory) in a scratch directory"}


def bounded(opts):
    import time
    t0 = time.time()
    quick = opts.get("tier", "quick") == "quick"
    res = _battery(quick)
    fails = [(n, d) for n, ok, d in res if not ok]
    return dict(kind="bounded", bound="real files: CorrFunc through HDF5 (all 7 member combinations; all-zero, dense signed, single cell, counts cancelling over the bins, "
                "NaN/inf; up to 3x4 quick / 5x7 thorough bins x patches), CorrData through the text files (1..7 bins, 1..5 samples, 22 magnitudes incl. NaN/inf, "
                "tolerance 10^-(8-#integer digits), at most 1), Configuration through YAML (4 methods x 2 closed x 8 units x scalar/list scales), "
                "catalogs + patch metadata through the cache directory (4 column sets)",
                evaluations=len(res), distinct_nontrivial=len(res), violations=[dict(id=f"bounded:{n}", detail=d) for n, d in fails][:12],
                samples=[n for n, _, _ in res[:3]], wall_s=round(time.time() - t0, 2), note="real library; labelled bounded, not counted as proved")
