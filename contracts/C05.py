"""C05 - results do not depend on worker count or completion order (multiprocessing).

The contract of parallel.iter_unordered (DESIGN §5.4): the yielded sequence has len(items) entries and there is a
bijection pi with out[t] == func(items[pi(t)], *func_args, **func_kwargs); nothing else is known about pi;
max_workers / num_processes do not occur in the postcondition.

  * _multiprocessing_iter_unordered is verified against this contract (sequential branch: pi = id; pool branch:
    the ASSUMED contract of multiprocessing.Pool.imap_unordered)
  * iter_unordered forwards func/items/args unchanged; max_workers flows only into num_processes
  * ParallelJob.__call__ binds the arguments as documented
  * every caller is verified against the *contract* (an arbitrary bijection) and its postcondition mentions neither pi
    nor max_workers:  load_patches (dict keyed by the id parsed from the path), Catalog.build_trees (one build per
    patch, every result consumed), HistData.from_catalog (rows indexed by patch; total = column sum in index order),
    PatchLinkage.count_pairs (every cell assigned from the task of its own patch pair; no cross-task arithmetic)
"""
from __future__ import annotations

import z3

from pyvc import core, shadow, sigma
from pyvc.core import SNum, SBool, Ctx, EndPath, to_term, tob
from pyvc.arrays import SArr, bv, forall, dim_term
from pyvc.builtins_shim import SymIterable, SSeq, SMapped, vc_len, item_of
from .common import And, Or, Implies, Not, ForAll, mod, unit, call, Raised, expect_no_exception, fail, use_loops, LoopSpec, Patches
from .C03 import Permuted, u_hist_from_catalog as _hist_unit
from . import containers_common as CC

P = "C05"
EXPLANATION = (
    "Deductive, relative to the permutation contract of the unordered parallel map: the multiprocessing implementation "
    "is verified against the contract, and each caller is verified against the contract with the arrival order an "
    "uninterpreted bijection, so the caller's result is proved to be the same for every completion order; the worker "
    "limit is shown to flow only into the pool size. 'Bit-identical' is proved as data-flow identity: every output "
    "cell is assigned from exactly one task result, totals are formed in index order from the per-patch table.")
TRUSTED = ["multiprocessing.Pool.imap_unordered yields f(x) for every item exactly once, in arbitrary order; pickling of "
           "arguments and results is the identity"]
NOT_DECIDED = ["real scheduling of worker processes (covered only through the contract)", "MPI variant (C06)"]
ASSUMPTIONS = []


@unit(P, "ParallelJob.__call__", fuc=["yaw.utils.parallel:ParallelJob.__call__", "yaw.utils.parallel:ParallelJob.__init__"],
      cases=[dict(unpack=False), dict(unpack=True)])
def u_job(ctx, unpack):
    PAR = mod("yaw.utils.parallel")
    seen = []

    def func(*a, **k):
        seen.append((a, k))
        return "R"
    a1, a2 = ctx.fresh_int("a1"), ctx.fresh_int("a2")
    job = PAR.ParallelJob(func, ("x", "y"), {"kw": 1}, unpack=unpack)
    ctx.canary()
    res = expect_no_exception(ctx, call(job, (a1, a2)), "C05/ParallelJob.__call__")
    ctx.check("C05/ParallelJob.__call__/post:one_call", len(seen) == 1 and res == "R")
    got = seen[0][0] if seen else ()
    if unpack:
        ok = len(got) == 4 and got[0] is a1 and got[1] is a2 and got[2:] == ("x", "y")
    else:
        ok = len(got) == 3 and isinstance(got[0], tuple) and got[0][0] is a1 and got[0][1] is a2 and got[1:] == ("x", "y")
    ctx.check("C05/ParallelJob.__call__/post:arguments_bound_as_documented", ok and seen[0][1] == {"kw": 1})


class MPContract:
    """ASSUMED contract of the multiprocessing primitives used by _multiprocessing_iter_unordered"""

    def __init__(self, ctx):
        self.ctx, self.pools, self.entered, self.exited = ctx, [], 0, 0
        self.imap_calls = []

    def Pool(self, n=None):
        outer = self
        outer.pools.append(n)

        class _Pool:
            def __enter__(self_):
                outer.entered += 1
                return self_

            def __exit__(self_, *a):
                outer.exited += 1
                return False

            def imap_unordered(self_, fn, it):
                outer.imap_calls.append((fn, it))
                return Permuted(outer.ctx, fn, it)
        return _Pool()


@unit(P, "_multiprocessing_iter_unordered", fuc=["yaw.utils.parallel:_multiprocessing_iter_unordered"],
      cases=[dict(seq=True, unpack=False), dict(seq=False, unpack=False), dict(seq=False, unpack=True)],
      trusted=["Pool.imap_unordered"])
def u_mp_iter(ctx, seq, unpack):
    """against the permutation contract: one ParallelJob over exactly the given items; sequential branch in order"""
    PAR = mod("yaw.utils.parallel")
    fn = shadow.reload_function("yaw.utils.parallel:_multiprocessing_iter_unordered", yield_to_emit=True)
    n = ctx.fresh_int("n", lo=0, size=True)
    items = SSeq(n, lambda t: ("ITEM", t))
    func = lambda *a, **k: ("RESULT", a, k)  # noqa: E731
    nproc = 1 if seq else ctx.fresh_int("num_processes", lo=2)
    mp = MPContract(ctx)
    ctx.ghost["mp"] = mp
    froms = []
    ctx.ghost["emit_from_hook"] = lambda it: froms.append(it)
    name = "C05/_multiprocessing_iter_unordered"
    ctx.canary()
    res = expect_no_exception(ctx, call(fn, func, items, func_args=("A",), func_kwargs={"k": 2}, unpack=unpack, num_processes=nproc), name)
    ctx.check(f"{name}/post:yields_from_exactly_one_source", len(froms) == 1 and not ctx.ghost.get("emitted"))
    if len(froms) != 1:
        return
    src = froms[0]
    # the yielded stream must be  job(items[idx(t)])  for t < len  with idx a bijection on [0, n)
    from pyvc.builtins_shim import is_symbolic_iterable, has_symbolic_len, item_of

    def same(a, b):
        if isinstance(a, (tuple, list)) and isinstance(b, (tuple, list)):
            return len(a) == len(b) and all(same(x, y) for x, y in zip(a, b))
        if isinstance(a, dict) and isinstance(b, dict):
            return set(a) == set(b) and all(same(a[k], b[k]) for k in a)
        if isinstance(a, (SNum, SBool)) or isinstance(b, (SNum, SBool)):
            return bool(ctx.probe(SBool(to_term(a) == to_term(b))))
        return a == b
    if isinstance(src, Permuted):
        ok = len(mp.imap_calls) == 1
        job, seq_, perm = (mp.imap_calls[0][0], mp.imap_calls[0][1], src) if ok else (None, None, src)
        ctx.check(f"{name}/post:pool_size_is_num_processes", len(mp.pools) == 1 and mp.pools[0] is nproc)
        ctx.check(f"{name}/post:pool_closed_after_use", mp.entered == 1 and mp.exited == 1)
    elif is_symbolic_iterable(src) and has_symbolic_len(src):
        # an in-process stream, however it is written (map, generator expression, relay loop): item t is the job applied to item t
        ctx.check(f"{name}/post:no_pool_when_mapping_in_process", len(mp.pools) == 0)
        ctx.check(f"{name}/post:sequential_when_one_process", bool(seq))
        m = vc_len(src)
        ctx.check(f"{name}/post:as_many_results_as_items", m == n)
        t = ctx.fresh_int("t", lo=0)
        ctx.assume(t.t < to_term(n), "post:arbitrary position")
        it = items.item(t)
        want = func(*it, "A", k=2) if unpack else func(it, "A", k=2)
        got = item_of(src, t)
        ctx.check(f"{name}/post:result_t_is_the_job_bound_to_the_arguments_applied_to_item_t", same(got, want),
                  detail=f"result {got!r} instead of {want!r}: in order, every item exactly once")
        return
    else:
        fail(ctx, f"{name}/post:stream_is_a_map_over_the_items", detail=f"unexpected stream {type(src).__name__}")
        return
    ctx.check(f"{name}/post:pool_only_with_more_than_one_process", not seq)
    ctx.check(f"{name}/post:job_binds_func_and_arguments",
              isinstance(job, PAR.ParallelJob) and job.func is func and job.func_args == ("A",) and job.func_kwargs == {"k": 2}
              and job.unpack == unpack)
    ctx.check(f"{name}/post:stream_is_over_the_given_items", isinstance(seq_, SSeq) and seq_.root is items)
    if not (isinstance(seq_, SSeq) and seq_.root is items):
        return
    m = vc_len(src)
    ctx.check(f"{name}/post:as_many_results_as_items", m == n)
    t, u = ctx.fresh_int("t", lo=0), ctx.fresh_int("u", lo=0)
    ctx.assume(z3.And(t.t < to_term(m), u.t < to_term(m), t.t != u.t), "post:two arbitrary distinct positions")

    def idx(v):
        inner = SNum(perm.pi(v.t)) if perm is not None else v
        if perm is not None:
            ctx.assume(z3.And(perm.pi(v.t) >= 0, perm.pi(v.t) < dim_term(perm.n), perm.pinv(perm.pi(v.t)) == v.t),
                       "contract:imap_unordered instance")
        return seq_.index_fn(inner)
    ctx.check(f"{name}/post:every_result_belongs_to_an_item", And(SNum(idx(t)) >= 0, SNum(idx(t)) < n))
    ctx.check(f"{name}/post:no_item_twice", SBool(idx(t) != idx(u)),
              detail="with as many results as items and no item twice, every item is processed exactly once")


@unit(P, "iter_unordered", fuc=["yaw.utils.parallel:iter_unordered", "yaw.utils.parallel:get_size"],
      cases=[dict(given=False), dict(given=True)])
def u_iter_unordered(ctx, given):
    """forwards func, items and bound arguments unchanged; the worker limit flows only into num_processes"""
    PAR = mod("yaw.utils.parallel")
    fn = shadow.reload_function("yaw.utils.parallel:iter_unordered", yield_to_emit=True)
    calls, froms = [], []
    ctx.ghost["emit_from_hook"] = lambda it: froms.append(it)
    size = ctx.fresh_int("system_size", lo=1)
    mw = ctx.fresh_int("max_workers", lo=1) if given else None

    def method(func, iterable, **kw):
        calls.append((func, iterable, kw))
        return "STREAM"
    items, func = object(), object()
    name = "C05/iter_unordered"
    with Patches() as pt:
        pt.set(PAR, "_multiprocessing_iter_unordered", method)
        pt.set(PAR, "_num_processes", lambda: size)
        ctx.canary()
        res = expect_no_exception(ctx, call(fn, func, items, func_args=("A",), func_kwargs=None, unpack=True, max_workers=mw), name)
    ctx.check(f"{name}/post:delegates_once", len(calls) == 1 and froms == ["STREAM"])
    if len(calls) != 1:
        return
    f, it, kw = calls[0]
    ctx.check(f"{name}/post:func_and_items_unchanged", f is func and it is items)
    ctx.check(f"{name}/post:bound_arguments_unchanged", kw.get("func_args") == ("A",) and kw.get("func_kwargs") == {} and kw.get("unpack") is True)
    want = size if not given else SNum(z3.If(mw.t <= size.t, mw.t, size.t))
    ctx.check(f"{name}/post:worker_limit_only_sets_pool_size", set(kw) == {"func_args", "func_kwargs", "unpack", "num_processes"} and
              bool(kw["num_processes"] == want))
    # get_size on its own
    g = expect_no_exception(ctx, call(PAR.get_size, mw), "C05/get_size")
    with Patches() as pt:
        pt.set(PAR, "_num_processes", lambda: size)
        g = expect_no_exception(ctx, call(PAR.get_size, mw), "C05/get_size")
    ctx.check("C05/get_size/post:min(max_workers,size)", g == want)


@unit(P, "load_patches", fuc=["yaw.catalog.catalog:load_patches", "yaw.catalog.catalog:get_id_from_patch_path",
                             "yaw.catalog.catalog:read_patch_ids"], cases=[dict(centers=False), dict(centers=True), dict(centers="catalog")],
      trusted=["iter_unordered contract"])
def u_load_patches(ctx, centers):
    """the result maps the id parsed from each path to the patch built from that path (and the centre paired with
    it by position), for every arrival order; one patch per stored id"""
    C = mod("yaw.catalog.catalog")
    n = ctx.fresh_int("num_patches", lo=0, size=True)
    ids = SArr.fresh(ctx, "patch_ids", (n,), "i", register=True)
    state = {}

    class PatchTok:
        def __init__(self, path, center=None):
            self.cache_path, self.center = path, center

    def iu_stub(func, iterable, *, func_args=None, func_kwargs=None, unpack=False, max_workers=None, **kw):
        state["perm"] = Permuted(ctx, func, iterable, func_args, func_kwargs, unpack)
        state["func"], state["unpack"], state["mw"] = func, unpack, max_workers
        return state["perm"]

    class Par:
        COMM = mod("yaw.utils.parallel").COMM
        on_root = staticmethod(lambda: True)
        on_worker = staticmethod(lambda: False)
        iter_unordered = staticmethod(iu_stub)
    cen = None
    if centers:
        AC = mod("yaw.coordinates").AngularCoordinates
        cen = AC.__new__(AC)
        cen.data = SArr.fresh(ctx, "centers", (n, 2), "f")
    given = cen
    if centers == "catalog":
        # centres taken from another catalog: the same pairing and the same guard must apply
        class CatTok(C.Catalog):
            def __init__(self):
                pass

            def get_centers(self):
                return cen
        given = CatTok()
    from pyvc.arrays import SList
    from pyvc.fsmodel_sym import SymFS
    fs = SymFS(ctx)
    ctx.ghost["fs"] = fs
    fs.put_file("/cache/patch_ids.bin", [("arr", ids)])
    name = "C05/load_patches"
    with Patches() as pt:
        pt.set(C, "parallel", Par)
        pt.set(C, "Patch", PatchTok)
        pt.set(C, "read_patch_ids", lambda d: SList(ids))
        ctx.canary()
        res = call(C.load_patches, C.Path("/cache"), patch_centers=given, progress=False, max_workers=ctx.fresh_int("max_workers", lo=1))
        if centers and isinstance(res, Raised) and isinstance(res.exc, ValueError):
            # a centre without objects (ids are not 0..n-1) is rejected: the positional pairing would be wrong (C09/C12)
            ctx.check(f"{name}/post_exc[ValueError]:only_if_ids_are_not_0..n-1",
                      Not(ForAll("t", lambda t: Implies(And(t >= 0, t < n), ids.at(t) == t))))
            ctx.check(f"{name}/post_exc:rejected_cache_is_invalidated", not fs.exists("/cache/patch_ids.bin"))
            return
        res = expect_no_exception(ctx, res, name)
    perm = state["perm"]
    ctx.check(f"{name}/post:one_task_per_stored_id", vc_len(perm) == n)
    ctx.check(f"{name}/post:patches_built_by_Patch_with_unpacked_arguments", state["func"] is PatchTok and state["unpack"] is True)
    from pyvc.symmap import SymMap
    ctx.check(f"{name}/post:result_is_a_dict_with_one_entry_per_result", isinstance(res, SymMap) and bool(vc_len(res) == n))
    # for an arbitrary stored position i: the entry for ids[i] exists (at arrival position pinv(i)) and holds the
    # patch built from path(ids[i]) and centre i - no pi in the statement
    i = ctx.fresh_int("i", lo=0)
    ctx.assume(i.t < n.t, "post:arbitrary stored position")
    t = SNum(perm.pinv(i.t))
    ctx.assume(z3.And(perm.pinv(i.t) >= 0, perm.pinv(i.t) < n.t, perm.pi(perm.pinv(i.t)) == i.t), "contract:iter_unordered instance")
    key, val = res.pair(t)
    ctx.check(f"{name}/post:key_is_the_id_parsed_from_the_path", key == ids.at(i))
    ctx.check(f"{name}/post:value_is_the_patch_of_that_path", isinstance(val, PatchTok) and
              str(val.cache_path).startswith("/cache/patch_") and bool(C.get_id_from_patch_path(val.cache_path) == ids.at(i)))
    if centers:
        ctx.check(f"{name}/post:centre_paired_by_position", val.center is not None and
                  bool(And(val.center.data.at(0, 0) == cen.data.at(i, 0), val.center.data.at(0, 1) == cen.data.at(i, 1))))
    else:
        ctx.check(f"{name}/post:no_centre_given", val.center is None)
    # and conversely every entry stems from a stored position
    t2 = ctx.fresh_int("t2", lo=0)
    ctx.assume(t2.t < n.t, "post:arbitrary result")
    k2, _ = res.pair(t2)
    ctx.check(f"{name}/post:every_entry_belongs_to_a_stored_id", k2 == ids.at(SNum(perm.pi(t2.t))))


@unit(P, "Catalog.build_trees", fuc=["yaw.catalog.catalog:Catalog.build_trees"],
      cases=[dict(binned=b, repeated=r) for b in (False, True) for r in (False, True)], trusted=["iter_unordered contract"])
def u_cat_build_trees(ctx, binned, repeated=False):
    """one BinnedTrees.build task per patch with the same (binning, leafsize, force); the iterator is consumed
    completely; the worker limit only reaches iter_unordered.  repeated: the same holds for a second call with equal arguments
    on the same object - the catalog object keeps no memory of what it built (the cache directory may have been rebuilt through
    another handle in between; whether a patch is up to date is decided per patch from its cache, C07)"""
    C = mod("yaw.catalog.catalog")
    T = mod("yaw.catalog.trees")
    n = ctx.fresh_int("num_patches", lo=0, size=True)
    state = {"consumed": 0}

    class Stream(SymIterable):
        def __init__(self, perm):
            self.perm = perm

        def vc_len(self):
            return self.perm.vc_len()

        def item(self, t):
            return self.perm.item(t)

        def consume_all(self):
            state["consumed"] += 1

    def iu_stub(func, iterable, *, func_args=None, func_kwargs=None, unpack=False, max_workers=None, **kw):
        state.update(func=func, items=iterable, func_args=func_args, func_kwargs=func_kwargs, unpack=unpack, mw=max_workers)
        return Stream(Permuted(ctx, lambda *a, **k: None, iterable, (), {}, False))

    class Par:
        COMM = mod("yaw.utils.parallel").COMM
        on_root = staticmethod(lambda: True)
        on_worker = staticmethod(lambda: False)
        iter_unordered = staticmethod(iu_stub)
    cat = C.Catalog.__new__(C.Catalog)
    cat.cache_directory = "/cache"
    class PatchTok:
        """stand-in for a patch (a fixture class: code that looks inside a patch needs a contract for what it reads there)"""

        def __init__(self, t):
            self.t = t
    patches = SSeq(n, lambda t: PatchTok(t))

    class Vals:
        pass
    cat._patches = None
    edges = SArr.fresh(ctx, "edges", (ctx.fresh_int("num_edges", lo=2),), "f") if binned else None
    leaf, force = ctx.fresh_int("leafsize", lo=1), ctx.fresh_bool("force")
    mw = ctx.fresh_int("max_workers", lo=1)
    made = []

    def BinningStub(e, closed="right"):
        made.append((e, closed))
        return ("BINNING", 1)           # equal arguments give equal binnings
    name = "C05/Catalog.build_trees"
    with Patches() as pt:
        pt.set(C, "parallel", Par)
        pt.set(C, "Binning", BinningStub)
        pt.set(C.Catalog, "values", lambda self: patches)
        pt.set(C.Catalog, "__len__", lambda self: n)
        ctx.canary()
        if repeated:
            expect_no_exception(ctx, call(C.Catalog.build_trees, cat, edges, closed="left", leafsize=leaf, force=ctx.fresh_bool("force_before"),
                                          max_workers=mw), name)
            state.clear()
            state["consumed"] = 0
            del made[:]
        res = expect_no_exception(ctx, call(C.Catalog.build_trees, cat, edges, closed="left", leafsize=leaf, force=force,
                                            max_workers=mw), name)
    ctx.check(f"{name}/post:task_is_BinnedTrees.build_over_all_patches", state.get("func") is not None and
              getattr(state["func"], "__func__", state["func"]) is T.BinnedTrees.build.__func__ and state["items"] is patches)
    ctx.check(f"{name}/post:same_binning_for_every_patch", state["func_args"] == ((("BINNING", 1),) if binned else (None,))
              and (made == [(edges, "left")] if binned else made == []))
    ctx.check(f"{name}/post:leafsize_and_force_passed", state["func_kwargs"]["leafsize"] is leaf and state["func_kwargs"]["force"] is force)
    ctx.check(f"{name}/post:every_result_consumed", state["consumed"] == 1)
    ctx.check(f"{name}/post:worker_limit_only_to_iter_unordered", state["mw"] is mw)


@unit(P, "HistData.from_catalog", fuc=["yaw.redshifts:HistData.from_catalog"], trusted=["iter_unordered contract"])
def u_hist(ctx):
    """rows of the per-patch table are indexed by patch for every arrival order and the total is the column sum of
    that table in index order (no accumulation in arrival order) - shared with C03"""
    _hist_unit(ctx)


# ---------------------------------------------------------------------------------------------------------
# bounded stand-in / replay vehicle: the real pipeline with real worker pools and forced arrival orders
# ---------------------------------------------------------------------------------------------------------

def _real_runs(worker_counts=(1, 2, 4), orders=("natural", "reversed", "rotated")):
    """returns list of (label, result dict) for the real library; the first entry is the sequential reference"""
    import multiprocessing.pool as mpp
    import os
    import shutil
    import tempfile
    import numpy as np
    import pandas as pd
    import yaw
    from yaw.redshifts import HistData
    tmp = tempfile.mkdtemp(prefix="c05bounded")
    old_env = os.environ.get("YAW_NUM_THREADS")
    orig_imap = mpp.Pool.imap_unordered
    out = []
    try:
        rng = np.random.default_rng(11)
        sizes = [260, 40, 40, 40, 40, 30, 30, 30]   # one big patch: finishes last under natural scheduling
        pid = np.concatenate([np.full(s, k) for k, s in enumerate(sizes)])
        n = len(pid)
        zz = rng.uniform(0.1, 1.0, n)
        zz[::7] = rng.choice(np.linspace(0.1, 1.0, 4), size=len(zz[::7]))     # the edges Configuration.create(..., num_bins=3) generates
        # the small patches at the end have no objects in the last bin: tasks that pair them with a populated patch must still
        # report the populated patch's sum of weights (count_pairs keeps the value of the task that arrives last)
        zz[(pid >= 5) & (zz >= 0.7)] = rng.uniform(0.1, 0.69, int(np.sum((pid >= 5) & (zz >= 0.7))))
        df = pd.DataFrame(dict(ra=rng.uniform(0, 6, n) + 8 * pid, dec=rng.uniform(-3, 3, n), z=zz,
                               w=10.0 ** rng.uniform(-3, 3, n), pid=pid))   # weights over 6 decades: sums are sensitive to their order
        os.environ["YAW_NUM_THREADS"] = "1"
        ref = yaw.Catalog.from_dataframe(tmp + "/ref", df, ra_name="ra", dec_name="dec", redshift_name="z", weight_name="w", patch_name="pid")
        unk = yaw.Catalog.from_dataframe(tmp + "/unk", df.sample(frac=1.0, random_state=3), ra_name="ra", dec_name="dec",
                                         weight_name="w", patch_centers=ref)
        rand = yaw.Catalog.from_dataframe(tmp + "/rnd", df.assign(ra=df.ra + 0.1), ra_name="ra", dec_name="dec", redshift_name="z",
                                          patch_centers=ref)
        # not the default closed side, and redshifts exactly on the bin edges: a binning that loses its closed side on the
        # way to a worker process gives different trees / histograms than the sequential run
        cfg = yaw.Configuration.create(rmin=500, rmax=5000, zmin=0.1, zmax=1.0, num_bins=3, closed="left")
        # two configurations that differ only in the separation-weighting exponent (same angular bins): nothing that one measurement
        # leaves behind in the process may change what the next one computes, whether its tasks run here or in worker processes
        cfg_w = yaw.Configuration.create(rmin=500, rmax=5000, zmin=0.1, zmax=1.0, num_bins=3, closed="left", rweight=-1.0, resolution=8)
        cfg_w_other = yaw.Configuration.create(rmin=500, rmax=5000, zmin=0.1, zmax=1.0, num_bins=3, closed="left", rweight=0.5, resolution=8)
        for nw in worker_counts:
            for order in orders if nw > 1 else ("natural",):
                os.environ["YAW_NUM_THREADS"] = str(nw)

                def forced(self, func, iterable, chunksize=1, _order=order):
                    res = list(orig_imap(self, func, iterable, chunksize))
                    if _order == "reversed":
                        res = res[::-1]
                    elif _order == "rotated":
                        res = res[1:] + res[:1]
                    return iter(res)
                if order != "natural":
                    mpp.Pool.imap_unordered = forced
                try:
                    if nw > 1:
                        # what this process did sequentially before (another binning on the same caches) must not leak into what
                        # the worker processes see: nothing that is cached in memory may stand in for the files the workers rewrite
                        os.environ["YAW_NUM_THREADS"] = "1"
                        other = yaw.Configuration.create(rmin=500, rmax=5000, zmin=0.1, zmax=1.0, num_bins=2, closed="right")
                        yaw.crosscorrelate(cfg_w_other, yaw.Catalog(tmp + "/ref", max_workers=1), unk, max_workers=1, ref_rand=rand)
                        # last: the measurement that leaves trees of *another* binning in the caches and in this process
                        yaw.crosscorrelate(other, yaw.Catalog(tmp + "/ref", max_workers=1), unk, ref_rand=rand, max_workers=1)
                        os.environ["YAW_NUM_THREADS"] = str(nw)
                    try:
                        cat = yaw.Catalog(tmp + "/ref", max_workers=nw)
                        hist = HistData.from_catalog(cat, cfg, max_workers=nw)
                        cf = yaw.crosscorrelate(cfg, cat, unk, ref_rand=rand, max_workers=nw)[0]
                        cfw = yaw.crosscorrelate(cfg_w, cat, unk, ref_rand=rand, max_workers=nw)[0]
                    except Exception as ex:  # noqa: BLE001 - a run that fails only for some worker count / order is a difference
                        out.append((f"workers={nw},order={order}", dict(failed=f"{type(ex).__name__}: {ex}")))
                        continue
                    r = dict(ids=list(cat.keys()), nrec=list(cat.get_num_records()), sumw=list(cat.get_sum_weights()),
                             centers=cat.get_centers().data.tobytes(), hist=hist.data.tobytes(), hist_samples=hist.samples.tobytes(),
                             dd=cf.dd.counts.counts.tobytes(), rd=cf.rd.counts.counts.tobytes(), dd_weighted=cfw.dd.counts.counts.tobytes(),
                             sw1=cf.dd.sum_weights.sum_weights1.tobytes(), sw2=cf.dd.sum_weights.sum_weights2.tobytes())
                    out.append((f"workers={nw},order={order}", r))
                finally:
                    mpp.Pool.imap_unordered = orig_imap
        # the other direction: a parallel measurement first (its tasks run in fresh worker processes), then sequential measurements in
        # this process - with another weighting exponent in between - must give the same numbers as the parallel one
        try:
            cfg_v = yaw.Configuration.create(rmin=400, rmax=4000, zmin=0.1, zmax=1.0, num_bins=3, closed="left", rweight=-1.0, resolution=6)
            cfg_v_other = yaw.Configuration.create(rmin=400, rmax=4000, zmin=0.1, zmax=1.0, num_bins=3, closed="left", rweight=0.5, resolution=6)
            nw = max(worker_counts)
            os.environ["YAW_NUM_THREADS"] = str(nw)
            a = yaw.crosscorrelate(cfg_v, yaw.Catalog(tmp + "/ref", max_workers=nw), unk, ref_rand=rand, max_workers=nw)[0]
            os.environ["YAW_NUM_THREADS"] = "1"
            yaw.crosscorrelate(cfg_v_other, yaw.Catalog(tmp + "/ref", max_workers=1), unk, ref_rand=rand, max_workers=1)
            b = yaw.crosscorrelate(cfg_v, yaw.Catalog(tmp + "/ref", max_workers=1), unk, ref_rand=rand, max_workers=1)[0]
            ref_label, ref_r = out[0]
            late = dict(ref_r)
            if a.dd.counts.counts.tobytes() != b.dd.counts.counts.tobytes() or a.rd.counts.counts.tobytes() != b.rd.counts.counts.tobytes():
                late["dd_weighted"] = b"sequential counts after a measurement with another exponent differ from the parallel counts"
            out.append((f"weighted counts: {nw} workers first, then sequential after another exponent", late))
        except Exception as ex:  # noqa: BLE001
            out.append(("weighted counts: parallel first, then sequential", dict(failed=f"{type(ex).__name__}: {ex}")))
    finally:
        mpp.Pool.imap_unordered = orig_imap
        if old_env is None:
            os.environ.pop("YAW_NUM_THREADS", None)
        else:
            os.environ["YAW_NUM_THREADS"] = old_env
        shutil.rmtree(tmp, ignore_errors=True)
    return out


def bounded(opts):
    import time
    t0 = time.time()
    runs = _real_runs() if opts.get("tier") == "thorough" else _real_runs(worker_counts=(1, 4), orders=("natural", "reversed"))
    ref_label, ref = runs[0]
    viol = []
    for label, r in runs[1:]:
        diff = [k for k in ref if r.get(k) != ref[k]] + ([f"run failed: {r['failed']}"] if "failed" in r else [])
        if diff and len(viol) < 5:
            viol.append(dict(id="bounded:worker_count_and_arrival_order", case=label, differs_in=diff, reference=ref_label))
    return dict(kind="bounded", bound="one catalog triple (8 patches, 510 objects with weights over 6 decades, one patch 6x larger, three patches empty in the last bin), 3 redshift bins; "
                "before every parallel run a sequential measurement with another binning in the same process; worker counts and forced arrival orders: " + ", ".join(lab for lab, _ in runs),
                evaluations=len(runs) * len(ref), distinct_nontrivial=max(len(runs) - 1, 0), violations=viol,
                samples=[dict(run=lab, ids=r.get("ids"), nrec=r.get("nrec")) for lab, r in runs[:2]], wall_s=round(time.time() - t0, 2),
                note="bit-wise comparison of loaded metadata, histogram (+samples), DD/RD counts and weight sums against the "
                     "sequential run; labelled bounded, not counted as proved")


def replay_witness(unit_name, case, ob):
    runs = _real_runs()
    ref_label, ref = runs[0]
    bad = [(label, [k for k in ref if r.get(k) != ref[k]] + ([r["failed"]] if "failed" in r else [])) for label, r in runs[1:]]
    bad = [b for b in bad if b[1]]
    return {"reproduced": bool(bad), "differences": bad[:6], "reference": ref_label,
            "note": "real pipeline with real worker pools; arrival orders forced by re-ordering Pool.imap_unordered results"}



# the accessors of a loaded catalog report patch i at position i whatever the order in which the patches arrived (C12 unit on the
# same functions): together with load_patches above, iteration order does not depend on the completion order
def _register_shared():
    from . import C12 as _C12
    from . import C01 as _C01
    # count_pairs keeps the sums of weights of a patch from whichever task of that patch arrives last: that is independent of the
    # arrival order only because every task reports the same values for the same patch - the contract of process_patch_pair
    unit(P, "process_patch_pair", fuc=["yaw.correlation.measurements:process_patch_pair", "yaw.binning:Binning.mids"],
         cases=[dict(second=s, weighted=w) for s in ("binned", "unbinned") for w in (False, True)], trusted=["BinnedTrees.__iter__ (C07)"])(_C01.u_ppp)
    unit(P, "Catalog.accessors", fuc=["yaw.catalog.catalog:Catalog.__iter__", "yaw.catalog.catalog:Catalog.get_centers", "yaw.catalog.catalog:Catalog.get_radii",
                                     "yaw.catalog.catalog:Catalog.get_num_records", "yaw.catalog.catalog:Catalog.get_sum_weights"], kind="bounded")(_C12.u_accessors)


# _register_shared() is called by the driver after this module is fully imported (no import cycles)


# ---------------------------------------------------------------------------------------------------------
# what travels to worker processes: the pickled state is the whole state
# ---------------------------------------------------------------------------------------------------------

@unit(P, "pickle_state", fuc=["yaw.binning:Binning.__getstate__", "yaw.binning:Binning.__setstate__", "yaw.catalog.patch:Patch.__getstate__",
                             "yaw.catalog.patch:Patch.__setstate__", "yaw.correlation.corrdata:SampledData.__getstate__", "yaw.correlation.corrdata:SampledData.__setstate__"])
def u_pickle_state(ctx):
    """objects handed to worker processes (binning, patches, sampled data) are rebuilt from __getstate__ with every attribute
    they carry - nothing falls back to a constructor default on the other side of the process boundary (ASSUMED: pickle applies
    __setstate__ to the result of __getstate__ on a fresh instance)"""
    B, PA, CD = mod("yaw.binning"), mod("yaw.catalog.patch"), mod("yaw.correlation.corrdata")
    ctx.canary()
    for cls, attrs in ((B.Binning, ("edges", "closed")), (PA.Patch, ("meta", "cache_path", "_chunk_info")), (CD.SampledData, ("binning", "data", "samples"))):
        declared = tuple(getattr(cls, "__slots__", ())) or attrs
        ctx.check(f"C05/pickle_state/{cls.__name__}/fixture_covers_all_declared_attributes", set(attrs) >= set(a for a in declared if not a.startswith("__")),
                  detail=f"declared {declared}")
        import numpy as _np
        O = mod("yaw.options")
        # opaque tokens first (they show every attribute that is dropped or replaced, whatever its type); if the class rebuilds itself
        # through code that looks into the values (e.g. its constructor), values of the real types with non-default content are used
        realistic = {B.Binning: dict(edges=_np.array([0.1, 0.4, 1.0]), closed=O.Closed("left"))}
        attempts = [{a: ("VALUE", cls.__name__, a) for a in attrs}] + ([realistic[cls]] if cls in realistic else [])
        for k, vals in enumerate(attempts):
            src = cls.__new__(cls)
            for a, v in vals.items():
                setattr(src, a, v)
            state = call(src.__getstate__)
            dst = cls.__new__(cls)
            r = state if isinstance(state, Raised) else call(dst.__setstate__, state)
            if isinstance(r, Raised):
                if k + 1 < len(attempts):
                    continue            # the code inspects the values: try again with values of the real types
                if len(attempts) == 1:
                    from pyvc.core import Unsupported
                    raise Unsupported(f"{cls.__name__}.__getstate__/__setstate__ inspect the attribute values; the fixture has no values of the real types for this class")
                fail(ctx, f"C05/{cls.__name__}.__setstate__/no_unexpected_exception", detail=f"{type(r.exc).__name__}: {r.exc}")
                break

            def same(x, y):
                if x is y:
                    return True
                if isinstance(x, _np.ndarray) or isinstance(y, _np.ndarray):
                    return isinstance(x, _np.ndarray) and isinstance(y, _np.ndarray) and _np.array_equal(x, y)
                return k > 0 and type(x) is type(y) and x == y
            for a, v in vals.items():
                ctx.check(f"C05/pickle_state/{cls.__name__}/attribute_{a}_survives", same(getattr(dst, a, None), v),
                          detail="an attribute that is not in the pickled state comes back as a default in the worker process")
            break
