"""C08 - a crash never leaves a cache that is silently wrong.

Crash model (DESIGN §5.5): the process may die after any effect on the symbolic file system (create/truncate, a write
that reaches the OS, mkdir, unlink, rmdir, rename); python-level buffers are lost.  After every effect of every writer the
OS-visible state must satisfy the *recovery contract*: the readers either raise, or behave as before the writer
started, or as after it completed.
  * BinnedTrees.build   - from every prior cache state x request x force: Inv_trees (marker => complete, matching trees)
                          holds after every effect; together with the reader contracts of C07 a survivor is either
                          rebuilt (no marker) or correct
  * Patch.__init__      - meta.yml: after every effect the real reader run on the survivor raises or yields the same metadata
  * CatalogWriter       - patch_ids.bin is created only by finalize(), after every patch file has been closed, and only
                          when no patch is empty; nothing else touches it; read_patch_ids rejects a missing or empty list;
                          overwrite invalidates the old catalog (removes the list) before anything else is removed;
                          __exit__ finalises only without exception
  * CorrData.to_files   - files of an earlier result are removed before the first new file is written; the reader run on
                          every survivor raises or returns the complete new result
"""
from __future__ import annotations

import z3

from pyvc import core, shadow
from pyvc.core import SNum, SBool, Ctx, EndPath, to_term, tob
from pyvc.arrays import SArr, SRec, bv, forall, dim_term
from pyvc.fsmodel_sym import SymFS, SymPath, File, DIR
from .common import And, Or, Implies, Not, ForAll, mod, unit, call, Raised, expect_no_exception, fail, Patches
from . import trees_cache as TC
from .C07 import run_build

P = "C08"
EXPLANATION = (
    "Deductive over a symbolic file system with an effect log: the real writers (BinnedTrees.build, Patch.__init__, "
    "CatalogWriter.__init__/get_writer/process_patches/finalize/__exit__, CorrData.to_files) are executed with a hook "
    "that, after every single effect, takes the OS-visible state (python buffers dropped) and checks the recovery "
    "contract on it - for the tree cache an invariant, for the other writers by running the real reader on the survivor.")
TRUSTED = ["a strict prefix of a pickle fails to load", "os.replace is atomic", "h5py.File(mode='w') crash states are unreadable or complete (HDF5 internals out of reach)",
           "python buffered writers reach the OS at flush/close; ndarray.tofile flushes first"]
NOT_DECIDED = ["torn writes inside one write(2), fsync and reordering by the OS (the property's granularity is between two file-system operations)",
               "HDF5 result files (trusted)"]
ASSUMPTIONS = []


@unit(P, "BinnedTrees.build.crash", fuc=["yaw.catalog.trees:BinnedTrees.build"],
      cases=[dict(prior=p, request=r) for p in TC.PRIORS for r in TC.REQUESTS])
def u_build_crash(ctx, prior, request):
    """Inv_trees after every effect of build, from every prior state"""
    name = "C08/BinnedTrees.build"
    seen = []

    def hook(fs, k, eff):
        seen.append(eff)
        TC.inv_trees(fs.snapshot(), name, ctx, f"crash#{k}[{eff[0]}:{eff[1].rsplit('/', 1)[-1]}]")
    fs, patch, old, req, force, calls, before, res = run_build(ctx, prior, request, crash_hook=hook, name=name)
    expect_no_exception(ctx, res, name)
    if calls:
        ctx.check(f"{name}/post:effects_observed", len(seen) >= 4, detail=str(seen))
        first_trees = min(k for k, e in enumerate(seen) if e[1].endswith("trees.pkl"))
        markers_before = [e for e in seen[:first_trees] if e[1].endswith("/binning")]
        if prior in ("unbinned", "left", "right"):
            ctx.check(f"{name}/post:old_marker_invalidated_before_the_trees_are_touched",
                      any(e[0] == "unlink" for e in markers_before), detail=str(seen))
        last = seen[-1]
        ctx.check(f"{name}/post:marker_appears_atomically_as_the_last_effect", last[0] == "rename" and last[1].endswith("/binning"), detail=str(seen))
    ctx.cover("done")


class MetaTok:
    def __init__(self, tag):
        self.tag = tag

    def to_dict(self):
        return dict(num_records=3, sum_weights=3.0, center=[0.1, 0.2], radius=0.3, tag=self.tag)


@unit(P, "Patch.__init__.crash", fuc=["yaw.catalog.patch:Patch.__init__", "yaw.utils.abc:YamlSerialisable.to_file",
                                     "yaw.utils.abc:YamlSerialisable.from_file", "yaw.utils.misc:write_yaml"],
      cases=[dict(prior="none"), dict(prior="complete"), dict(prior="empty")])
def u_patch_crash(ctx, prior):
    """meta.yml: every survivor either makes the next Patch(...) raise or yields the metadata of the data on disk"""
    PA = mod("yaw.catalog.patch")
    D = mod("yaw.datachunk")
    name = "C08/Patch.__init__"
    computed = []

    def read_patch_data(path):
        fs = ctx.ghost["fs"]
        if not fs.exists(str(path)):
            raise FileNotFoundError(str(path))
        return D.DataChunkInfo(), "CHUNK"

    class Meta(PA.Metadata):
        @classmethod
        def compute(cls, coords, *, weights=None, center=None):
            computed.append(1)
            m = PA.Metadata.__new__(Meta)
            m.num_records, m.sum_weights, m.center, m.radius = 3, 3.0, _Lst([[0.1, 0.2]]), _Lst([0.3])
            return m

        @classmethod
        def from_dict(cls, d):
            m = PA.Metadata.__new__(Meta)
            m.num_records, m.sum_weights = d.pop("num_records"), d.pop("sum_weights")
            m.center, m.radius = _Lst([d.pop("center")]), _Lst([d.pop("radius")])
            return m

    class _Lst:
        def __init__(self, v):
            self.v = v

        def tolist(self):
            return self.v

        def __eq__(self, o):
            return isinstance(o, _Lst) and o.v == self.v

    def same_meta(m):
        return isinstance(m, PA.Metadata) and m.num_records == 3 and m.sum_weights == 3.0 and m.center == _Lst([[0.1, 0.2]]) and m.radius == _Lst([0.3])
    base = "/cat/patch_0"

    def new_fs():
        fs = SymFS(ctx)
        fs.put_dir(base)
        fs.put_file(base + "/data.bin", [("byte", 3)])
        return fs
    fs = new_fs()
    if prior == "complete":
        import yaml
        fs.put_file(base + "/meta.yml", [("text", yaml.safe_dump(dict(num_records=3, sum_weights=3.0, center=[0.1, 0.2], radius=0.3)))])
    elif prior == "empty":
        fs.put_file(base + "/meta.yml", [])
    ctx.ghost["fs"] = fs

    def reader_on(state, where):
        """run the real Patch.__init__ on a survivor"""
        sub = SymFS(ctx)
        sub.nodes = {p: (n if n is DIR else n.copy()) for p, n in state.items()}
        ctx.ghost["fs"] = sub
        try:
            r = call(PA.Patch, SymPath(base))
        finally:
            ctx.ghost["fs"] = fs
        if isinstance(r, Raised):
            return
        ctx.check(f"{name}/{where}:survivor_yields_the_metadata_of_the_data", same_meta(r.meta), detail=f"meta={getattr(r.meta, '__dict__', r.meta)}")

    def hook(fs_, k, eff):
        reader_on(fs_.snapshot(), f"crash#{k}[{eff[0]}:{eff[1].rsplit('/', 1)[-1]}]")
    with Patches() as pt:
        pt.set(PA, "read_patch_data", read_patch_data)
        pt.set(PA, "Metadata", Meta)
        pt.set(D.DataChunk, "get_coords", staticmethod(lambda chunk: "COORDS"))
        pt.set(D.DataChunk, "getattr", staticmethod(lambda chunk, attr, default=None: default))
        ctx.canary()
        fs.crash_hook = hook
        res = call(PA.Patch, SymPath(base))
        fs.crash_hook = None
        if prior == "empty":
            ctx.check(f"{name}/post:empty_metadata_file_is_an_error_not_silently_used", isinstance(res, Raised) or same_meta(res.meta))
        else:
            res = expect_no_exception(ctx, res, name)
            ctx.check(f"{name}/post:metadata", same_meta(res.meta))
            ctx.check(f"{name}/post:recomputed_only_without_file", len(computed) == (0 if prior == "complete" else 1))
            reader_on(fs.snapshot(), "post")
    ctx.check(f"{name}/frame:data_untouched", fs.nodes[base + "/data.bin"].parts == [("byte", 3)])


# ---------------------------------------------------------------------------------------------------------
# catalog creation
# ---------------------------------------------------------------------------------------------------------

def cat_fs(ctx, prior):
    fs = SymFS(ctx)
    ctx.ghost["fs"] = fs
    fs.put_dir("/work")
    if prior in ("catalog", "catalog_with_trees"):
        fs.put_dir("/work/cat")
        for k in (0, 1):
            fs.put_file(f"/work/cat/patch_{k}/data.bin", [("byte", 3), ("arr", "OLD")])
            fs.put_file(f"/work/cat/patch_{k}/meta.yml", [("text", "OLDMETA")])
            if prior == "catalog_with_trees":
                fs.put_file(f"/work/cat/patch_{k}/binning", [("byte", 1)])
                fs.put_file(f"/work/cat/patch_{k}/trees.pkl", [("pickle", "OLDTREES")])
        fs.put_file("/work/cat/patch_ids.bin", [("arr", "OLDIDS")])
    elif prior == "not_a_catalog":
        fs.put_file("/work/cat/thesis.tex", [("text", "precious")])
    elif prior == "interrupted":
        fs.put_file("/work/cat/patch_0/data.bin", [("byte", 3)])
    elif prior == "file":
        fs.put_file("/work/cat", [("text", "a file")])
    return fs


def catalog_opens(state):
    """recovery contract of Catalog.__init__/read_patch_ids on a survivor: it can only open if the list exists and is non-empty"""
    n = state.get("/work/cat/patch_ids.bin")
    return n is not None and n is not DIR and len(n.parts) > 0


@unit(P, "CatalogWriter.__init__.crash", fuc=["yaw.catalog.catalog:CatalogWriter.__init__"],
      cases=[dict(prior=p, overwrite=o) for p in ("none", "catalog", "catalog_with_trees", "not_a_catalog", "interrupted", "file") for o in (False, True)])
def u_writer_init(ctx, prior, overwrite):
    """overwriting first invalidates the old catalog (removes the patch list), only then removes the rest; anything that
    is not a catalog cache is left untouched and rejected; without overwrite nothing is touched"""
    C = mod("yaw.catalog.catalog")
    D = mod("yaw.datachunk")
    fs = cat_fs(ctx, prior)
    before = fs.snapshot()
    name = "C08/CatalogWriter.__init__"
    states = []
    fs.crash_hook = lambda fs_, k, eff: states.append((k, eff, fs_.snapshot()))
    ctx.canary()
    w = C.CatalogWriter.__new__(C.CatalogWriter)
    res = call(C.CatalogWriter.__init__, w, SymPath("/work/cat"), chunk_info=D.DataChunkInfo(), overwrite=overwrite)
    fs.crash_hook = None
    is_catalog = prior in ("catalog", "catalog_with_trees")
    if prior == "none":
        expect_no_exception(ctx, res, name)
    elif is_catalog and overwrite:
        expect_no_exception(ctx, res, name)
        ctx.check(f"{name}/post:first_effect_invalidates_the_old_catalog", len(states) > 0 and states[0][1][:2] == ("unlink", "/work/cat/patch_ids.bin"),
                  detail=str([s[1] for s in states[:3]]))
        for k, eff, st in states:
            ctx.check(f"{name}/crash#{k}[{eff[0]}]:old_catalog_never_opens_partially_removed", not catalog_opens(st))
    else:
        ctx.check(f"{name}/post_exc[FileExistsError]", isinstance(res, Raised) and isinstance(res.exc, FileExistsError),
                  detail=f"prior={prior} overwrite={overwrite}: {res!r}")
        ctx.check(f"{name}/frame:existing_path_untouched", len(fs.effects) == 0 and fs.snapshot().keys() == before.keys(),
                  detail="a pre-existing cache (or any other path) must be left untouched")
        return
    after = fs.snapshot()
    ctx.check(f"{name}/post:fresh_empty_directory", after.get("/work/cat") is DIR and not [p for p in after if p.startswith("/work/cat/")])
    ctx.check(f"{name}/frame:nothing_outside_the_cache_directory", all(e[1].startswith("/work/cat") for e in fs.effects))


class WriterStub:
    """PatchWriter contract: effects only inside its own patch directory; close() flushes everything"""
    log = None

    def __init__(self, cache_path, *, chunk_info, buffersize=-1):
        self.cache_path = cache_path
        self.num_processed = 0
        fs = Ctx.cur.ghost["fs"]
        fs.mkdir(str(cache_path), parents=True)
        self.f = fs.open(str(cache_path) + "/data.bin", "ab")
        self.f.write(b"\x03")
        self.closed = False

    def process_chunk(self, data):
        self.f.write_part(("arr", data))
        self.num_processed = self.num_processed + data.n

    def close(self):
        self.f.close()
        self.closed = True


class Rows:
    def __init__(self, n):
        self.n = n


@unit(P, "CatalogWriter.finalize.crash", fuc=["yaw.catalog.catalog:CatalogWriter.finalize", "yaw.catalog.catalog:CatalogWriter.get_writer",
                                             "yaw.catalog.catalog:CatalogWriter.process_patches", "yaw.catalog.catalog:CatalogWriter.__exit__",
                                             "yaw.catalog.catalog:read_patch_ids", "yaw.catalog.catalog:get_patch_path_from_id"],
      cases=[dict(K=k, empty=e, fail=f) for k in (1, 2, 3) for e in (False, True) for f in (False, True)], kind="bounded")
def u_finalize(ctx, K, empty, fail):
    """BOUNDED in the number of patch writers (K <= 3), symbolic patch ids and chunk sizes: the patch list is created by
    finalize only, after every patch file is closed, never if a patch is empty or the block failed; until it is written
    completely the directory does not open as a catalog"""
    C = mod("yaw.catalog.catalog")
    D = mod("yaw.datachunk")
    fs = cat_fs(ctx, "none")
    name = "C08/CatalogWriter.finalize"
    ids = [7, 0, 3][:K]      # concrete, deliberately unsorted patch ids (the ordering argument does not depend on them)
    states = []
    with Patches() as pt:
        pt.set(C, "PatchWriter", WriterStub)
        ctx.canary()
        w = expect_no_exception(ctx, call(C.CatalogWriter, SymPath("/work/cat"), chunk_info=D.DataChunkInfo(), overwrite=False), name)
        fs.crash_hook = lambda fs_, k, eff: states.append((k, eff, fs_.snapshot(), [wr.closed for wr in dict.values(w.writers)] if not w.writers.sym else
                                                           [v.closed for _, v in w.writers.sym]))
        patches = C.__dict__["_vc_"].new_dict()
        for k in range(K):
            patches[ids[k]] = Rows(0 if (empty and k == 0) else ctx.fresh_int(f"rows{k}", lo=1))
        if not patches.sym:
            pass
        # process one dictionary of patch data (the loop over its items is concrete: K entries)
        for pid, rows in (list(patches.sym) if patches.sym else list(dict.items(patches))):
            expect_no_exception(ctx, call(w.get_writer(pid).process_chunk, rows), name)
        exc = (ValueError, ValueError("reader failed"), None) if fail else (None, None, None)
        res = call(w.__exit__, *exc)
        fs.crash_hook = None
    writers = [v for _, v in w.writers.sym] if w.writers.sym else list(dict.values(w.writers))
    listed = [s for s in states if s[1][1] == "/work/cat/patch_ids.bin"]
    if fail:
        ctx.check(f"{name}/post:failed_block_is_not_finalised", not listed and not catalog_opens(fs.snapshot()),
                  detail="a failed creation must not leave a directory that later opens as a valid catalog")
        ctx.check(f"{name}/post:files_closed_anyway", all(x.closed for x in writers))
        return
    if empty:
        ctx.check(f"{name}/post_exc[ValueError]:empty_patch", isinstance(res, Raised) and isinstance(res.exc, ValueError))
        ctx.check(f"{name}/post:no_patch_list_for_a_catalog_with_an_empty_patch", not listed and not catalog_opens(fs.snapshot()))
        return
    expect_no_exception(ctx, res, name)
    ctx.check(f"{name}/post:patch_list_written", catalog_opens(fs.snapshot()) and len(listed) == 2 and [s[1][0] for s in listed] == ["create", "write"],
              detail=str([s[1] for s in listed]))
    if listed:
        first = listed[0]
        ctx.check(f"{name}/post:every_patch_file_closed_before_the_list_is_created", all(first[3]), detail=str(first[3]))
        ctx.check(f"{name}/post:list_is_the_last_thing_written", states[-1][1][1] == "/work/cat/patch_ids.bin")
    for k, eff, st, closed in states:
        complete = (eff == ("write", "/work/cat/patch_ids.bin", "arr"))
        ctx.check(f"{name}/crash#{k}[{eff[0]}:{eff[1].rsplit('/', 1)[-1]}]:opens_only_when_complete", catalog_opens(st) == complete)
    ctx.check(f"{name}/frame:patch_data_only_in_patch_directories",
              all(e[1] == "/work/cat/patch_ids.bin" or e[1].startswith("/work/cat/patch_") for e in fs.effects if e[1] != "/work/cat"))
    # content of the list: the sorted ids
    lst = fs.nodes["/work/cat/patch_ids.bin"].parts[-1][1]
    ctx.check(f"{name}/post:list_has_one_entry_per_patch", hasattr(lst, "shape") and bool(lst.shape[0] == K) if hasattr(lst, "shape") else len(lst) == K)
    want = sorted(ids)
    ctx.check(f"{name}/post:list_is_sorted_ascending", hasattr(lst, "at") and all(bool(lst.at(k) == want[k]) for k in range(K)),
              detail="the patch list must be the ascending ids: load_patches pairs it with the centres by position")


@unit(P, "read_patch_ids", fuc=["yaw.catalog.catalog:read_patch_ids"], cases=[dict(state=s) for s in ("absent", "empty", "complete")])
def u_read_ids(ctx, state):
    C = mod("yaw.catalog.catalog")
    fs = SymFS(ctx)
    ctx.ghost["fs"] = fs
    fs.put_dir("/work/cat")
    n = ctx.fresh_int("n", lo=1, size=True)
    ids = SArr.fresh(ctx, "ids", (n,), "i")
    if state == "empty":
        fs.put_file("/work/cat/patch_ids.bin", [])
    elif state == "complete":
        fs.put_file("/work/cat/patch_ids.bin", [("arr", ids)])
    ctx.canary()
    res = call(C.read_patch_ids, SymPath("/work/cat"))
    name = "C08/read_patch_ids"
    if state == "complete":
        res = expect_no_exception(ctx, res, name)
        from pyvc.builtins_shim import vc_len
        ctx.check(f"{name}/post:the_stored_ids", bool(vc_len(res) == n))
    else:
        ctx.check(f"{name}/post_exc[InconsistentPatchesError]:{state}_list", isinstance(res, Raised) and isinstance(res.exc, C.InconsistentPatchesError),
                  detail="a missing or empty patch list must not open as a catalog")


@unit(P, "CorrData.to_files.crash", fuc=["yaw.correlation.corrdata:CorrData.to_files", "yaw.correlation.corrdata:CorrData.from_files"],
      cases=[dict(prior=False), dict(prior=True)])
def u_tofiles(ctx, prior):
    """every survivor of to_files() over an older result makes from_files() raise or return the complete new result"""
    CD = mod("yaw.correlation.corrdata")
    fs = SymFS(ctx)
    ctx.ghost["fs"] = fs
    fs.put_dir("/out")
    if prior:
        for sfx in (".dat", ".smp", ".cov"):
            fs.put_file("/out/res" + sfx, [("text", "OLD" + sfx)])
    name = "C08/CorrData.to_files"
    written = {}

    def writer(kind):
        def w(path, description, **kw):
            with path.open("w") as f:
                f.write_part(("text", ("NEW", kind)))
            written[kind] = True
        return w

    def load_data(path):
        with path.open() as f:
            part = f._next()
        if part is None or part[1] != ("NEW", "dat") and part[1] != "OLD.dat":
            raise ValueError("cannot parse")
        return ("EDGES", part[1]), "right", ("DATA", part[1])

    def load_samples(path):
        with path.open() as f:
            part = f._next()
        if part is None:
            raise ValueError("cannot parse")
        return ("SAMPLES", part[1])
    cd = CD.CorrData.__new__(CD.CorrData)

    class Bn:
        left, right, closed = "L", "R", "right"

        def __len__(self):
            return 3
    cd.binning, cd.data, cd.samples = Bn(), "D", "S"
    states = []
    with Patches() as pt:
        pt.set(CD, "write_data", writer("dat"))
        pt.set(CD, "write_samples", writer("smp"))
        pt.set(CD, "write_covariance", writer("cov"))
        pt.set(CD, "load_data", load_data)
        pt.set(CD, "load_samples", load_samples)
        pt.set(CD, "Binning", lambda edges, closed: ("BINNING", edges))
        pt.set(CD.CorrData, "__init__", lambda self, b, d, s: setattr(self, "loaded", (b, d, s)))
        pt.set(CD.SampledData, "error", property(lambda self: "E"))
        pt.set(CD.SampledData, "covariance", property(lambda self: "C"))
        pt.set(CD, "bcast_instance", lambda x: x)
        ctx.canary()
        fs.crash_hook = lambda fs_, k, eff: states.append((k, eff, fs_.snapshot()))
        expect_no_exception(ctx, call(CD.CorrData.to_files, cd, SymPath("/out/res")), name)
        fs.crash_hook = None
        final = fs.snapshot()
        for k, eff, st in states + [(len(states) + 1, ("done", "/out/res", None), final)]:
            sub = SymFS(ctx)
            sub.nodes = {p: (n if n is DIR else n.copy()) for p, n in st.items()}
            ctx.ghost["fs"] = sub
            r = call(CD.CorrData.from_files.__func__, CD.CorrData, SymPath("/out/res"))
            ctx.ghost["fs"] = fs
            if isinstance(r, Raised):
                continue
            b, d, s = r.loaded
            new = d == ("DATA", ("NEW", "dat")) and s == ("SAMPLES", ("NEW", "smp"))
            old = prior and d == ("DATA", "OLD.dat") and s == ("SAMPLES", "OLD.smp")
            ctx.check(f"{name}/crash#{k}[{eff[0]}:{eff[1].rsplit('/', 1)[-1]}]:survivor_is_complete_old_or_complete_new", new or old,
                      detail=f"from_files returned data={d} samples={s}")
    ctx.check(f"{name}/post:all_three_files_written", set(written) == {"dat", "smp", "cov"})


# ---------------------------------------------------------------------------------------------------------
# bounded stand-in / replay: the real writers, killed (by state copy) before every file-system operation
# ---------------------------------------------------------------------------------------------------------

def _real_crash_runs():
    import shutil
    import tempfile
    import numpy as np
    import pandas as pd
    import os
    os.environ["YAW_NUM_THREADS"] = "1"
    import yaw
    from yaw.binning import Binning
    from yaw.catalog.trees import BinnedTrees
    from yaw.correlation.corrdata import CorrData
    from . import crashsim
    viol, evals, samples = [], 0, []
    tmp = tempfile.mkdtemp(prefix="c08bounded")
    try:
        rng = np.random.default_rng(8)
        n = 180
        df = pd.DataFrame(dict(ra=rng.uniform(0, 4, n), dec=rng.uniform(-2, 2, n), z=rng.uniform(0.1, 1.0, n), w=rng.uniform(0.5, 2, n),
                               pid=rng.integers(0, 3, n)))
        df2 = df.iloc[:90].assign(z=lambda d: d.z * 0.9)
        kw = dict(ra_name="ra", dec_name="dec", redshift_name="z", weight_name="w", patch_name="pid")

        def records(cat):
            return sorted((round(float(r["ra"]), 12), round(float(r["redshifts"]), 12)) for p in cat.values() for r in p.load_data())
        # (1) catalog creation: fresh, and overwriting an older catalog
        for prior in ("fresh", "overwrite"):
            root = f"{tmp}/w1_{prior}"
            os.makedirs(root)
            if prior == "overwrite":
                old = yaw.Catalog.from_dataframe(root + "/cat", df2, **kw)
                old.build_trees([0.1, 0.5, 1.0])
                old_rec = records(old)
            events, out, err = crashsim.record(root, lambda: yaw.Catalog.from_dataframe(root + "/cat", df, overwrite=True, **kw))
            new_rec = records(yaw.Catalog(root + "/cat"))
            for ev, d in events:
                evals += 1
                try:
                    got = records(yaw.Catalog(d + "/cat"))
                except Exception:  # noqa: BLE001 - an error is an acceptable outcome
                    continue
                ok = got == new_rec or (prior == "overwrite" and got == old_rec)
                if not ok and len(viol) < 6:
                    viol.append(dict(id="bounded:catalog_creation_crash", prior=prior, crashed_before=ev, opened_with_records=len(got),
                                     expected=f"error, {len(new_rec)} new" + (f" or {len(old_rec)} old records" if prior == "overwrite" else "")))
            if len(samples) < 2:
                samples.append(dict(workload=f"catalog creation ({prior})", crash_points=[e[0] for e in events][:12]))
            shutil.rmtree(out, ignore_errors=True)
        # (2) rebuilding trees with another binning over an existing cache
        root = f"{tmp}/w2"
        os.makedirs(root)
        cat = yaw.Catalog.from_dataframe(root + "/cat", df, **kw)
        b_old, b_new = Binning([0.1, 0.5, 1.0]), Binning([0.1, 0.3, 1.0], closed="left")
        patch = cat[0]
        BinnedTrees.build(patch, b_old)
        events, out, err = crashsim.record(root, lambda: BinnedTrees.build(patch, b_new))
        want = {k: [t.num_records for t in BinnedTrees.build(patch, b, force=True).trees] for k, b in (("old", b_old), ("new", b_new))}
        for ev, d in events:
            for k, b in (("old", b_old), ("new", b_new)):
                evals += 1
                p2 = yaw.Catalog.__new__(yaw.Catalog)
                try:
                    sp = type(patch)(d + "/cat/patch_0")
                    got = [t.num_records for t in BinnedTrees.build(sp, b).trees]      # unforced: reuses a valid cache
                except Exception:  # noqa: BLE001
                    continue
                if got != want[k] and len(viol) < 6:
                    viol.append(dict(id="bounded:tree_rebuild_crash", crashed_before=ev, requested=k, trees=got, expected=want[k]))
        samples.append(dict(workload="tree rebuild", crash_points=[e[0] for e in events]))
        shutil.rmtree(out, ignore_errors=True)
        # (2b) the same for a whole catalog: an interrupted rebuild over all patches must be completed by the next (unforced) use -
        # every patch is looked at, not only the first
        root = f"{tmp}/w2b"
        os.makedirs(root)
        cat = yaw.Catalog.from_dataframe(root + "/cat", df, **kw)
        cat.build_trees(b_old.edges, closed=str(b_old.closed))
        events, out, err = crashsim.record(root, lambda: cat.build_trees(b_new.edges, closed=str(b_new.closed)))
        want_new = {pid: [t.num_records for t in BinnedTrees.build(cat[pid], b_new, force=True).trees] for pid in cat.keys()}
        for ev, d in events:
            evals += 1
            try:
                c2 = yaw.Catalog(d + "/cat")
                c2.build_trees(b_new.edges, closed=str(b_new.closed))
                got = {pid: [t.num_records for t in BinnedTrees(c2[pid]).trees] for pid in c2.keys()}
            except Exception:  # noqa: BLE001
                continue
            if got != want_new and len(viol) < 6:
                viol.append(dict(id="bounded:catalog_tree_rebuild_crash", crashed_before=ev, trees=got, expected=want_new))
        samples.append(dict(workload="tree rebuild of a catalog", crash_points=len(events)))
        shutil.rmtree(out, ignore_errors=True)
        # (3) result files over an older result
        root = f"{tmp}/w3"
        os.makedirs(root)
        b = Binning([0.1, 0.4, 0.7, 1.0])
        old = CorrData(b, np.array([1.0, 2.0, 3.0]), rng.uniform(1, 2, (4, 3)))
        new = CorrData(b, np.array([7.0, 8.0, 9.0]), rng.uniform(7, 8, (4, 3)))
        old.to_files(root + "/res")
        events, out, err = crashsim.record(root, lambda: new.to_files(root + "/res"))
        for ev, d in events:
            evals += 1
            try:
                got = CorrData.from_files(d + "/res")
            except Exception:  # noqa: BLE001
                continue
            is_new = np.allclose(got.data, new.data) and np.allclose(got.samples, new.samples, atol=1e-6)
            is_old = np.allclose(got.data, old.data) and np.allclose(got.samples, old.samples, atol=1e-6)
            if not (is_new or is_old) and len(viol) < 6:
                viol.append(dict(id="bounded:result_files_crash", crashed_before=ev, data=got.data.tolist(), samples_row0=got.samples[0].tolist()))
        samples.append(dict(workload="CorrData.to_files", crash_points=[e[0] for e in events]))
        shutil.rmtree(out, ignore_errors=True)
    finally:
        shutil.rmtree(tmp, ignore_errors=True)
    return viol, evals, samples


def bounded(opts):
    import time
    t0 = time.time()
    viol, evals, samples = _real_crash_runs()
    return dict(kind="bounded", bound="5 workloads (catalog creation fresh / over an older catalog with trees, tree rebuild of one patch and of a whole catalog with another binning, "
                "result files over an older result); one survivor per file-system operation seen by the audit hook plus the "
                "created-but-empty state of every file opened for writing; real readers on every survivor", evaluations=evals,
                distinct_nontrivial=evals, violations=viol, samples=samples, wall_s=round(time.time() - t0, 2),
                note="real library, crash emulated by copying the directory before each operation; labelled bounded, not counted as proved")


def replay_witness(unit_name, case, ob):
    viol, evals, samples = _real_crash_runs()
    return {"reproduced": bool(viol), "violations": viol[:4], "survivors_checked": evals,
            "note": "real writers killed (by state copy) before every file-system operation; real readers on the survivors"}


# an interrupted rebuild is repaired only if the next use looks at *every* patch: Catalog.build_trees dispatches BinnedTrees.build for
# all patches on every call (C05 unit), and BinnedTrees.build decides per patch from its own marker (units above)
def _register_shared_round9():
    from . import C05 as _C05
    unit(P, "Catalog.build_trees", fuc=["yaw.catalog.catalog:Catalog.build_trees"],
         cases=[dict(binned=b, repeated=r) for b in (False, True) for r in (False, True)], trusted=["iter_unordered contract"])(_C05.u_cat_build_trees)


# _register_shared_round9() is called by the driver after this module is fully imported (no import cycles)


# "stale cache content is never used silently": the marker of a patch is read back as what was written (edges and closed side) and
# the trees are reused only for exactly that binning (C07 units on BinnedTrees), also after an interrupted rebuild
def _register_shared_round10():
    from . import C07 as _C07
    unit(P, "BinnedTrees.build", fuc=["yaw.catalog.trees:BinnedTrees.build", "yaw.catalog.trees:BinnedTrees.__init__", "yaw.catalog.trees:BinnedTrees.binning_equal"],
         cases=_C07.CASES)(_C07.u_build)
    unit(P, "BinnedTrees.read_side", fuc=["yaw.catalog.trees:BinnedTrees.__init__", "yaw.catalog.trees:BinnedTrees.trees"],
         cases=[dict(prior=p) for p in ("none", "unbinned", "left", "right")])(_C07.u_read)


# _register_shared_round10() is called by the driver after this module is fully imported (no import cycles)
