"""C04 - correlation estimators and the n(z) formula are applied as documented.

Specification (from the statement):
  estimator   rr present:  (DD - DR - RD + RR)/RR  with RD := DR when RD is absent
              otherwise :  DD/RD - 1 if RD present else DD/DR - 1
              one estimator per container, applied to the values and to every jackknife row
  terms       each term = total pair count / product of the two samples' total weights (cross);
              (W^2/2 for an autocorrelation - the array form is proved in C03, the closed form here for cross)
  n(z)        w_sp / sqrt(dz^2 * w_ss * w_pp), absent autocorrelations = 1, identical for value and samples
  normalised  Σ_b dz_b * data'_b = 1   (histogram and redshift estimate)
Denominators are assumed non-zero (division by zero gives inf/NaN in floats, outside the real-number model).
"""
from __future__ import annotations

import itertools

import z3

from pyvc import core, shadow, sigma, realfn
from pyvc.core import SNum, SBool, Ctx, EndPath, to_term, tob, to_real
from pyvc.arrays import SArr, bv, in_range, forall, dim_term
from .common import And, Or, Implies, Not, ForAll, mod, unit, call, Raised, expect_no_exception, fail, Patches
from . import containers_common as CC

P = "C04"
EXPLANATION = (
    "Deductive: davis_peebles, landy_szalay, CorrFunc.sample, RedshiftData.from_corrdata/from_corrfuncs, "
    "RedshiftData.normalised and HistData.normalised are re-read from the current source and executed on symbolic "
    "arrays (any number of bins, patches, jackknife samples); results are compared with the formulas of the statement "
    "for an arbitrary bin and an arbitrary jackknife row. All 7 non-empty subsets of {dr, rd, rr} are enumerated "
    "(exhaustive). sqrt is an uninterpreted function with its algebraic axioms.")
TRUSTED = []
NOT_DECIDED = ["NaN handling of np.nansum", "the curve-fit branch of RedshiftData.normalised(target) (scipy optimiser)",
               "closed form W^2/2 of the autocorrelation normalisation (the array form is proved in C03)"]
ASSUMPTIONS = ["denominators (RR, DR/RD totals, normalisation integral) are non-zero"]

KINDS = ("dr", "rd", "rr")
SUBSETS = [dict(dr=a, rd=b, rr=c) for a, b, c in itertools.product((False, True), repeat=3) if (a or b or c)]


@unit(P, "sigma_schemas", kind="lemma")
def u_sigma(ctx):
    ctx.canary()
    sigma.prove_schemas(ctx)


def estimator_spec(dd, dr, rd, rr):
    """the estimator of the statement on z3 terms (None = absent)"""
    if rr is not None:
        rd_ = dr if rd is None else rd
        return (dd - dr - rd_ + rr) / rr
    mixed = rd if rd is not None else dr
    return dd / mixed - 1


@unit(P, "estimators", fuc=["yaw.correlation.corrfunc:davis_peebles", "yaw.correlation.corrfunc:landy_szalay"])
def u_estimators(ctx):
    """the two estimator functions on arrays, for an arbitrary element"""
    CF = mod("yaw.correlation.corrfunc")
    n = ctx.fresh_int("n", lo=1, size=True)
    arr = {k: SArr.fresh(ctx, k, (n,), "f", register=True) for k in ("dd", "dr", "rd", "rr")}
    t = ctx.fresh_int("t", lo=0)
    ctx.assume(t.t < n.t, "post:arbitrary element")
    e = {k: v._elem(t.t) for k, v in arr.items()}
    ctx.assume(z3.And(e["dr"] != 0, e["rd"] != 0, e["rr"] != 0), "pre:non-zero denominators")
    ctx.canary()
    r = expect_no_exception(ctx, call(CF.landy_szalay, dd=arr["dd"], dr=arr["dr"], rd=arr["rd"], rr=arr["rr"]), "C04/landy_szalay")
    ctx.check("C04/landy_szalay/post:(DD-DR-RD+RR)/RR", r.elem(t.t) == estimator_spec(e["dd"], e["dr"], e["rd"], e["rr"]))
    r = expect_no_exception(ctx, call(CF.landy_szalay, dd=arr["dd"], dr=arr["dr"], rr=arr["rr"]), "C04/landy_szalay")
    ctx.check("C04/landy_szalay/post:missing_RD_replaced_by_DR", r.elem(t.t) == estimator_spec(e["dd"], e["dr"], None, e["rr"]))
    r = expect_no_exception(ctx, call(CF.davis_peebles, dd=arr["dd"], dr=arr["dr"]), "C04/davis_peebles")
    ctx.check("C04/davis_peebles/post:DD/DR-1", r.elem(t.t) == estimator_spec(e["dd"], e["dr"], None, None))
    r = expect_no_exception(ctx, call(CF.davis_peebles, dd=arr["dd"], rd=arr["rd"]), "C04/davis_peebles")
    ctx.check("C04/davis_peebles/post:DD/RD-1", r.elem(t.t) == estimator_spec(e["dd"], None, e["rd"], None))
    r = call(CF.davis_peebles, dd=arr["dd"])
    ctx.check("C04/davis_peebles/post_exc:needs_dr_or_rd", isinstance(r, Raised) and type(r.exc).__name__ == "EstimatorError")
    ctx.check("C04/estimators/post:names", CF.landy_szalay.name == "LS" and CF.davis_peebles.name == "DP")


@unit(P, "CorrFunc.sample", fuc=["yaw.correlation.corrfunc:CorrFunc.sample", "yaw.correlation.corrfunc:CorrFunc.to_dict",
                                 "yaw.correlation.corrfunc:CorrFunc.binning"], cases=SUBSETS)
def u_sample(ctx, dr, rd, rr):
    """estimator selection over all present/absent combinations; applied identically to values and jackknife rows.
    Callee contract: NormalisedCounts.sample_patch_sum (proved in C03) returns the resampled normalised counts."""
    CF = mod("yaw.correlation.corrfunc")
    PC = mod("yaw.correlation.paircounts")
    CD = mod("yaw.correlation.corrdata")
    binning, nb = CC.make_binning(ctx)
    N = ctx.fresh_int("num_patches", lo=1, size=True)
    present = dict(dd=True, dr=dr, rd=rd, rr=rr)
    members, resampled = {}, {}
    for kind in ("dd",) + KINDS:
        if present[kind]:
            m = PC.NormalisedCounts.__new__(PC.NormalisedCounts)
            m.counts = CC.make_patched_counts(ctx, binning, nb, N, False, kind + "_counts")
            m.sum_weights = None
            members[kind] = m
            resampled[id(m)] = CC.make_sampled(ctx, binning, nb, N, kind)
        else:
            members[kind] = None
    cf = CF.CorrFunc.__new__(CF.CorrFunc)
    for kind in ("dd",) + KINDS:
        setattr(cf, kind, members[kind])
    calls = []

    def sps(self):
        calls.append(self)
        return resampled[id(self)]
    b, k = ctx.fresh_int("b", lo=0), ctx.fresh_int("k", lo=0)
    ctx.assume(z3.And(b.t < nb.t, k.t < N.t), "post:arbitrary bin and jackknife row")
    val = {kind: (resampled[id(m)].data._elem(b.t) if m is not None else None) for kind, m in members.items()}
    smp = {kind: (resampled[id(m)].samples._elem(k.t, b.t) if m is not None else None) for kind, m in members.items()}
    for d in (val, smp):
        for kind in KINDS:
            if d[kind] is not None:
                ctx.assume(d[kind] != 0, "pre:non-zero denominators")
    name = "C04/CorrFunc.sample"
    with Patches() as pt:
        pt.set(PC.NormalisedCounts, "sample_patch_sum", sps)
        ctx.canary()
        res = call(CF.CorrFunc.sample, cf)
    if rr and not dr:
        # the statement defines the Landy-Szalay form only with DR present; the code raises TypeError here
        ctx.check(f"{name}/post_exc:rr_without_dr_is_rejected", isinstance(res, Raised) and isinstance(res.exc, TypeError),
                  detail="outside the statement: no estimator is defined for RR without DR")
        return
    res = expect_no_exception(ctx, res, name)
    ctx.check(f"{name}/post:every_present_member_resampled_once",
              len(calls) == sum(1 for m in members.values() if m is not None) and len(set(map(id, calls))) == len(calls))
    ctx.check(f"{name}/post:value_is_documented_estimator",
              res.data.elem(b.t) == estimator_spec(val["dd"], val["dr"], val["rd"], val["rr"]),
              detail=f"present={[kk for kk in present if present[kk]]}")
    ctx.check(f"{name}/post:every_jackknife_row_uses_the_same_estimator",
              res.samples.elem(k.t, b.t) == estimator_spec(smp["dd"], smp["dr"], smp["rd"], smp["rr"]))
    ctx.check(f"{name}/post:binning", res.binning is binning)
    ctx.check(f"{name}/post:is_CorrData", isinstance(res, CD.CorrData))


@unit(P, "normalisation_cross_lemma", kind="lemma")
def u_norm_cross(ctx):
    """Σ_i Σ_j w1_i w2_j = (Σ_i w1_i)(Σ_j w2_j): the sum over the weight-product array of a cross-correlation
    (PatchedSumWeights.get_array, proved in C03) is the product of the two samples' total weights"""
    N = ctx.fresh_int("N", lo=0, size=True)
    w1 = z3.Function("w1?gen", z3.IntSort(), z3.RealSort())
    w2 = z3.Function("w2?gen", z3.IntSort(), z3.RealSort())
    ctx.canary()
    i = bv("i")
    W2 = sigma.total(lambda j: w2(j), N.t)
    # inner: for every i: Σ_j w1_i w2_j = w1_i * Σ_j w2_j
    sc, sf = sigma.scale(ctx, lambda j: w2(j), w1(i), N.t)
    ctx.assume(z3.ForAll([i], z3.Implies(N.t >= 0, sigma.total(lambda j: w1(i) * w2(j), N.t) == w1(i) * W2)),
               "lemma:scale (generalised over the outer index)")
    # outer: Σ_i (w1_i * W2) = W2 * Σ_i w1_i
    sigma.congruence(ctx, lambda ii: sigma.total(lambda j: w1(ii) * w2(j), N.t), lambda ii: W2 * w1(ii), N.t, name="inner_scaled")
    sigma.scale(ctx, lambda ii: w1(ii), W2, N.t)
    lhs = sigma.total(lambda ii: sigma.total(lambda j: w1(ii) * w2(j), N.t), N.t)
    ctx.check("C04/normalisation_cross_lemma/sum_of_products_is_product_of_sums",
              lhs == sigma.total(lambda ii: w1(ii), N.t) * W2, kind="lemma")


@unit(P, "RedshiftData.from_corrdata", fuc=["yaw.redshifts:RedshiftData.from_corrdata"],
      cases=[dict(ref=r, unk=u) for r in (False, True) for u in (False, True)], trusted=["np.tile+reshape identity"])
def u_from_corrdata(ctx, ref, unk):
    """n(z) = w_sp / sqrt(dz^2 w_ss w_pp), absent terms = 1, the same expression for the value and every sample row"""
    R = mod("yaw.redshifts")
    CD = mod("yaw.correlation.corrdata")
    binning, nb = CC.make_binning(ctx)
    N = ctx.fresh_int("num_samples", lo=1, size=True)
    cross = CC.make_sampled(ctx, binning, nb, N, "w_sp", cls=CD.CorrData)
    refd = CC.make_sampled(ctx, binning, nb, N, "w_ss", cls=CD.CorrData) if ref else None
    unkd = CC.make_sampled(ctx, binning, nb, N, "w_pp", cls=CD.CorrData) if unk else None
    name = "C04/RedshiftData.from_corrdata"
    compat = []
    with Patches() as pt:
        pt.set(CD.SampledData, "is_compatible", lambda self, other, *, require=False: compat.append((self, other, require)) or True)
        pt.set(R, "parallel", type("Par", (), {"on_root": staticmethod(lambda: False), "on_worker": staticmethod(lambda: True)}))
        ctx.canary()
        res = expect_no_exception(ctx, call(R.RedshiftData.from_corrdata.__func__, R.RedshiftData, cross, refd, unkd), name)
    b, k = ctx.fresh_int("b", lo=0), ctx.fresh_int("k", lo=0)
    ctx.assume(z3.And(b.t < nb.t, k.t < N.t), "post:arbitrary bin and jackknife row")
    e = binning.edges._elem
    dz = e(b.t + 1) - e(b.t)
    sqrt = realfn.sqrt_term
    one = z3.RealVal(1)
    ss_v = refd.data._elem(b.t) if ref else one
    pp_v = unkd.data._elem(b.t) if unk else one
    ss_s = refd.samples._elem(k.t, b.t) if ref else one
    pp_s = unkd.samples._elem(k.t, b.t) if unk else one
    ctx.check(f"{name}/post:value", res.data.elem(b.t) == cross.data._elem(b.t) / sqrt(dz * dz * ss_v * pp_v),
              detail="n(z) value vs w_sp/sqrt(dz^2 w_ss w_pp)")
    ctx.check(f"{name}/post:every_sample_row_same_formula_with_the_bin_width_of_its_bin",
              res.samples.elem(k.t, b.t) == cross.samples._elem(k.t, b.t) / sqrt(dz * dz * ss_s * pp_s),
              detail="n(z) jackknife row vs w_sp/sqrt(dz^2 w_ss w_pp) with dz of the same bin")
    ctx.check(f"{name}/post:binning_of_cross", res.binning is binning)
    ctx.check(f"{name}/post:autocorrelations_checked_for_compatibility",
              len(compat) == int(ref) + int(unk) and all(c[2] for c in compat))
    ctx.check(f"{name}/post:shapes", And(res.data.shape[0] == nb, res.samples.shape[0] == N, res.samples.shape[1] == nb))


@unit(P, "RedshiftData.from_corrfuncs", fuc=["yaw.redshifts:RedshiftData.from_corrfuncs"],
      cases=[dict(ref=r, unk=u) for r in (False, True) for u in (False, True)])
def u_from_corrfuncs(ctx, ref, unk):
    """samples every given pair-count container once and passes cross/ref/unk on in this order"""
    R = mod("yaw.redshifts")
    log = []

    class CFStub:
        def __init__(self, tag):
            self.tag = tag

        def sample(self):
            log.append(("sample", self.tag))
            return ("DATA", self.tag)

        def is_compatible(self, other, *, require=False):
            log.append(("compat", self.tag, other.tag, require))
            return True

        def __bool__(self):
            return True
    got = {}

    def from_corrdata(cls, cross_data, ref_data=None, unk_data=None):
        got.update(cross=cross_data, ref=ref_data, unk=unk_data)
        return "NZ"
    with Patches() as pt:
        pt.set(R.RedshiftData, "from_corrdata", classmethod(from_corrdata))
        ctx.canary()
        res = expect_no_exception(ctx, call(R.RedshiftData.from_corrfuncs.__func__, R.RedshiftData, CFStub("cross"),
                                            CFStub("ref") if ref else None, CFStub("unk") if unk else None),
                                  "C04/RedshiftData.from_corrfuncs")
    name = "C04/RedshiftData.from_corrfuncs"
    ctx.check(f"{name}/post:result_of_from_corrdata", res == "NZ")
    ctx.check(f"{name}/post:arguments_in_order", got.get("cross") == ("DATA", "cross") and
              got.get("ref") == (("DATA", "ref") if ref else None) and got.get("unk") == (("DATA", "unk") if unk else None))
    ctx.check(f"{name}/post:each_sampled_once", sorted(x[1] for x in log if x[0] == "sample") ==
              sorted(["cross"] + (["ref"] if ref else []) + (["unk"] if unk else [])))


def _integral_is_one(ctx, name, binning, nb, res_data, norm_term):
    """Σ_b dz_b * data'_b = 1"""
    e = binning.edges._elem
    f = lambda t: (e(t + 1) - e(t)) * res_data._elem(t)  # noqa: E731
    return sigma.total(f, nb.t)


@unit(P, "RedshiftData.normalised", fuc=["yaw.redshifts:RedshiftData.normalised", "yaw.binning:Binning.dz"])
def u_rd_norm(ctx):
    """without target: data and every sample row are divided by norm = Σ_b dz_b data_b, hence Σ_b dz_b data'_b = 1"""
    R = mod("yaw.redshifts")
    binning, nb = CC.make_binning(ctx)
    N = ctx.fresh_int("num_samples", lo=1, size=True)
    rd = CC.make_sampled(ctx, binning, nb, N, "nz", cls=R.RedshiftData)
    name = "C04/RedshiftData.normalised"
    e = binning.edges._elem
    dzd = lambda t: (e(t + 1) - e(t)) * rd.data._elem(t)  # noqa: E731
    norm = sigma.total(dzd, nb.t)
    ctx.assume(norm != 0, "pre:non-zero integral")
    with Patches() as pt:
        pt.set(R, "parallel", type("Par", (), {"on_root": staticmethod(lambda: False), "on_worker": staticmethod(lambda: True)}))
        pt.set(R.RedshiftData, "__init__", lambda self, b, d, s: (setattr(self, "binning", b), setattr(self, "data", d),
                                                                  setattr(self, "samples", s)) and None)
        ctx.canary()
        res = expect_no_exception(ctx, call(R.RedshiftData.normalised, rd), name)
    b, k = ctx.fresh_int("b", lo=0), ctx.fresh_int("k", lo=0)
    ctx.assume(z3.And(b.t < nb.t, k.t < N.t), "post:arbitrary bin and row")
    ctx.check(f"{name}/post:value_divided_by_integral", res.data.elem(b.t) == rd.data._elem(b.t) / norm)
    ctx.check(f"{name}/post:samples_divided_by_the_same_constant", res.samples.elem(k.t, b.t) == rd.samples._elem(k.t, b.t) / norm)
    # Σ_b dz_b (data_b / norm) = (1/norm) Σ_b dz_b data_b = 1
    inv = 1 / norm
    sigma.scale(ctx, dzd, inv, nb.t)
    sigma.congruence(ctx, lambda t: (e(t + 1) - e(t)) * res.data._elem(t), lambda t: inv * dzd(t), nb.t, name="scaled_summand")
    ctx.check(f"{name}/post:integral_over_the_binning_is_one",
              sigma.total(lambda t: (e(t + 1) - e(t)) * res.data._elem(t), nb.t) == 1)
    ctx.check(f"{name}/frame:original_unchanged", And(rd.data is not res.data, res.binning is binning))


@unit(P, "HistData.normalised", fuc=["yaw.redshifts:HistData.normalised"], trusted=["np.min/np.max"])
def u_hist_norm(ctx):
    """data and samples are scaled by the same bin-wise width correction and the same constant; Σ_b dz_b data'_b = 1"""
    R = mod("yaw.redshifts")
    binning, nb = CC.make_binning(ctx)
    N = ctx.fresh_int("num_samples", lo=1, size=True)
    hd = CC.make_sampled(ctx, binning, nb, N, "hist", cls=R.HistData)
    name = "C04/HistData.normalised"
    with Patches() as pt:
        pt.set(R, "parallel", type("Par", (), {"on_root": staticmethod(lambda: False), "on_worker": staticmethod(lambda: True)}))
        pt.set(R.HistData, "__init__", lambda self, b, d, s: (setattr(self, "binning", b), setattr(self, "data", d),
                                                              setattr(self, "samples", s)) and None)
        ctx.canary()
        res = expect_no_exception(ctx, call(R.HistData.normalised, hd), name)
    e = binning.edges._elem
    b, k = ctx.fresh_int("b", lo=0), ctx.fresh_int("k", lo=0)
    ctx.assume(z3.And(b.t < nb.t, k.t < N.t), "post:arbitrary bin and row")
    # the same bin-wise factor and the same constant for the value and for every sample row (ghost provenance of
    # the two in-place divisions: result = before_division / divided_by)
    dn, sn = res.data.meta.get("divided_by"), res.samples.meta.get("divided_by")
    pd_, ps_ = res.data.meta.get("before_division"), res.samples.meta.get("before_division")
    if dn is None or sn is None:
        raise core.Unsupported("HistData.normalised: cannot identify the normalisation constants in the result")
    ctx.check(f"{name}/post:samples_divided_by_the_same_constant_as_the_value", SBool(dn == sn))
    ctx.check(f"{name}/post:samples_scaled_by_the_same_bin_factor_as_the_value",
              ps_.elem(k.t, b.t) * hd.data._elem(b.t) == pd_.elem(b.t) * hd.samples._elem(k.t, b.t))
    ctx.check(f"{name}/post:integral_over_the_binning_is_one", _hist_integral(ctx, name, hd, res, binning, nb))


def _hist_integral(ctx, name, hd, res, binning, nb):
    """Σ_b dz_b data'_b = 1: the result is pre_b / norm (ghost provenance of the in-place division) with
    norm = Σ_b dz_b pre_b, hence Σ_b dz_b (pre_b / norm) = (1/norm) Σ_b dz_b pre_b = 1 (scale lemma)."""
    e = binning.edges._elem
    dz = lambda t: e(t + 1) - e(t)  # noqa: E731
    code_norm = res.data.meta.get("divided_by")
    pre = res.data.meta.get("before_division")
    if code_norm is None or pre is None:
        raise core.Unsupported("HistData.normalised: cannot identify the normalisation constant in the result")
    ctx.assume(code_norm != 0, "pre:non-zero integral")
    f = lambda t: dz(t) * pre._elem(t)  # noqa: E731
    ctx.check(f"{name}/post:norm_is_integral_of_the_corrected_counts", code_norm == sigma.total(f, nb.t))
    inv = 1 / code_norm
    sigma.scale(ctx, f, inv, nb.t)
    sigma.congruence(ctx, lambda t: dz(t) * res.data._elem(t), lambda t: inv * f(t), nb.t, name="hist_scaled_summand")
    return SBool(sigma.total(lambda t: dz(t) * res.data._elem(t), nb.t) == 1)


# ---------------------------------------------------------------------------------------------------------
# replay on the real code
# ---------------------------------------------------------------------------------------------------------

def _real_corrfunc(rng, nb, N, present, auto=False):
    import numpy as np
    from yaw.binning import Binning
    from yaw.correlation import paircounts as PCr
    from yaw.correlation.corrfunc import CorrFunc
    binning = Binning(np.cumsum(np.concatenate([[0.1], rng.uniform(0.05, 0.4, nb)])))
    mem = {}
    for kind in ("dd", "dr", "rd", "rr"):
        if present[kind]:
            A = rng.uniform(1, 50, (nb, N, N))
            w1, w2 = rng.uniform(1, 9, (nb, N)), rng.uniform(1, 9, (nb, N))
            mem[kind] = PCr.NormalisedCounts(PCr.PatchedCounts(binning, A, auto=auto), PCr.PatchedSumWeights(binning, w1, w2, auto=auto))
        else:
            mem[kind] = None
    return binning, mem


def _est(dd, dr, rd, rr):
    if rr is not None:
        rd_ = dr if rd is None else rd
        return (dd - dr - rd_ + rr) / rr
    mixed = rd if rd is not None else dr
    return dd / mixed - 1


def replay_witness(unit_name, case, ob):
    import numpy as np
    rng = np.random.default_rng(2024)
    tf = lambda v: v in (True, "True")  # noqa: E731
    if unit_name == "estimators":
        from yaw.correlation import corrfunc as CFr
        a = {k: rng.uniform(1, 9, 5) for k in ("dd", "dr", "rd", "rr")}
        bad = []
        if not np.allclose(CFr.landy_szalay(dd=a["dd"], dr=a["dr"], rd=a["rd"], rr=a["rr"]), _est(a["dd"], a["dr"], a["rd"], a["rr"])):
            bad.append("landy_szalay")
        if not np.allclose(CFr.landy_szalay(dd=a["dd"], dr=a["dr"], rr=a["rr"]), _est(a["dd"], a["dr"], None, a["rr"])):
            bad.append("landy_szalay without rd")
        if not np.allclose(CFr.davis_peebles(dd=a["dd"], dr=a["dr"]), _est(a["dd"], a["dr"], None, None)):
            bad.append("davis_peebles dr")
        if not np.allclose(CFr.davis_peebles(dd=a["dd"], rd=a["rd"]), _est(a["dd"], None, a["rd"], None)):
            bad.append("davis_peebles rd")
        return {"reproduced": bool(bad), "inputs": {k: v.tolist() for k, v in a.items()}, "observed": bad, "expected": "documented estimators"}
    if unit_name == "CorrFunc.sample":
        from yaw.correlation.corrfunc import CorrFunc
        present = dict(dd=True, dr=tf(case.get("dr")), rd=tf(case.get("rd")), rr=tf(case.get("rr")))
        binning, mem = _real_corrfunc(rng, 3, 4, present)
        cf = CorrFunc(mem["dd"], mem["dr"], mem["rd"], mem["rr"])
        try:
            res = cf.sample()
        except TypeError as ex:
            return {"reproduced": not (present["rr"] and not present["dr"]), "observed": repr(ex)}
        rs = {k: (m.sample_patch_sum() if m is not None else None) for k, m in mem.items()}
        g = lambda f: {k: (getattr(v, f) if v is not None else None) for k, v in rs.items()}  # noqa: E731
        ev, es = _est(**g("data")), _est(**g("samples"))
        bad = not (np.allclose(res.data, ev) and np.allclose(res.samples, es))
        return {"reproduced": bool(bad), "inputs": {"present": present, "seed": 2024}, "observed": {"data": res.data.tolist()},
                "expected": {"data": ev.tolist()}}
    if unit_name.startswith("RedshiftData.from_corrdata"):
        from yaw.binning import Binning
        from yaw.correlation.corrdata import CorrData
        from yaw.redshifts import RedshiftData
        nb, N = 4, 5
        binning = Binning(np.array([0.1, 0.15, 0.3, 0.6, 1.1]))
        mk = lambda sign: CorrData(binning, sign * rng.uniform(0.5, 2, nb), sign * rng.uniform(0.5, 2, (N, nb)))  # noqa: E731
        out = []
        for sign in (1.0, -1.0):   # both autocorrelations negative is a legitimate (noise dominated) input
            cross = mk(1.0)
            ref = mk(sign) if tf(case.get("ref")) else None
            unk = mk(sign) if tf(case.get("unk")) else None
            with np.errstate(all="ignore"):
                res = RedshiftData.from_corrdata(cross, ref, unk)
                dz = binning.dz
                one = np.float64(1.0)
                ev = cross.data / np.sqrt(dz ** 2 * (ref.data if ref else one) * (unk.data if unk else one))
                es = cross.samples / np.sqrt(dz[None, :] ** 2 * (ref.samples if ref else one) * (unk.samples if unk else one))
            if not (np.allclose(res.data, ev, equal_nan=True) and np.allclose(res.samples, es, equal_nan=True)):
                out.append(dict(sign=sign, observed=res.samples[0].tolist(), expected=es[0].tolist()))
        return {"reproduced": bool(out), "inputs": "unequal bin widths [0.05,0.15,0.3,0.5], 5 samples, autocorrelations positive / both negative",
                "mismatches": out}
    if unit_name in ("RedshiftData.normalised", "HistData.normalised"):
        from yaw.binning import Binning
        import yaw.redshifts as red
        cls = red.RedshiftData if unit_name.startswith("Redshift") else red.HistData
        binning = Binning(np.array([0.1, 0.15, 0.3, 0.6, 1.1]))
        x = cls(binning, rng.uniform(0.5, 2, 4), rng.uniform(0.5, 2, (5, 4)))
        res = x.normalised()
        integ = float(np.sum(binning.dz * res.data))
        ratio_d = res.data / x.data
        ratio_s = res.samples / x.samples
        bad = abs(integ - 1) > 1e-12 or not np.allclose(ratio_s, ratio_d[None, :])
        return {"reproduced": bool(bad), "observed": {"integral": integ, "sample_factor_row0": ratio_s[0].tolist(), "value_factor": ratio_d.tolist()},
                "expected": {"integral": 1.0, "sample factors equal value factors": True}}
    return {"reproduced": False, "note": "no concrete replay harness for this obligation"}



# the normalisation of every pair-count term uses the sums of weights of the right catalog, bin and patch: the C01 unit on
# PatchLinkage.count_pairs (cells, diagonal factor, sum_weights1/2 columns for every arrival order), run here as well
def _register_shared():
    from . import C01 as _C01
    from . import C03 as _C03
    # "computed identically for the value and every jackknife sample": the resampled pair counts and weight products that enter
    # the estimators are the leave-one-patch-out sums (the C03 units on sample_patch_sum, run here as well)
    unit(P, "BinwisePatchwiseArray.sample_patch_sum", fuc=["yaw.correlation.paircounts:BinwisePatchwiseArray.sample_patch_sum",
                                                           "yaw.correlation.paircounts:PatchedCounts.get_array"],
         cases=[dict(auto=False), dict(auto=True)], trusted=["np.einsum", "np.tile"])(_C03.u_sps)
    unit(P, "PatchedSumWeights.get_array", fuc=["yaw.correlation.paircounts:PatchedSumWeights.get_array"],
         cases=[dict(auto=False), dict(auto=True)])(_C03.u_sw_array)
    unit(P, "NormalisedCounts.sample_patch_sum", fuc=["yaw.correlation.paircounts:NormalisedCounts.sample_patch_sum"],
         cases=[dict(auto=False), dict(auto=True)])(_C03.u_norm_sps)
    unit(P, "PatchLinkage.count_pairs", fuc=["yaw.correlation.measurements:PatchLinkage.count_pairs"],
         cases=[dict(auto=a, S=1) for a in (False, True)], trusted=["iter_unordered contract", "iter_patch_id_pairs contract"], kind="bounded")(_C01.u_count_pairs)


# _register_shared() is called by the driver after this module is fully imported (no import cycles)


# the estimators are applied to whatever container is sampled, also to a bin or patch selection of it: the selection keeps counts and
# both sums of weights of exactly the selected bins / patches (C17 unit)
def _register_shared_round9():
    from . import C17 as _C17
    unit(P, "containers._make_slice", fuc=["yaw.correlation.paircounts:PatchedCounts._make_bin_slice", "yaw.correlation.paircounts:PatchedSumWeights._make_bin_slice",
                                           "yaw.correlation.paircounts:PatchedCounts._make_patch_slice", "yaw.correlation.paircounts:PatchedSumWeights._make_patch_slice"],
         cases=[dict(which=w, kind=k, cont=c) for w in ("bin", "patch") for k in ("int", "slice") for c in ("pc", "sw")])(_C17.u_slices)


# _register_shared_round9() is called by the driver after this module is fully imported (no import cycles)


# "the total pair count divided by the product of the total weights of the two samples": the sums of weights stored with the counts
# are the weight sums of the trees of both patches (C01 unit on process_patch_pair)
def _register_shared_round10():
    from . import C01 as _C01
    unit(P, "process_patch_pair", fuc=["yaw.correlation.measurements:process_patch_pair"],
         cases=[dict(second=s, weighted=w) for s in ("binned", "unbinned") for w in (False, True)], trusted=["BinnedTrees.__iter__ (C07)"])(_C01.u_ppp)


# _register_shared_round10() is called by the driver after this module is fully imported (no import cycles)
