"""C02 - catalog creation stores every input record exactly once, unchanged.

The pipeline is a chain of functions; each link gets a contract that maps *positions* bijectively and keeps the field
values, so that the chain as a whole is a bijection between input rows and (patch, position in data.bin):

   source rows --reader pass (C18: the chunks of one pass are source[0:c], source[c:2c], ...)-->
   chunk       --DataChunk.create: field values = input values (x pi/180 for coordinates in degrees)-->
   [parts      --np.array_split (ASSUMED: consecutive slices), pool.map (ASSUMED: each part once) --]
   groups      --split_into_patches / groupby: a permutation of the rows, cut where the patch id changes; the id of a
                 row is its column value or the vq index of its nearest centre; the patch_ids column is dropped-->
   writers     --CatalogWriter.process_patches / get_writer: group of id p goes to the writer of patch_p, once-->
   data.bin    --PatchWriter: header ++ all received groups in arrival order (buffer size and flushes do not matter)-->
   records     --read_patch_data / Patch.load_data: the records of the file under the names in the header.

Composition of the links (a bijection of bijections) is the meta-argument of DESIGN.md par. 8 C02; the bounded battery checks
the composition on the real library (data frames, FITS, HDF5, Parquet, random source; chunk sizes around the lengths;
1, 2, 4 workers).
"""
from __future__ import annotations

import z3

from pyvc import core, shadow
from pyvc.core import SNum, SBool, Ctx, EndPath, Unsupported, to_term, tob
from pyvc.arrays import SArr, SRec, bv, forall, dim_term
from pyvc.builtins_shim import vc_len, SSeq
from pyvc.fsmodel_sym import SymFS, SymPath, DIR
from .common import And, Or, Implies, Not, ForAll, mod, unit, call, Raised, expect_no_exception, fail, use_loops, LoopSpec, Patches
from . import C09 as _C09

P = "C02"
EXPLANATION = (
    "Deductive, function by function along the creation pipeline (symbolic numbers of records, groups, buffer size, "
    "field values): DataChunk.create keeps the values; groupby is a permutation of the rows cut at the key changes "
    "(from the argsort/unique/split contracts); split_into_patches keys the groups by the patch-id column or by the "
    "nearest centre and drops the id column; process_patches hands each group to the writer of its patch once; "
    "PatchWriter keeps data.bin == header ++ received groups in arrival order for any buffer size; read_patch_data "
    "returns the file's records under the header's names; the worker task puts the split of its part on the queue "
    "once and the writer process handles every queue item once until the sentinel. The composition over chunks, "
    "parts and delivery orders is a meta-argument (DESIGN.md) backed by the bounded battery on the real library.")
TRUSTED = ["np.argsort returns a sorting permutation", "np.unique of a sorted array", "np.split / np.array_split give consecutive slices",
           "np.concatenate keeps records and order", "ndarray.tofile / np.fromfile / view round trip of float64 records",
           "scipy vq.vq returns the index of the nearest centre (C12)", "Pool.map calls the task once per part; Queue delivers every item once",
           "reader pass lemma and per-format slices (C18)"]
NOT_DECIDED = ["composition of the per-function contracts over all chunks / parts / queue orders (meta-argument + bounded battery)",
               "number of pending shards in PatchWriter > 2 (uniform treatment by append/concatenate, bounded case split)",
               "bit-identity and 'exact to rounding' of deg2rad: values are reals here", "ParquetReader row-group cache (bounded battery only)",
               "chunk-size independence of the random source: known finding F28"]
ASSUMPTIONS = []


# DataChunk.create: the unit of C09 already states the value identity (field t == input t, coordinates x pi/180 iff degrees)
unit(P, "DataChunk.create", fuc=["yaw.datachunk:DataChunk.create", "yaw.datachunk:get_array_dtype"],
     cases=[dict(w=w, z=z, p=p, degrees=d) for w in (False, True) for z in (False, True) for p in (False, True) for d in (False, True)])(_C09.u_create.fn
                                                                                                                                             if hasattr(_C09.u_create, "fn") else _C09.u_create)


def fresh_chunk(ctx, n, w, z, p, hint="chunk"):
    f = {"ra": SArr.fresh(ctx, f"{hint}.ra", (n,), "f"), "dec": SArr.fresh(ctx, f"{hint}.dec", (n,), "f")}
    if w:
        f["weights"] = SArr.fresh(ctx, f"{hint}.weights", (n,), "f")
    if z:
        f["redshifts"] = SArr.fresh(ctx, f"{hint}.redshifts", (n,), "f")
    if p:
        f["patch_ids"] = SArr.fresh(ctx, f"{hint}.patch_ids", (n,), "i")
        f["patch_ids"].dtype_name = "int16"
    for k, a in f.items():
        if k != "patch_ids":
            a.dtype_name = "float64"
    return SRec(n, f)


@unit(P, "DataChunk.pop", fuc=["yaw.datachunk:DataChunk.pop"], cases=[dict(w=w, z=z) for w in (False, True) for z in (False, True)])
def u_pop(ctx, w, z):
    """removes exactly the named column; the other columns keep names, order and values; returns the removed values"""
    D = mod("yaw.datachunk")
    n = ctx.fresh_int("n", lo=0, size=True)
    chunk = fresh_chunk(ctx, n, w, z, True)
    ctx.canary()
    new, popped = expect_no_exception(ctx, call(D.DataChunk.pop, chunk, "patch_ids"), "C02/DataChunk.pop")
    keep = [k for k in chunk.fields if k != "patch_ids"]
    ctx.check("C02/DataChunk.pop/post:remaining_fields", list(new.fields) == keep and bool(new.n == n))
    i = ctx.fresh_int("i", lo=0)
    ctx.assume(i.t < n.t, "post:arbitrary record")
    for k in keep:
        ctx.check(f"C02/DataChunk.pop/post:field_{k}_unchanged", SBool(new.fields[k]._elem(i.t) == chunk.fields[k]._elem(i.t)))
    ctx.check("C02/DataChunk.pop/post:returns_the_removed_values", SBool(popped._elem(i.t) == chunk.fields["patch_ids"]._elem(i.t)))


# ---------------------------------------------------------------------------------------------------------
# groupby
# ---------------------------------------------------------------------------------------------------------

@unit(P, "groupby", fuc=["yaw.utils.misc:groupby"], cases=[dict(w=w, z=z) for w, z in ((False, False), (True, True))],
      trusted=["np.argsort", "np.unique", "np.split"])
def u_groupby(ctx, w, z):
    """the groups are a permutation of the rows cut into runs of equal key: every row is in exactly one group at exactly one
    position, the group's key is the row's key, keys of different groups differ, field values are untouched"""
    fn = shadow.reload_function("yaw.utils.misc:groupby")
    n = ctx.fresh_int("n", lo=0, size=True)
    keys = SArr.fresh(ctx, "keys", (n,), "i")
    values = fresh_chunk(ctx, n, w, z, False, hint="values")
    ctx.inputs["n"] = ("int", n)
    ctx.canary()
    expect_no_exception(ctx, call(fn, keys, values), "C02/groupby")
    em = ctx.ghost.get("emitted", [])
    ctx.check("C02/groupby/post:yields_one_sequence_of_groups", len(em) == 1 and em[0][0] == "from")
    seq = em[0][1]
    m = vc_len(seq)
    name = "C02/groupby"
    # an arbitrary group g and position s in it
    g = ctx.fresh_int("g", lo=0)
    ctx.assume(g.t < to_term(m), "post:arbitrary group")
    key_g, grp = seq.item(g)
    ctx.check(f"{name}/post:groups_are_not_empty", vc_len(grp) >= 1)
    s = ctx.fresh_int("s", lo=0)
    ctx.assume(s.t < to_term(vc_len(grp)), "post:arbitrary member")
    # witness for the source row: recover it from the argsort ghost (sigma) through the group's offset
    perm = ctx.ghost.get("last_argsort")
    ctx.check(f"{name}/post:uses_a_sorting_permutation", perm is not None)
    sg, inv, _ = perm
    I = z3.IntSort()
    off = z3.Function("group_offset?", I, I)      # offset of group g in the sorted order: defined by its first member
    # the member s of group g is values[sigma(start_g + s)] for the start the implementation chose: state it through any field
    src = ctx.fresh_int("src", lo=0)
    # exists a source row: take the one whose sorted position is (position of the group's first record) + s
    first = ctx.ghost.get("last_unique")
    ctx.check(f"{name}/post:splits_at_the_first_index_of_every_key", first is not None)
    mu, val, start, segf = first
    row = sg(start(g.t) + s.t)
    ctx.check(f"{name}/post:member_is_an_input_row", SBool(z3.And(row >= 0, row < n.t)))
    for k in values.fields:
        ctx.check(f"{name}/post:member_field_{k}_is_the_field_of_that_row", SBool(grp.fields[k]._elem(s.t) == values.fields[k]._elem(row)))
    ctx.check(f"{name}/post:group_key_is_the_key_of_every_member", SBool(to_term(key_g) == keys._elem(row)))
    # every input row t is member (g, s) of exactly one group: g = run of its sorted position, s = offset in the run
    t = ctx.fresh_int("t", lo=0)
    ctx.assume(t.t < n.t, "post:arbitrary input row")
    pos = inv(t.t)
    gt, st = segf(pos), pos - start(segf(pos))
    ctx.check(f"{name}/post:every_row_lies_in_a_group", SBool(z3.And(gt >= 0, gt < to_term(m), st >= 0)))
    key_t, grp_t = seq.item(SNum(gt))
    ctx.check(f"{name}/post:every_row_has_a_position_in_its_group", SBool(st < to_term(vc_len(grp_t))))
    ctx.check(f"{name}/post:that_position_holds_the_row", And(*[SBool(grp_t.fields[k]._elem(st) == values.fields[k]._elem(t.t)) for k in values.fields],
                                                               SBool(to_term(key_t) == keys._elem(t.t))))
    # injectivity: two different (group, position) pairs never hold the same input row
    g2, s2 = ctx.fresh_int("g2", lo=0), ctx.fresh_int("s2", lo=0)
    ctx.assume(z3.And(g2.t < to_term(m), s2.t < start(g2.t + 1) - start(g2.t)), "post:second arbitrary member")
    ctx.check(f"{name}/post:no_row_is_stored_twice", SBool(z3.Implies(sg(start(g2.t) + s2.t) == row, z3.And(g2.t == g.t, s2.t == s.t))))
    ctx.check(f"{name}/post:group_sizes_add_up", SBool(z3.And(start(0) == 0, start(to_term(m)) == n.t)) if False else SBool(start(to_term(m)) == n.t))
    g3 = ctx.fresh_int("g3", lo=0)
    ctx.assume(z3.And(g3.t < to_term(m), g3.t != g.t), "post:another group")
    key_3, _ = seq.item(g3)
    ctx.check(f"{name}/post:keys_of_different_groups_differ", SBool(to_term(key_3) != to_term(key_g)))


# ---------------------------------------------------------------------------------------------------------
# split_into_patches (groupby under contract)
# ---------------------------------------------------------------------------------------------------------

class Grouping:
    """contract of groupby(keys, values): what u_groupby proves"""

    def __init__(self, ctx, keys, values):
        self.keys, self.values = keys, values
        n = dim_term(keys.shape[0])
        I = z3.IntSort()
        self.m = ctx.fresh_int("num_groups", lo=0, size=True)
        self.key = ctx.fresh_fn("group_key", I, I)
        self.size = ctx.fresh_fn("group_size", I, I)
        self.row = ctx.fresh_fn("group_row", I, I, I)       # (g, s) -> input row
        self.gof, self.sof = ctx.fresh_fn("row_group", I, I), ctx.fresh_fn("row_pos", I, I)
        g, s, t, h = bv("g"), bv("s"), bv("t"), bv("h")
        ke = keys._elem
        ctx.assume(forall([g], z3.Implies(z3.And(g >= 0, g < self.m.t), self.size(g) >= 1), patterns=[self.size(g)]), "contract:groupby")
        ctx.assume(forall([g, s], z3.Implies(z3.And(g >= 0, g < self.m.t, s >= 0, s < self.size(g)),
                                             z3.And(self.row(g, s) >= 0, self.row(g, s) < n, ke(self.row(g, s)) == self.key(g),
                                                    self.gof(self.row(g, s)) == g, self.sof(self.row(g, s)) == s)), patterns=[self.row(g, s)]), "contract:groupby")
        ctx.assume(forall([t], z3.Implies(z3.And(t >= 0, t < n), z3.And(self.gof(t) >= 0, self.gof(t) < self.m.t, self.sof(t) >= 0, self.sof(t) < self.size(self.gof(t)),
                                                                        self.row(self.gof(t), self.sof(t)) == t)), patterns=[self.gof(t)]), "contract:groupby")
        ctx.assume(forall([g, h], z3.Implies(z3.And(g >= 0, g < h, h < self.m.t), self.key(g) < self.key(h)), patterns=[z3.MultiPattern(self.key(g), self.key(h))]),
                   "contract:groupby")

    def pairs(self):
        def item(g):
            gt = to_term(g)
            size = SNum(self.size(gt))
            fields = {k: SArr((size,), (lambda s, _e=a._elem, _g=gt: _e(self.row(_g, s))), a.kind, dtype_name=a.dtype_name) for k, a in self.values.fields.items()}
            return (SNum(self.key(gt)), SRec(size, fields))
        return SSeq(self.m, item)


@unit(P, "split_into_patches", fuc=["yaw.catalog.catalog:split_into_patches"],
      cases=[dict(mode=m, w=w, z=z) for m in ("ids", "centres", "centres+ids") for w, z in ((False, False), (True, True))])
def u_split(ctx, mode, w, z):
    """record t goes to the group of its patch id (column value, or the id assigned from the centres); the patch_ids
    column is removed, every other field keeps its value; keys are python ints, one group per id"""
    C = mod("yaw.catalog.catalog")
    n = ctx.fresh_int("n", lo=0, size=True)
    chunk = fresh_chunk(ctx, n, w, z, mode != "centres")
    centres = None if mode == "ids" else SArr.fresh(ctx, "centres_xyz", (ctx.fresh_int("num_centres", lo=1, size=True), 3), "f")
    assigned = SArr.fresh(ctx, "assigned_ids", (n,), "i")
    log = {}

    def assign(patch_centers, ch):
        log["assign"] = (patch_centers, ch)
        return assigned

    def groupby(keys, values):
        log["groupby"] = Grouping(ctx, keys, values)
        return log["groupby"].pairs()
    name = "C02/split_into_patches"
    with Patches() as pt:
        pt.set(C, "assign_patch_centers", assign)
        pt.set(C, "groupby", groupby)
        ctx.canary()
        res = expect_no_exception(ctx, call(C.split_into_patches, chunk, centres), name)
    G = log.get("groupby")
    ctx.check(f"{name}/post:grouped_once", G is not None)
    if mode != "ids":
        ctx.check(f"{name}/post:ids_assigned_from_the_given_centres_and_the_whole_chunk", "assign" in log and log["assign"][0] is centres and log["assign"][1] is chunk)
    want_ids = chunk.fields["patch_ids"] if mode == "ids" else assigned
    keep = [k for k in chunk.fields if k != "patch_ids"]
    ctx.check(f"{name}/post:stored_fields_are_the_input_fields_without_patch_ids", list(G.values.fields) == keep and bool(G.values.n == n))
    t = ctx.fresh_int("t", lo=0)
    ctx.assume(t.t < n.t, "post:arbitrary record")
    ctx.check(f"{name}/post:grouping_key_of_record_t_is_its_patch_id", SBool(G.keys._elem(t.t) == want_ids._elem(t.t)),
              detail="with centres: the assigned id (also when the input has a patch_ids column); otherwise the column")
    for k in keep:
        ctx.check(f"{name}/post:field_{k}_of_record_t_unchanged", SBool(G.values.fields[k]._elem(t.t) == chunk.fields[k]._elem(t.t)))
    # the returned mapping is exactly the grouping, keyed by int(id)
    ctx.check(f"{name}/post:one_entry_per_group", vc_len(res) == G.m)
    g = ctx.fresh_int("g", lo=0)
    ctx.assume(g.t < G.m.t, "post:arbitrary group")
    k_g, v_g = res.items().item(g)
    ctx.check(f"{name}/post:entry_key_is_the_group_id", SBool(to_term(k_g) == G.key(g.t)))
    s = ctx.fresh_int("s", lo=0)
    ctx.assume(s.t < G.size(g.t), "post:arbitrary member")
    ctx.check(f"{name}/post:entry_value_is_the_group", And(vc_len(v_g) == SNum(G.size(g.t)), list(v_g.fields) == keep,
                                                          *[SBool(v_g.fields[k]._elem(s.t) == chunk.fields[k]._elem(G.row(g.t, s.t))) for k in keep]))


# ---------------------------------------------------------------------------------------------------------
# CatalogWriter.get_writer / process_patches
# ---------------------------------------------------------------------------------------------------------

class WriterTok:
    def __init__(self, path, chunk_info, buffersize, log):
        self.path, self.chunk_info, self.buffersize, self.log = path, chunk_info, buffersize, log
        log.append(("create", path))

    def process_chunk(self, data):
        self.log.append(("chunk", self.path, data))


@unit(P, "CatalogWriter.get_writer", fuc=["yaw.catalog.catalog:CatalogWriter.get_writer", "yaw.catalog.catalog:get_patch_path_from_id"],
      cases=[dict(prior=p) for p in ("empty", "two")])
def u_get_writer(ctx, prior):
    """returns the one writer of the patch: an existing writer is reused, a new one is created for patch_<id> under the cache
    directory with the configured buffer size and registered; other writers are untouched"""
    C = mod("yaw.catalog.catalog")
    from pyvc.containers import SymDict
    log = []
    w = C.CatalogWriter.__new__(C.CatalogWriter)
    w.cache_directory = SymPath("/cache")
    w.buffersize = ctx.fresh_int("buffersize")
    w._chunk_info = mod("yaw.datachunk").DataChunkInfo(has_weights=True)
    w.writers = SymDict()
    if prior == "two":
        w.writers[0] = WriterTok("/cache/patch_0", None, None, [])
        w.writers[3] = WriterTok("/cache/patch_3", None, None, [])
    before = dict(w.writers)
    pid = ctx.fresh_int("patch_id", lo=0, hi=32767)
    name = "C02/CatalogWriter.get_writer"
    with Patches() as pt:
        pt.set(C, "PatchWriter", lambda cache_path, *, chunk_info, buffersize: WriterTok(str(cache_path), chunk_info, buffersize, log))
        ctx.canary()
        got = expect_no_exception(ctx, call(w.get_writer, pid), name)
        known = [k for k in before if bool(SBool(pid.t == k))]
        if known:
            ctx.cover("existing")
            ctx.check(f"{name}/post:existing_writer_reused", got is before[known[0]] and not log)
        else:
            ctx.cover("new")
            ctx.check(f"{name}/post:created_once_for_this_patch", len(log) == 1 and isinstance(got, WriterTok) and got.buffersize is w.buffersize
                      and got.chunk_info is not None and got.chunk_info.has_weights and not got.chunk_info.has_patch_ids)
            ctx.check(f"{name}/post:directory_is_patch_<id>", got.path == "/cache/patch_" + format(pid, "d"),
                      detail=f"{got.path}")
            again = expect_no_exception(ctx, call(w.get_writer, pid), name)
            ctx.check(f"{name}/post:registered(second_request_returns_the_same_writer)", again is got and len(log) == 1)
        for k, v in before.items():
            ctx.check(f"{name}/post:writer_{k}_untouched", w.writers[k] is v)


@unit(P, "CatalogWriter.process_patches", fuc=["yaw.catalog.catalog:CatalogWriter.process_patches"])
def u_process_patches(ctx):
    """every (patch id, group) entry is handed exactly once to the writer of that patch id, in entry order"""
    C = mod("yaw.catalog.catalog")
    from pyvc.symmap import SymMap
    m = ctx.fresh_int("num_entries", lo=0, size=True)
    I = z3.IntSort()
    key, tag = ctx.fresh_fn("entry_key", I, I), ctx.fresh_fn("entry_data", I, I)

    class DataTok:
        def __init__(self, t):
            self.t = t
    patches = SymMap(m, lambda t: (SNum(key(to_term(t))), DataTok(SNum(tag(to_term(t))))))

    class G:
        count = 0

        def vc_havoc(self, c, name):
            self.count = c.fresh_int(name, lo=0)

        def vc_snapshot(self):
            g = G()
            g.count = self.count
            return g
    ghost = G()
    name = "C02/CatalogWriter.process_patches"

    class W:
        def __init__(self, pid):
            self.pid = pid

        def process_chunk(self, data):
            ctx.check(f"{name}/pre@process_chunk:next_entry_goes_to_the_writer_of_its_patch",
                      And(self.pid == SNum(key(to_term(ghost.count))), isinstance(data, DataTok) and data.t == SNum(tag(to_term(ghost.count)))))
            ghost.count = ghost.count + 1
    w = C.CatalogWriter.__new__(C.CatalogWriter)
    site = "yaw.catalog.catalog:CatalogWriter.process_patches#1"
    with Patches() as pt, use_loops({site: LoopSpec(inv=lambda L: ghost.count == L.j)}):
        pt.set(C.CatalogWriter, "get_writer", lambda self, pid: W(pid))
        ctx.ghost.setdefault("loop_ghosts", {})[site] = [ghost]
        ctx.canary()
        expect_no_exception(ctx, call(w.process_patches, patches), name)
    ctx.check(f"{name}/post:every_entry_delivered_exactly_once", ghost.count == m)


# ---------------------------------------------------------------------------------------------------------
# PatchWriter over the symbolic file system
# ---------------------------------------------------------------------------------------------------------

def file_records(ctx, fs, path, fields):
    """(total length term, elem(field, pos)) of the records stored after the header byte"""
    node = fs.nodes[path]
    parts = node.parts[1:]
    offs, tot = [], z3.IntVal(0)
    for p in parts:
        offs.append(tot)
        tot = z3.simplify(tot + dim_term(p[1].n))

    def elem(field, pos):
        e = None
        for k in range(len(parts) - 1, -1, -1):
            v = parts[k][1].fields[field]._elem(pos - offs[k])
            e = v if e is None else z3.If(pos < offs[k] + dim_term(parts[k][1].n), v, e)
        return e
    return tot, elem, parts


def seq_records(chunks):
    offs, tot = [], z3.IntVal(0)
    for c in chunks:
        offs.append(tot)
        tot = z3.simplify(tot + dim_term(c.n))

    def elem(field, pos):
        e = None
        for k in range(len(chunks) - 1, -1, -1):
            v = chunks[k].fields[field]._elem(pos - offs[k])
            e = v if e is None else z3.If(pos < offs[k] + dim_term(chunks[k].n), v, e)
        return e
    return tot, elem


def make_writer(ctx, w, z, pending, flushed=True):
    """a PatchWriter in an arbitrary reachable state: header (+ one blob of already flushed records) on disk, `pending` shards
    in memory.  Returns (writer, fs, received) where received is the list of chunks handed to it so far in arrival order"""
    PA = mod("yaw.catalog.patch")
    D = mod("yaw.datachunk")
    fs = SymFS(ctx)
    ctx.ghost["fs"] = fs
    fs.put_dir("/cache")
    info = D.DataChunkInfo(has_weights=w, has_redshifts=z)
    wr = expect_no_exception(ctx, call(PA.PatchWriter, SymPath("/cache/patch_7"), chunk_info=info, buffersize=ctx.fresh_int("buffersize")), "C02/PatchWriter.__init__")
    received = []
    if flushed:
        f0 = fresh_chunk(ctx, ctx.fresh_int("n_flushed", lo=1, size=True), w, z, False, hint="flushed")
        fs.nodes["/cache/patch_7/data.bin"].parts.append(("arr", f0))
        # the header is still in the python-level buffer or already on disk: both are reachable; model: flushed with the blob
        wr._file.flush()
        node = fs.nodes["/cache/patch_7/data.bin"]
        node.parts.sort(key=lambda p: 0 if p[0] == "byte" else 1)
        wr._num_processed = f0.n
        received.append(f0)
    for k in range(pending):
        s = fresh_chunk(ctx, ctx.fresh_int(f"n_shard{k}", lo=1, size=True), w, z, False, hint=f"shard{k}")
        wr._shards.append(s)
        received.append(s)
    return wr, fs, received


def check_file(ctx, name, fs, wr, received, fields, closed):
    """data.bin (+ what is still pending) == header ++ received, position by position"""
    path = "/cache/patch_7/data.bin"
    node = fs.nodes.get(path)
    ctx.check(f"{name}/post:data_file_exists", node is not None and node is not DIR)
    buffered = list(wr._file.pending) if wr._file is not None else []
    on_disk = node.parts + buffered            # the python buffer of the open file is flushed by close()/tofile()
    ctx.check(f"{name}/post:file_starts_with_the_header_byte", len(on_disk) >= 1 and on_disk[0][0] == "byte")
    ctx.check(f"{name}/post:only_record_arrays_follow", all(p[0] == "arr" and isinstance(p[1], SRec) and list(p[1].fields) == fields for p in on_disk[1:]),
              detail=str([(p[0], list(getattr(p[1], 'fields', []))) for p in on_disk[1:]]))
    stored = [p[1] for p in on_disk[1:]] + list(wr._shards)
    if closed:
        ctx.check(f"{name}/post:nothing_left_in_memory", len(wr._shards) == 0 and wr._file is None and not buffered)
    tot_s, el_s = seq_records(stored)
    tot_r, el_r = seq_records(received)
    ctx.check(f"{name}/post:number_of_records", SBool(tot_s == tot_r), detail="records on disk + pending == records received")
    q = ctx.fresh_int("q", lo=0)
    ctx.assume(q.t < tot_r, "post:arbitrary record position")
    for f in fields:
        ctx.check(f"{name}/post:record_q_field_{f}_in_arrival_order", SBool(el_s(f, q.t) == el_r(f, q.t)))
    ctx.check(f"{name}/post:num_processed_counts_the_records_on_disk", SBool(to_term(wr._num_processed) == seq_records([p[1] for p in on_disk[1:]])[0]))


FIELDSETS = [dict(w=w, z=z) for w in (False, True) for z in (False, True)]


def field_names(w, z):
    return ["ra", "dec"] + (["weights"] if w else []) + (["redshifts"] if z else [])


@unit(P, "PatchWriter.__init__", fuc=["yaw.catalog.patch:PatchWriter.__init__", "yaw.catalog.patch:PatchWriter.open", "yaw.datachunk:DataChunkInfo.to_bytes"],
      cases=FIELDSETS)
def u_pw_init(ctx, w, z):
    """creates the patch directory (which must not exist) and a data file that starts with the header byte of the field set"""
    PA = mod("yaw.catalog.patch")
    D = mod("yaw.datachunk")
    ctx.canary()
    wr, fs, _ = make_writer(ctx, w, z, 0, flushed=False)
    name = "C02/PatchWriter.__init__"
    ctx.check(f"{name}/post:directory_created", fs.is_dir("/cache/patch_7"))
    wr.close()
    parts = fs.nodes["/cache/patch_7/data.bin"].parts
    ctx.check(f"{name}/post:file_is_the_header_byte", len(parts) == 1 and parts[0][0] == "byte")
    hb = parts[0][1]
    ctx.check(f"{name}/post:header_encodes_the_field_set", bool(SBool(to_term(hb) == (3 | (4 if w else 0) | (8 if z else 0)))))
    r = call(PA.PatchWriter, SymPath("/cache/patch_7"), chunk_info=D.DataChunkInfo(has_weights=w, has_redshifts=z))
    ctx.check(f"{name}/post_exc:existing_directory_is_refused", isinstance(r, Raised) and isinstance(r.exc, FileExistsError))
    r = call(PA.PatchWriter, SymPath("/cache/patch_8"), chunk_info=D.DataChunkInfo(has_weights=w, has_redshifts=z, has_patch_ids=True))
    ctx.check(f"{name}/post_exc:patch_ids_must_be_stripped", isinstance(r, Raised) and isinstance(r.exc, ValueError))


@unit(P, "PatchWriter.process_chunk", fuc=["yaw.catalog.patch:PatchWriter.process_chunk", "yaw.catalog.patch:PatchWriter.flush", "yaw.catalog.patch:PatchWriter.cachesize"],
      cases=[dict(pending=k, flushed=f, **fs) for k in (0, 1, 2) for f in (False, True) for fs in (FIELDSETS[0], FIELDSETS[3])], kind="bounded")
def u_pw_process(ctx, pending, flushed, w, z):
    """representation invariant  data.bin ++ pending == header ++ received (arrival order)  is preserved for any record counts
    and any buffer size (flush or no flush); BOUNDED case split: 0..2 pending shards"""
    wr, fs, received = make_writer(ctx, w, z, pending, flushed)
    data = fresh_chunk(ctx, ctx.fresh_int("n_data", lo=1, size=True), w, z, False, hint="data")
    name = "C02/PatchWriter.process_chunk"
    ctx.canary()
    expect_no_exception(ctx, call(wr.process_chunk, data), name)
    check_file(ctx, name, fs, wr, received + [data], field_names(w, z), closed=False)
    bad = fresh_chunk(ctx, ctx.fresh_int("n_bad", lo=1, size=True), w, z, True, hint="bad")
    r = call(wr.process_chunk, bad)
    ctx.check(f"{name}/post_exc:chunk_with_patch_ids_refused", isinstance(r, Raised) and isinstance(r.exc, ValueError))


@unit(P, "PatchWriter.close", fuc=["yaw.catalog.patch:PatchWriter.close", "yaw.catalog.patch:PatchWriter.flush", "yaw.catalog.patch:PatchWriter.__exit__"],
      cases=[dict(pending=k, flushed=f, **fs) for k in (0, 1, 2) for f in (False, True) for fs in (FIELDSETS[0], FIELDSETS[3])], kind="bounded")
def u_pw_close(ctx, pending, flushed, w, z):
    """after close everything received is on disk in arrival order and nothing is pending; BOUNDED: 0..2 pending shards"""
    wr, fs, received = make_writer(ctx, w, z, pending, flushed)
    name = "C02/PatchWriter.close"
    ctx.canary()
    expect_no_exception(ctx, call(wr.__exit__, None, None, None), name)
    check_file(ctx, name, fs, wr, received, field_names(w, z), closed=True)
    ctx.check(f"{name}/post:no_open_file", not fs.open_files)


@unit(P, "read_patch_data", fuc=["yaw.catalog.patch:read_patch_data", "yaw.datachunk:DataChunkInfo.from_bytes", "yaw.datachunk:DataChunkInfo.get_list",
                                "yaw.catalog.patch:Patch.load_data"], cases=FIELDSETS)
def u_read(ctx, w, z):
    """what a PatchWriter wrote (two flushes) is read back record by record under the same field names; the file is not modified"""
    PA = mod("yaw.catalog.patch")
    wr, fs, received = make_writer(ctx, w, z, 1, flushed=True)
    wr.close()
    before = list(fs.nodes["/cache/patch_7/data.bin"].parts)
    effects_before = len(fs.effects) if hasattr(fs, "effects") else None
    name = "C02/read_patch_data"
    ctx.canary()
    info, data = expect_no_exception(ctx, call(PA.read_patch_data, SymPath("/cache/patch_7/data.bin")), name)
    fields = field_names(w, z)
    ctx.check(f"{name}/post:field_set_from_the_header", info.has_weights == w and info.has_redshifts == z and not info.has_patch_ids and list(data.fields) == fields)
    tot, el = seq_records(received)
    ctx.check(f"{name}/post:all_records", SBool(dim_term(data.n) == tot))
    q = ctx.fresh_int("q", lo=0)
    ctx.assume(q.t < tot, "post:arbitrary record")
    for f in fields:
        ctx.check(f"{name}/post:record_q_field_{f}", SBool(data.fields[f]._elem(q.t) == el(f, q.t)))
    ctx.check(f"{name}/post:file_not_modified", fs.nodes["/cache/patch_7/data.bin"].parts == before)
    p = PA.Patch.__new__(PA.Patch)
    p.cache_path = SymPath("/cache/patch_7")
    d2 = expect_no_exception(ctx, call(p.load_data), "C02/Patch.load_data")
    ctx.check("C02/Patch.load_data/post:the_records_of_the_file", list(d2.fields) == fields and bool(SBool(dim_term(d2.n) == tot))
              and all(bool(SBool(d2.fields[f]._elem(q.t) == el(f, q.t))) for f in fields))


# ---------------------------------------------------------------------------------------------------------
# workers and the writer process
# ---------------------------------------------------------------------------------------------------------

@unit(P, "ChunkProcessingTask.__call__", fuc=["yaw.catalog.catalog:ChunkProcessingTask.__call__", "yaw.catalog.catalog:ChunkProcessingTask.__init__"],
      cases=[dict(centres=c) for c in (False, True)])
def u_task(ctx, centres):
    """a worker splits exactly the part it was given, with the 3-d form of the given centres, and puts the result on the queue once"""
    C = mod("yaw.catalog.catalog")
    CO = mod("yaw.coordinates")
    puts, splits = [], []

    class Q:
        def put(self, item):
            puts.append(item)
    cen = None
    if centres:
        cen = CO.AngularCoordinates.__new__(CO.AngularCoordinates)
        cen.data = SArr.fresh(ctx, "centres", (ctx.fresh_int("num_centres", lo=1, size=True), 2), "f")
    with Patches() as pt:
        pt.set(CO.AngularCoordinates, "to_3d", lambda self: ("XYZ", self))
        pt.set(C, "split_into_patches", lambda chunk, pc: splits.append((chunk, pc)) or ("PATCHES", chunk))
        ctx.canary()
        task = expect_no_exception(ctx, call(C.ChunkProcessingTask, Q(), cen), "C02/ChunkProcessingTask.__init__")
        part = object()
        expect_no_exception(ctx, call(task, part), "C02/ChunkProcessingTask.__call__")
    name = "C02/ChunkProcessingTask.__call__"
    ctx.check(f"{name}/post:splits_its_part_once", len(splits) == 1 and splits[0][0] is part)
    ctx.check(f"{name}/post:with_the_given_centres", (splits[0][1] is None) if not centres else (splits[0][1] == ("XYZ", cen)))
    ctx.check(f"{name}/post:puts_the_result_once", len(puts) == 1 and puts[0] == ("PATCHES", part))


@unit(P, "WriterProcess.task", fuc=["yaw.catalog.catalog:WriterProcess.task"])
def u_writer_task(ctx):
    """every item taken from the queue before the sentinel is processed exactly once, in the order taken; the writer is
    finalised after the sentinel (Queue contract: get() returns every item put, each once; the order is arbitrary)"""
    C = mod("yaw.catalog.catalog")
    PAR = mod("yaw.utils.parallel")
    K = ctx.fresh_int("items_before_the_sentinel", lo=0, size=True)
    log = dict(finalized=0, entered=0)

    class G:
        got = 0
        done = 0

        def vc_havoc(self, c, name):
            self.got, self.done = c.fresh_int(name + "_got", lo=0), c.fresh_int(name + "_done", lo=0)

        def vc_snapshot(self):
            g = G()
            g.got, g.done = self.got, self.done
            return g
    ghost = G()

    class Q:
        def get(self):
            k = ghost.got
            ghost.got = ghost.got + 1
            if bool(k == K):
                return PAR.EndOfQueue
            ctx.check("C02/WriterProcess.task/pre@get:no_get_after_the_sentinel", k < K)
            return ("ITEM", k)

    class WriterCls(C.CatalogWriter):
        def __init__(self, cache_directory, *, chunk_info, overwrite=True, buffersize=-1):
            self.writers = {}
            log["args"] = (cache_directory, chunk_info, overwrite, buffersize)

        def process_patches(self, patches):
            ctx.check("C02/WriterProcess.task/pre@process_patches:the_item_just_taken", patches[0] == "ITEM" and patches[1] == ghost.done and ghost.done + 1 == ghost.got)
            ghost.done = ghost.done + 1

        def finalize(self):
            log["finalized"] += 1
            log["done_at_finalize"] = ghost.done
    wp = C.WriterProcess.__new__(C.WriterProcess)
    wp.patch_queue, wp.cache_directory, wp.chunk_info, wp.overwrite, wp.buffersize = Q(), "/cache", "INFO", True, ctx.fresh_int("buffersize")
    site = "yaw.catalog.catalog:WriterProcess.task#1"
    name = "C02/WriterProcess.task"
    with Patches() as pt, use_loops({site: LoopSpec(inv=lambda L: And(ghost.done == ghost.got, ghost.got <= K, log["finalized"] == 0),
                                                    fresh={"patches": lambda L: ("ITEM", "?")})}):
        pt.set(C, "CatalogWriter", WriterCls)
        ctx.ghost.setdefault("loop_ghosts", {})[site] = [ghost]
        ctx.canary()
        expect_no_exception(ctx, call(wp.task), name)
    ctx.check(f"{name}/post:all_items_processed_then_finalised_once", And(log["finalized"] == 1, log.get("done_at_finalize") == K))
    ctx.check(f"{name}/post:writer_configured_as_requested", log["args"][0] == "/cache" and log["args"][1] == "INFO" and log["args"][2] is True and log["args"][3] is wp.buffersize)


@unit(P, "write_patches.parts", fuc=["yaw.catalog.catalog:write_patches"], trusted=["np.array_split", "Pool.map"])
def u_write_patches(ctx):
    """every chunk of the reader is split into max_workers parts with np.array_split and every part is mapped through the
    worker task; nothing else reaches the queue before the sentinel, which is put last"""
    C = mod("yaw.catalog.catalog")
    reader = _C09.ChunkStream(ctx)
    mp = _C09.MP(ctx)
    W = ctx.fresh_int("max_workers", lo=2, size=True)
    maps = []

    class G:
        count = 0

        def vc_havoc(self, c, name):
            self.count = c.fresh_int(name, lo=0)

        def vc_snapshot(self):
            g = G()
            g.count = self.count
            return g
    ghost = G()
    name = "C02/write_patches"
    orig_pool = mp.Pool

    def Pool(n):
        pl = orig_pool(n)

        def map_(fn, parts):
            ctx.check(f"{name}/pre@map:the_parts_of_the_next_chunk", isinstance(parts, tuple) and parts[0] == "SPLIT" and parts[1][1] == ghost.count and parts[2] is W)
            ctx.check(f"{name}/pre@map:through_the_worker_task", isinstance(fn, C.ChunkProcessingTask))
            ghost.count = ghost.count + 1
        pl.map = map_
        return pl
    mp.Pool = Pool
    mp.child_failed = SBool(z3.BoolVal(False))
    site = "yaw.catalog.catalog:write_patches#1"
    import types
    np_stub = types.SimpleNamespace(array_split=lambda chunk, k: ("SPLIT", chunk, k))
    with Patches() as pt, use_loops({site: LoopSpec(inv=lambda L: And(ghost.count == L.j, not mp.sentinel_sent))}):
        pt.set(C, "multiprocessing", mp)
        pt.set(C, "np", np_stub)
        pt.set(C.parallel, "get_size", lambda mw=None: W)
        pt.set(C, "ChunkProcessingTask", type("Task", (C.ChunkProcessingTask,), {"__init__": lambda self, q, pc: setattr(self, "patch_queue", q)}))
        ctx.ghost.setdefault("loop_ghosts", {})[site] = [ghost]
        ctx.canary()
        pt.set(C, "Indicator", _C09.indicator_stub(ctx, reader, name))
        expect_no_exception(ctx, call(C.write_patches, "/cache", reader, None, overwrite=True, progress=ctx.fresh_bool("progress"), max_workers=W), name)
    ctx.check(f"{name}/post:every_chunk_mapped_once", ghost.count == reader.K)
    ctx.check(f"{name}/post:sentinel_put_last_and_only_by_the_parent", mp.sentinel_sent and len(mp.queue_puts) == 1)


# ---------------------------------------------------------------------------------------------------------
# progress display on or off: the indicator is transparent
# ---------------------------------------------------------------------------------------------------------

@unit(P, "Indicator.__iter__", fuc=["yaw.utils.logging:Indicator.__iter__", "yaw.utils.logging:Indicator.__init__"], cases=[dict(root=r) for r in (True, False)])
def u_indicator(ctx, root):
    """the progress indicator yields exactly the items of the wrapped iterable, each once and in order (on the root with display,
    elsewhere without), so switching the progress display on changes nothing that is stored or counted"""
    LG = mod("yaw.utils.logging")
    fn = shadow.reload_function("yaw.utils.logging:Indicator.__iter__")
    K = ctx.fresh_int("num_items", lo=0, size=True)
    items = SSeq(K, lambda t: ("ITEM", t))
    log = []

    class G:
        count = 0

        def vc_havoc(self, c, n_):
            self.count = c.fresh_int(n_, lo=0)

        def vc_snapshot(self):
            g = G()
            g.count = self.count
            return g
    ghost = G()

    class Printer:
        def __init__(self, *a, **k):
            pass

        def start(self):
            log.append("start")

        def display(self, *a):
            pass

        def close(self, *a):
            log.append("close")

    def on_emit(v):
        ctx.check("C02/Indicator/pre@yield:the_next_item_of_the_iterable", v[0] == "ITEM" and bool(v[1] == ghost.count))
        ghost.count = ghost.count + 1
    name = "C02/Indicator.__iter__"
    from pyvc.unit import find_site
    with Patches() as pt:
        pt.set(LG, "on_root", lambda *a, **k: root)
        if hasattr(LG, "on_worker"):
            pt.set(LG, "on_worker", lambda *a, **k: not root)
        pt.set(LG, "ProgressPrinter", Printer)
        # (without a total the display uses NaN fractions, outside the real-number model: a total is given, as at the call sites)
        ind = expect_no_exception(ctx, call(LG.Indicator, items, ctx.fresh_int("total", lo=1)), "C02/Indicator.__init__")
        ctx.check("C02/Indicator.__init__/post:wraps_the_iterable_itself", ind.iterable is items)
        ctx.canary()
        if root:
            site = find_site("yaw.utils.logging:Indicator.__iter__", "self.iterable")
            ctx.ghost["emit_hook"] = on_emit
            ctx.ghost.setdefault("loop_ghosts", {})[site] = [ghost]
            with use_loops({site: LoopSpec(inv=lambda L: And(ghost.count == L.j, L.i == L.j), fresh={"item": lambda L: ("ITEM", "?")})}):
                expect_no_exception(ctx, call(fn, ind), name)
            ctx.check(f"{name}/post:every_item_yielded_once_in_order", ghost.count == K)
        else:
            seen = []
            ctx.ghost["emit_from_hook"] = lambda it: seen.append(it)
            expect_no_exception(ctx, call(fn, ind), name)
            ctx.check(f"{name}/post:delegates_to_the_iterable", seen == [items])


# ---------------------------------------------------------------------------------------------------------
# bounded stand-in and replay on the real library
# ---------------------------------------------------------------------------------------------------------

_BAT = {}


def _battery(quick):
    if quick not in _BAT:
        import warnings
        from bounded import c02_records
        with warnings.catch_warnings():
            warnings.simplefilter("ignore")
            _BAT[quick] = c02_records.battery(quick)
    return _BAT[quick]


KNOWN_BOUNDED = {"random[chunk size independence]"}


def replay_witness(unit_name, case, ob):
    fails = [(n, d) for n, ok, d in _battery(True) if not ok and n not in KNOWN_BOUNDED]
    return {"reproduced": bool(fails), "failed_cases": [f"{n}: {d}" for n, d in fails][:8],
            "note": "catalogs created by the real library (data frame / files / random source, several chunk sizes and worker counts); records compared as multisets"}


def bounded(opts):
    import time
    t0 = time.time()
    quick = opts.get("tier", "quick") == "quick"
    res = _battery(quick)
    fails = [(n, d) for n, ok, d in res if not ok]
    return dict(kind="bounded", bound="real library: data frames with lengths {c-1, c, c+1, 2c, 2c+1, 3c-1} for chunk sizes c in {1, 7, 64} (thorough: + 2), patch ids / "
                "given centres / generated centres, optional column sets, int/float32 columns, radian input; 1, 2, 4 workers (thorough: + 3); FITS, HDF5, Parquet "
                "(row groups of 50) with chunk sizes around the row-group size and the length; random source with 1 and 2 workers and two chunk sizes; per-patch "
                "multisets compared with the input, reopened catalog compared too",
                evaluations=len(res), distinct_nontrivial=len(res), violations=[dict(id=f"bounded:{n}", detail=d) for n, d in fails][:12],
                samples=[n for n, _, _ in res[:3]], wall_s=round(time.time() - t0, 2), note="real library; labelled bounded, not counted as proved")


# the unit flag (degrees / radian), the column names and the chunk size given to a catalog constructor reach the reader
# (the C18 unit on the reader constructors, run here as well: a lost `degrees=` converts radian input a second time)
def _register_shared():
    from . import C18 as _C18
    from . import C12 as _C12
    # "with patch centres each record goes to its nearest centre": the id of a record is what the nearest-centre search returns for
    # exactly that record (C12 unit)
    unit(P, "assign_patch_centers", fuc=["yaw.catalog.catalog:assign_patch_centers", "yaw.datachunk:DataChunk.get_coords"], trusted=["vq.vq"])(_C12.u_assign)
    # sequential creation: every chunk of the reader is split and handed to the writer exactly once, progress display on or off
    unit(P, "write_patches_unthreaded", fuc=["yaw.catalog.catalog:write_patches_unthreaded"])(_C09.u_unthreaded)
    unit(P, "Reader.__init__", fuc=["yaw.catalog.readers:DataReader.__init__", "yaw.catalog.readers:DataFrameReader.__init__", "yaw.catalog.readers:FitsReader.__init__",
                                    "yaw.catalog.readers:HDFReader.__init__", "yaw.catalog.readers:ParquetReader.__init__"],
         cases=[dict(cls=c, given=True, degrees=d, opt=o) for c in ("DataFrameReader", "FitsReader", "HDFReader", "ParquetReader") for d in (False, True) for o in (False, True)])(_C18.u_reader_init)


# _register_shared() is called by the driver after this module is fully imported (no import cycles)



# the public constructors forward every argument to the layer that uses it (C18 unit, run here as well)
def _register_shared_args():
    from . import C18 as _C18
    from . import C05 as _C05
    # the (re)opened catalog: patch id i is the patch stored in directory patch_<i>, for every order in which the patches are loaded
    unit(P, "load_patches", fuc=["yaw.catalog.catalog:load_patches", "yaw.catalog.catalog:get_id_from_patch_path"],
         cases=[dict(centers=False), dict(centers=True), dict(centers="catalog")], trusted=["iter_unordered contract"])(_C05.u_load_patches)
    unit(P, "Catalog.from_*.arguments", fuc=["yaw.catalog.catalog:Catalog.from_dataframe", "yaw.catalog.catalog:Catalog.from_file", "yaw.catalog.catalog:Catalog.from_random"],
         cases=[dict(which=w, mode=m) for w in ("from_dataframe", "from_file", "from_random") for m in ("apply", "divide", "create", "apply+num", "divide+num") if not (w == "from_random" and m.startswith("divide"))])(_C18.u_from_args)


# _register_shared_args() is called by the driver after this module is fully imported (no import cycles)


# "with patch indices to the patch named": which of the three patch definitions is used when several are given (C09 unit)
def _register_shared_round9():
    unit(P, "PatchMode.determine", fuc=["yaw.catalog.catalog:PatchMode.determine", "yaw.catalog.catalog:get_patch_centers"],
         cases=[dict(c=c, nm=nm, num=num) for c in (False, True) for nm in (False, True) for num in (False, True)])(_C09.u_determine)


# _register_shared_round9() is called by the driver after this module is fully imported (no import cycles)


# "a catalog reopened from its cache directory holds the same records": the list of patch ids the writer stores is what the reader finds
# (sorted, complete) - the C08 unit on CatalogWriter.finalize / read_patch_ids without a crash, run here as well
def _register_shared_ids():
    from . import C08 as _C08
    unit(P, "CatalogWriter.finalize", fuc=["yaw.catalog.catalog:CatalogWriter.finalize", "yaw.catalog.catalog:read_patch_ids"],
         cases=[dict(K=k, empty=False, fail=False) for k in (1, 2, 3)], kind="bounded")(_C08.u_finalize)


# _register_shared_ids() is called by the driver after this module is fully imported (no import cycles)
