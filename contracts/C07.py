"""C07 - measurements are independent of what was cached before.

Proof structure (DESIGN §8 C07):
  (1) BinnedTrees.build.post, for every prior cache state satisfying Inv_trees (none / unbinned / binned-left /
      binned-right with arbitrary edges / trees without marker / stale temp file) x every request (unbinned / binned
      left / right with arbitrary edges) x force in {True, False}:
        afterwards the marker decodes to the *requested* binning, trees.pkl is pickle(Trees(data, requested)),
        Inv_trees holds, data.bin and meta.yml are untouched, no other file remains.
  (2) reader side: BinnedTrees.__init__ decodes exactly what the marker encodes (the encoding is injective, unbinned is
      distinct from every binning), binning_equal is true iff both unbinned or edges and closed side equal,
      .trees loads the pickle, iteration yields the per-bin trees / repeats the single tree.
  (3) history lemma (induction over the sequence of cache-mutating operations, stated here, steps = (1)): Inv_trees holds
      for a fresh catalog (no marker) and is preserved by every build; no operation changes data.bin. Hence the trees a
      measurement reads after ANY history are Trees(data, configured binning) - a function of records and configuration.
  (4) autocorrelate / crosscorrelate request exactly the configured binning for binned catalogs and None for unbinned.
"""
from __future__ import annotations

import z3

from pyvc import core, shadow
from pyvc.core import SNum, SBool, Ctx, EndPath, to_term, tob
from pyvc.arrays import SArr, bv, forall, dim_term
from pyvc.fsmodel_sym import DIR
from .common import And, Or, Implies, Not, ForAll, mod, unit, call, Raised, expect_no_exception, fail, Patches
from . import trees_cache as TC

P = "C07"
EXPLANATION = (
    "Deductive over a symbolic file system: BinnedTrees.build/__init__/binning_equal/trees/__iter__ and the tree-building "
    "calls of autocorrelate/crosscorrelate are re-read from the current source; build is executed from every class of "
    "prior cache state with symbolic (arbitrary) old and requested bin edges and must re-establish the cache invariant "
    "for the requested binning; with the invariant inductive over all cache-mutating operations, what a measurement "
    "reads is a function of records and configuration only.")
TRUSTED = ["pickle.dump/load round trip is the identity", "ndarray.tofile / np.fromfile round trip is the identity",
           "build_trees contract Trees(data, binning) (proved in C10); tree contents do not depend on leafsize (KD-tree contract)"]
NOT_DECIDED = ["bit-identical floating-point results of the KD-tree for different leaf sizes"]
ASSUMPTIONS = []

CASES = [dict(prior=p, request=r) for p in TC.PRIORS for r in TC.REQUESTS]


def run_build(ctx, prior, request, crash_hook=None, name="C07/BinnedTrees.build"):
    T = mod("yaw.catalog.trees")
    fs, patch, old, req = TC.setup(ctx, prior, request)
    force = ctx.fresh_bool("force")
    calls = []

    def build_trees_stub(p, binning, *, leafsize):
        calls.append((p, binning, leafsize))
        return TC.TreesTok(binning)
    before = fs.snapshot()
    with Patches() as pt:
        pt.set(T, "build_trees", build_trees_stub)
        ctx.canary()
        fs.crash_hook = crash_hook
        res = call(T.BinnedTrees.build.__func__, T.BinnedTrees, patch, req, leafsize=ctx.fresh_int("leafsize", lo=1), force=force)
        fs.crash_hook = None
    return fs, patch, old, req, force, calls, before, res


@unit(P, "BinnedTrees.build", fuc=["yaw.catalog.trees:BinnedTrees.build", "yaw.catalog.trees:BinnedTrees.__init__",
                                  "yaw.catalog.trees:BinnedTrees.binning_equal", "yaw.catalog.trees:BinnedTrees.binning_file",
                                  "yaw.catalog.trees:BinnedTrees.trees_file", "yaw.catalog.trees:BinnedTrees.cache_path"], cases=CASES)
def u_build(ctx, prior, request):
    name = "C07/BinnedTrees.build"
    fs, patch, old, req, force, calls, before, res = run_build(ctx, prior, request)
    res = expect_no_exception(ctx, res, name)
    after = fs.snapshot()
    # (a) the cache now belongs to the requested binning
    marker = after.get(TC.D + "/binning")
    ctx.check(f"{name}/post:marker_present", marker is not None and marker is not DIR)
    trees = after.get(TC.D + "/trees.pkl")
    ok = trees is not None and trees is not DIR and len(trees.parts) == 1 and trees.parts[0][0] == "pickle" and isinstance(trees.parts[0][1], TC.TreesTok)
    ctx.check(f"{name}/post:trees_file_is_a_complete_pickle_of_trees", ok)
    if ok:
        ctx.check(f"{name}/post:cached_trees_are_those_of_the_requested_binning", TC.same_binning(trees.parts[0][1].binning, req),
                  detail="after build(patch, B) the cache must hold Trees(data, B) whatever was cached before")
    TC.inv_trees(after, name, ctx, "post:Inv_trees")
    if marker is not None and marker is not DIR:
        okm, dec = TC.decode_marker(marker.parts)
        if okm:
            byte, edges = dec
            from pyvc.builtins_shim import vc_len
            if req is None:
                ctx.check(f"{name}/post:marker_encodes_the_request", vc_len(edges) == 0)
            else:
                t = bv("t")
                ctx.check(f"{name}/post:marker_encodes_the_request", And(
                    int(byte) == (1 if str(req.closed) == "left" else 0), vc_len(edges) == req.edges.shape[0],
                    SBool(z3.ForAll([t], z3.Implies(z3.And(t >= 0, t < dim_term(req.edges.shape[0])), edges._elem(t) == req.edges._elem(t))))))
    ctx.check(f"{name}/post:result_object", TC.same_binning(res.binning, req) and res._patch is patch)
    # (b) rebuild exactly when needed, with the requested binning
    reusable = prior in ("unbinned", "left", "right")
    if calls:
        ctx.check(f"{name}/post:trees_built_once_for_the_request", len(calls) == 1 and calls[0][0] is patch and calls[0][1] is req)
    else:
        # (whether `force` is honoured does not matter for the property: a consistent cache gives the same trees)
        ctx.check(f"{name}/post:reuse_only_of_a_valid_cache_for_the_same_binning", And(reusable, TC.same_binning(old, req)))
        ctx.check(f"{name}/frame:reuse_touches_nothing", len(fs.effects) == 0)
    # (c) frame
    for keep in ("/data.bin", "/meta.yml"):
        ctx.check(f"{name}/frame:{keep[1:]}_untouched", after.get(TC.D + keep) is not None and after[TC.D + keep].parts == before[TC.D + keep].parts)
    extra = sorted(p for p in after if p.startswith(TC.D + "/") and p not in (TC.D + "/data.bin", TC.D + "/meta.yml", TC.D + "/binning", TC.D + "/trees.pkl")
                   and not (prior == "stale_tmp" and not calls))
    ctx.check(f"{name}/post:no_temporary_file_remains", extra == [], detail=str(extra))
    ctx.check(f"{name}/frame:only_the_patch_directory", all(e[1].startswith(TC.D + "/") for e in fs.effects))


@unit(P, "BinnedTrees.read_side", fuc=["yaw.catalog.trees:BinnedTrees.__init__", "yaw.catalog.trees:BinnedTrees.trees",
                                      "yaw.catalog.trees:BinnedTrees.__iter__", "yaw.catalog.trees:BinnedTrees.is_binned",
                                      "yaw.catalog.trees:BinnedTrees.binning_equal", "yaw.catalog.trees:BinnedTrees.num_bins"],
      cases=[dict(prior=p) for p in ("none", "unbinned", "left", "right")])
def u_read(ctx, prior):
    """decoding is the inverse of the encoding written by build; unbinned differs from every binning"""
    T = mod("yaw.catalog.trees")
    fs, patch, old, _ = TC.setup(ctx, prior, "unbinned")
    name = "C07/BinnedTrees.__init__"
    ctx.canary()
    res = call(T.BinnedTrees, patch)
    if prior == "none":
        ctx.check(f"{name}/post_exc[FileNotFoundError]:no_marker", isinstance(res, Raised) and isinstance(res.exc, FileNotFoundError))
        return
    res = expect_no_exception(ctx, res, name)
    ctx.check(f"{name}/post:decodes_the_marked_binning", TC.same_binning(res.binning, old))
    ctx.check("C07/BinnedTrees.is_binned/post", res.is_binned() == (old is not None))
    other = TC.make_binning(ctx, "left", "other")
    eq = expect_no_exception(ctx, call(lambda: bool(res.binning_equal(other))), "C07/BinnedTrees.binning_equal")
    ctx.check("C07/BinnedTrees.binning_equal/post:true_iff_same_edges_and_closed_side", TC.same_binning(old, other) if eq else Not(TC.same_binning(old, other)))
    eq0 = expect_no_exception(ctx, call(lambda: bool(res.binning_equal(None))), "C07/BinnedTrees.binning_equal")
    ctx.check("C07/BinnedTrees.binning_equal/post:unbinned_only_equals_unbinned", eq0 == (old is None))
    loaded = expect_no_exception(ctx, call(lambda: res.trees), "C07/BinnedTrees.trees")
    ctx.check("C07/BinnedTrees.trees/post:loads_the_cached_object", isinstance(loaded, TC.TreesTok) and loaded.binning is old)
    ctx.check("C07/BinnedTrees/frame:reading_has_no_effect", len(fs.effects) == 0)


@unit(P, "BinnedTrees.__iter__", fuc=["yaw.catalog.trees:BinnedTrees.__iter__"], cases=[dict(binned=False), dict(binned=True)])
def u_iter(ctx, binned):
    """binned: yields the cached per-bin trees in order; unbinned: repeats the single cached tree"""
    T = mod("yaw.catalog.trees")
    fn = shadow.reload_function("yaw.catalog.trees:BinnedTrees.__iter__", yield_to_emit=True)
    bt = T.BinnedTrees.__new__(T.BinnedTrees)
    froms = []
    ctx.ghost["emit_from_hook"] = lambda it: froms.append(it)
    cached = ("T0", "T1", "T2") if binned else "SINGLE"
    with Patches() as pt:
        pt.set(T.BinnedTrees, "trees", property(lambda self: cached))
        pt.set(T.BinnedTrees, "is_binned", lambda self: binned)
        ctx.canary()
        expect_no_exception(ctx, call(fn, bt), "C07/BinnedTrees.__iter__")
    from pyvc.builtins_shim import SRepeat
    if binned:
        ctx.check("C07/BinnedTrees.__iter__/post:yields_the_cached_trees_in_order", len(froms) == 1 and froms[0] is cached)
    else:
        ctx.check("C07/BinnedTrees.__iter__/post:repeats_the_single_tree", len(froms) == 1 and isinstance(froms[0], SRepeat) and froms[0].obj is cached)


@unit(P, "correlate.requests", fuc=["yaw.correlation.measurements:autocorrelate", "yaw.correlation.measurements:crosscorrelate"],
      cases=[dict(fn="auto", rr=True), dict(fn="auto", rr=False), dict(fn="cross", rand="ref"), dict(fn="cross", rand="unk"),
             dict(fn="cross", rand="both")])
def u_requests(ctx, fn, rr=None, rand=None):
    """the tree builds a measurement issues: the configured (edges, closed) for binned catalogs, None for unbinned ones,
    never `force`; every catalog that takes part is (re)built before any pair is counted"""
    M = mod("yaw.correlation.measurements")
    log = []

    class Cat:
        def __init__(self, tag):
            self.tag = tag

        def build_trees(self, binning=None, *, closed="right", leafsize=16, force=False, progress=False, max_workers=None):
            log.append(("build", self.tag, binning, closed, force))

    class Links:
        def count_pairs(self, *cats, **kw):
            log.append(("count", tuple(c.tag for c in cats)))
            return ["C"]

        def count_pairs_optional(self, *cats, **kw):
            log.append(("count", tuple(getattr(c, "tag", None) for c in cats)))
            return ["C"] if all(c is not None for c in cats) else [None]

    class Cfg:
        class binning:
            edges, closed = "EDGES", "CLOSED"

        class scales:
            num_scales, rweight = 1, None
        max_workers = None
    with Patches() as pt:
        pt.set(M.PatchLinkage, "from_catalogs", classmethod(lambda cls, config, *cats: log.append(("link", tuple(c.tag for c in cats))) or Links()))
        pt.set(M, "CorrFunc", lambda *a: ("CF",) + a)
        ctx.canary()
        if fn == "auto":
            res = expect_no_exception(ctx, call(M.autocorrelate, Cfg, Cat("data"), Cat("rand"), count_rr=rr), "C07/autocorrelate")
            binned, unbinned = {"data", "rand"}, set()
        else:
            kw = dict(ref_rand=Cat("ref_rand") if rand in ("ref", "both") else None, unk_rand=Cat("unk_rand") if rand in ("unk", "both") else None)
            res = expect_no_exception(ctx, call(M.crosscorrelate, Cfg, Cat("ref"), Cat("unk"), **kw), "C07/crosscorrelate")
            binned = {"ref"} | ({"ref_rand"} if kw["ref_rand"] else set())
            unbinned = {"unk"} | ({"unk_rand"} if kw["unk_rand"] else set())
    name = f"C07/{'autocorrelate' if fn == 'auto' else 'crosscorrelate'}"
    builds = [e for e in log if e[0] == "build"]
    ctx.check(f"{name}/post:binned_catalogs_built_with_the_configured_binning",
              {e[1] for e in builds if e[2] == "EDGES" and e[3] == "CLOSED"} == binned)
    ctx.check(f"{name}/post:unbinned_catalogs_built_without_binning", {e[1] for e in builds if e[2] is None} == unbinned)
    ctx.check(f"{name}/post:every_participating_catalog_built_once", sorted(e[1] for e in builds) == sorted(binned | unbinned))
    ctx.check(f"{name}/post:never_forced", all(e[4] is False for e in builds))
    first_count = min([k for k, e in enumerate(log) if e[0] in ("count", "link")] or [len(log)])
    ctx.check(f"{name}/post:all_builds_before_linking_and_counting", all(k < first_count for k, e in enumerate(log) if e[0] == "build"))



def _register_shared():
    """the per-patch reuse decision is only reached if the catalog dispatches a build for every patch on *every* call: the C05
    unit on Catalog.build_trees, with its repeated-call cases, is part of this property"""
    from . import C05 as _C05
    unit(P, "Catalog.build_trees", fuc=["yaw.catalog.catalog:Catalog.build_trees"],
         cases=[dict(binned=b, repeated=r) for b in (False, True) for r in (False, True)], trusted=["iter_unordered contract"])(_C05.u_cat_build_trees)


# _register_shared() is called by the driver after this module is fully imported (no import cycles)

# ---------------------------------------------------------------------------------------------------------
# bounded stand-in / replay: real histories on real cache directories
# ---------------------------------------------------------------------------------------------------------

def _histories(max_len=2):
    import itertools
    ops = ["other_edges", "other_closed", "same", "unbinned", "forced_other", "reopen", "other_scales_measurement"]
    out = [()]
    for k in range(1, max_len + 1):
        out += list(itertools.product(ops, repeat=k))
    # the same catalog objects measure, the caches are rebuilt through *other* handles of the same directories, the first
    # objects measure again: nothing remembered in an object may stand in for the state of the cache
    out += [("measure_same", "other_handle_other_edges"), ("measure_same", "other_handle_unbinned"), ("same", "other_handle_other_edges")]
    # trees cached for edges that differ from the requested ones only in the sixth digit (records lie between the two edges)
    out += [("nearly_same_edges",)]
    # an earlier *measurement* in the same process with the same number of bins but other edges / the other closed side: what the
    # process loaded then must not be used now
    out += [("same_count_measurement",), ("same_count_measurement", "other_closed")]
    return out


def _run_histories(max_len=2, limit=None):
    import os
    import shutil
    import tempfile
    import numpy as np
    import pandas as pd
    import yaw
    os.environ["YAW_NUM_THREADS"] = "1"
    tmp = tempfile.mkdtemp(prefix="c07bounded")
    viol, evals = [], 0
    try:
        rng = np.random.default_rng(3)
        n = 240
        df = pd.DataFrame(dict(ra=rng.uniform(0, 4, n), dec=rng.uniform(-2, 2, n), z=rng.choice([0.1, 0.25, 0.4, 0.55, 0.7, 0.9], n),
                               w=rng.uniform(0.5, 2, n), pid=rng.integers(0, 3, n)))
        cfg = yaw.Configuration.create(rmin=200, rmax=5000, edges=[0.1, 0.4, 0.7, 1.0], closed="right")

        def fresh(tag):
            ref = yaw.Catalog.from_dataframe(f"{tmp}/{tag}_ref", df, ra_name="ra", dec_name="dec", redshift_name="z", weight_name="w", patch_name="pid")
            unk = yaw.Catalog.from_dataframe(f"{tmp}/{tag}_unk", df.sample(frac=1, random_state=1), ra_name="ra", dec_name="dec", patch_centers=ref)
            rnd = yaw.Catalog.from_dataframe(f"{tmp}/{tag}_rnd", df.assign(ra=df.ra * 0.97 + 0.05), ra_name="ra", dec_name="dec", redshift_name="z", patch_centers=ref)
            return ref, unk, rnd

        def measure(cats, config):
            ref, unk, rnd = cats
            cf = yaw.crosscorrelate(config, ref, unk, ref_rand=rnd)[0]
            ac = yaw.autocorrelate(config, ref, rnd, count_rr=False)[0]
            return (cf.dd.counts.counts.tobytes(), cf.rd.counts.counts.tobytes(), cf.dd.sum_weights.sum_weights1.tobytes(),
                    ac.dd.counts.counts.tobytes(), ac.dr.counts.counts.tobytes())
        base = measure(fresh("base"), cfg)
        hist = _histories(max_len)
        if limit:
            hist = hist[:limit]
        for h_i, h in enumerate(hist):
            cats = list(fresh(f"h{h_i}"))
            try:
                for op in h:
                    if op == "other_edges":
                        for c in cats:
                            c.build_trees([0.1, 0.25, 1.0] if c is not cats[1] else [0.1, 0.55, 1.0], closed="right") if c.has_redshifts else c.build_trees(None)
                    elif op == "other_closed":
                        cats[0].build_trees([0.1, 0.4, 0.7, 1.0], closed="left")
                        cats[2].build_trees([0.1, 0.4, 0.7, 1.0], closed="left")
                    elif op == "same":
                        cats[0].build_trees([0.1, 0.4, 0.7, 1.0], closed="right")
                    elif op == "unbinned":
                        for c in cats:
                            c.build_trees(None)
                    elif op == "forced_other":
                        cats[0].build_trees([0.1, 0.9, 1.0], closed="left", force=True)
                        cats[2].build_trees([0.1, 0.9, 1.0], closed="left", force=True)
                    elif op == "reopen":
                        again = [yaw.Catalog(c.cache_directory) for c in cats]
                        for a, b in zip(cats, again):
                            # what decides which patch pairs are linked (centres, radii) and the normalisation (sums of weights) must
                            # come back bit for bit
                            if not (np.array_equal(a.get_centers().data, b.get_centers().data) and np.array_equal(a.get_radii().data, b.get_radii().data)
                                    and np.array_equal(a.get_sum_weights(), b.get_sum_weights())):
                                raise AssertionError("a reopened catalog reports other patch centres / radii / sums of weights than the catalog that wrote them")
                        cats = again
                    elif op == "same_count_measurement":
                        other = yaw.Configuration.create(rmin=200, rmax=5000, edges=[0.1, 0.25, 0.55, 1.0], closed="right")
                        measure(cats, other)
                    elif op == "nearly_same_edges":
                        for c in cats:
                            if c.has_redshifts:
                                c.build_trees([0.1, 0.399998, 0.700002, 1.0], closed="right")
                    elif op == "measure_same":
                        measure(cats, cfg)
                    elif op in ("other_handle_other_edges", "other_handle_unbinned"):
                        for c in cats:
                            other = yaw.Catalog(c.cache_directory)
                            other.build_trees([0.1, 0.25, 0.55, 1.0] if (c.has_redshifts and op == "other_handle_other_edges") else None, closed="right")
                    elif op == "other_scales_measurement":
                        other = yaw.Configuration.create(rmin=[100, 1000], rmax=[900, 20000], edges=[0.1, 0.55, 1.0], closed="left")
                        measure(cats, other)
                got = measure(cats, cfg)
            except Exception as e:  # noqa: BLE001 - a measurement that fails after a history that fresh caches survive is a difference
                got = ("raised", type(e).__name__, str(e)[:120])
            evals += 1
            if got != base and len(viol) < 5 and got[0] == "raised":
                viol.append(dict(id="bounded:history_independence", history=list(h), raised=f"{got[1]}: {got[2]}"))
            elif got != base and len(viol) < 5:
                viol.append(dict(id="bounded:history_independence", history=list(h), differs_in=[k for k, (a, b) in enumerate(zip(got, base)) if a != b]))
            for c in cats:
                shutil.rmtree(c.cache_directory, ignore_errors=True)
    finally:
        shutil.rmtree(tmp, ignore_errors=True)
    return viol, evals


def bounded(opts):
    import time
    t0 = time.time()
    thorough = opts.get("tier") == "thorough"
    viol, evals = _run_histories(2 if thorough else 1)
    return dict(kind="bounded", bound=f"all histories of length <= {2 if thorough else 1} over 7 operations (other edges, other closed side, same "
                "binning, unbinned use, forced rebuild, reopening, measurement with other binning/scales; plus three histories in which the "
                "caches are rebuilt through other handles between two uses of the same catalog objects) on one catalog triple "
                "(3 patches, 240 objects with redshifts exactly on bin edges), followed by a cross- and an autocorrelation; bit-wise "
                "comparison with the result from fresh caches", evaluations=evals, distinct_nontrivial=max(evals - 1, 0), violations=viol,
                samples=[list(h) for h in _histories(1)[:4]], wall_s=round(time.time() - t0, 2),
                note="real library on real cache directories; labelled bounded, not counted as proved")


def replay_witness(unit_name, case, ob):
    viol, evals = _run_histories(2)
    return {"reproduced": bool(viol), "violations": viol[:4], "histories_tried": evals,
            "note": "real measurements after real histories of cache operations vs fresh caches"}


# "reopening the catalog": a reopened catalog sees exactly the patch centres and radii of the catalog that wrote them (they decide
# which patch pairs are linked) - the C11 unit on the metadata dictionary, run here as well
def _register_shared_round10():
    from . import C11 as _C11
    unit(P, "Metadata.dict", fuc=["yaw.catalog.patch:Metadata.to_dict", "yaw.catalog.patch:Metadata.from_dict"])(_C11.u_meta_dict)


# _register_shared_round10() is called by the driver after this module is fully imported (no import cycles)
