"""C16 - random catalogs: exact size, footprint, joint attributes, reproducible by seed.

Ghost model of the random generator (pyvc/rngmodel.py): a seeded generator is a history term hist_0 = H0(seed),
hist_{k+1} = H(hist_k, kind, size); draws are functions of the history.  Obligations:
  size          a pass of RandomReader delivers exactly num_randoms points (pass lemma of C18 + chunk sizes)
  window        BoxRandoms: ra_min <= ra < ra_max, dec_min <= dec < dec_max  (radian of the given degrees)
  equal area    dec is produced only as arcsin of a variate uniform between sin(dec_min) and sin(dec_max), ra uniform
  joint draw    weights and redshifts of a point come from the same row of the supplied samples (one index array)
  reproducible  reseed() puts the generator into H0(seed) whatever happened before; every pass and every probe starts
                with reseed(); all draws of a generator come from its own seeded generator (none from numpy's global one)
Statistical uniformity itself is not decidable by contracts (not decided, stated).
"""
from __future__ import annotations

import z3

from pyvc import core, shadow, realfn, rngmodel
from pyvc.core import SNum, SBool, Ctx, EndPath, to_term, tob, to_real
from pyvc.arrays import SArr, SRec, bv, forall, dim_term
from pyvc.builtins_shim import vc_len
from .common import And, Or, Implies, Not, ForAll, Min, mod, unit, call, Raised, expect_no_exception, fail, Patches
from . import C18 as _C18

P = "C16"
EXPLANATION = (
    "Deductive relative to a ghost model of numpy's Generator: the generator classes of randoms.py and RandomReader are "
    "re-read from the current source and executed with symbolic sizes, seeds and window limits; reproducibility is "
    "decided by identity of history terms, the footprint by the range contracts of uniform() and the monotonicity "
    "axioms of arcsin/sin, the joint draw by the identity of the index array.")
TRUSTED = ["numpy Generator: deterministic function of the seed sequence; uniform in [lo,hi); integers in [lo,hi)"]
NOT_DECIDED = ["statistical uniformity of the generated points (only the equal-area construction is checked structurally)",
               "independence of the point set from the chunk size (clause of C02; fails for this source by design, F28)"]
ASSUMPTIONS = []


def make_box(ctx, has_w, has_z):
    RND = mod("yaw.randoms")
    seed = ctx.fresh_int("seed", lo=0)
    ra_min, ra_max = ctx.fresh_real("ra_min"), ctx.fresh_real("ra_max")
    dec_min, dec_max = ctx.fresh_real("dec_min"), ctx.fresh_real("dec_max")
    ctx.assume(z3.And(ra_min.t < ra_max.t, dec_min.t < dec_max.t, dec_min.t >= -90, dec_max.t <= 90), "pre:valid window")
    m = ctx.fresh_int("data_size", lo=1, size=True)
    w = SArr.fresh(ctx, "weights_in", (m,), "f") if has_w else None
    z = SArr.fresh(ctx, "redshifts_in", (m,), "f") if has_z else None
    ctx.inputs.update(seed=("int", seed), data_size=("int", m))
    return RND, seed, (ra_min, ra_max, dec_min, dec_max), m, w, z


@unit(P, "RandomsBase.reseed", fuc=["yaw.randoms:RandomsBase.reseed", "yaw.randoms:RandomsBase.__init__",
                                   "yaw.randoms:RandomsBase.get_data_size", "yaw.randoms:BoxRandoms.__init__"],
      cases=[dict(has_w=a, has_z=b) for a in (False, True) for b in (False, True)])
def u_reseed(ctx, has_w, has_z):
    """after construction and after every reseed() the generator is in the state determined by the seed alone"""
    RND, seed, (ra0, ra1, d0, d1), m, w, z = make_box(ctx, has_w, has_z)
    name = "C16/RandomsBase.reseed"
    ctx.canary()
    g = expect_no_exception(ctx, call(RND.BoxRandoms, ra0, ra1, d0, d1, weights=w, redshifts=z, seed=seed), "C16/BoxRandoms.__init__")
    h0 = rngmodel.H0(seed.t)
    ctx.check(f"{name}/post:initial_state_is_function_of_seed", isinstance(g.rng, rngmodel.SymGenerator) and g.rng.hist.eq(h0))
    ctx.check("C16/BoxRandoms.__init__/post:data_size", g.data_size == (m if (has_w or has_z) else -1))
    ctx.check("C16/BoxRandoms.__init__/post:chunk_info", g.has_weights == has_w and g.has_redshifts == has_z)
    # "no matter how often it has been used before" includes other generators built in the same process: a second generator with
    # the opposite attribute set must not change this one (no state shared between instances)
    m2 = ctx.fresh_int("num_samples_other", lo=1, size=True)
    other_w = None if has_w else SArr.fresh(ctx, "other_weights", (m2,), "f")
    other_z = None if has_z else SArr.fresh(ctx, "other_redshifts", (m2,), "f")
    expect_no_exception(ctx, call(RND.BoxRandoms, ra0, ra1, d0, d1, weights=other_w, redshifts=other_z, seed=ctx.fresh_int("other_seed", lo=0)),
                        "C16/BoxRandoms.__init__")
    ctx.check("C16/BoxRandoms.__init__/frame:another_generator_does_not_change_this_one",
              g.has_weights == has_w and g.has_redshifts == has_z and bool(g.data_size == (m if (has_w or has_z) else -1)) and g.rng.hist.eq(h0),
              detail="attribute flags, sample size and random state of a generator are its own")
    # arbitrary earlier use
    n1 = ctx.fresh_int("n_before", lo=0, size=True)
    expect_no_exception(ctx, call(g, n1), "C16/BoxRandoms.__call__")
    old_rng = g.rng
    expect_no_exception(ctx, call(g.reseed), name)
    ctx.check(f"{name}/post:state_reset_to_function_of_seed", g.rng.hist.eq(h0) and (g.seed is seed or bool(g.seed == seed)),
              detail="a generator must reproduce identical points no matter how often it has been used before")
    s2 = ctx.fresh_int("seed2", lo=0)
    expect_no_exception(ctx, call(g.reseed, s2), name)
    ctx.check(f"{name}/post:new_seed_taken", g.rng.hist.eq(rngmodel.H0(s2.t)))
    if has_w and has_z:
        bad = SArr.fresh(ctx, "short", (m + 1,), "f")
        r = call(RND.BoxRandoms, ra0, ra1, d0, d1, weights=w, redshifts=bad, seed=seed)
        ctx.check("C16/RandomsBase.get_data_size/post_exc:unequal_sample_lengths", isinstance(r, Raised) and isinstance(r.exc, ValueError))


@unit(P, "BoxRandoms.__call__", fuc=["yaw.randoms:RandomsBase.__call__", "yaw.randoms:BoxRandoms._draw_coords",
                                    "yaw.randoms:BoxRandoms._sky2cylinder", "yaw.randoms:BoxRandoms._cylinder2sky",
                                    "yaw.randoms:RandomsBase._draw_attributes", "yaw.datachunk:DataChunk.create"],
      cases=[dict(has_w=a, has_z=b) for a in (False, True) for b in (False, True)], trusted=["Generator contracts", "arcsin/sin axioms"])
def u_call(ctx, has_w, has_z):
    """n points inside the window; declination from an equal-area (sine) variate; weights and redshifts of a point
    from the same source row; every draw from the generator's own seeded state"""
    RND, seed, (ra0, ra1, d0, d1), m, w, z = make_box(ctx, has_w, has_z)
    g = expect_no_exception(ctx, call(RND.BoxRandoms, ra0, ra1, d0, d1, weights=w, redshifts=z, seed=seed), "C16/BoxRandoms.__init__")
    n = ctx.fresh_int("n", lo=0, size=True)
    ctx.inputs["n"] = ("int", n)
    name = "C16/BoxRandoms.__call__"
    ctx.ghost["rng_requests"] = []
    ctx.canary()
    chunk = expect_no_exception(ctx, call(g, n), name)
    reqs = ctx.ghost["rng_requests"]
    ctx.check(f"{name}/post:number_of_points", vc_len(chunk) == n)
    ctx.check(f"{name}/post:fields", set(chunk.fields) == {"ra", "dec"} | ({"weights"} if has_w else set()) | ({"redshifts"} if has_z else set()))
    ctx.check(f"{name}/post:all_draws_from_own_seeded_generator", all(r[0] is g.rng for r in reqs) and g.rng.seeded_from is not None,
              detail="a draw from another (global) generator is not reproducible by the seed")
    ctx.check(f"{name}/post:draw_sequence_depends_on_n_only",
              [r[1] for r in reqs] == ["uniform", "uniform"] + (["integers"] if (has_w or has_z) else []) and all(r[2] is n for r in reqs))
    t = ctx.fresh_int("t", lo=0)
    ctx.assume(t.t < n.t, "post:arbitrary point")
    pi = realfn.pi().t
    ra, dec = chunk.fields["ra"]._elem(t.t), chunk.fields["dec"]._elem(t.t)
    to_rad = lambda d: d.t * pi / 180  # noqa: E731
    ctx.check(f"{name}/post:ra_inside_window", SBool(z3.And(ra >= to_rad(ra0), ra < to_rad(ra1))))
    sin, arcsin = realfn.F["sin"], realfn.F["arcsin"]
    # dec = arcsin(y), y uniform in [sin(dec_min), sin(dec_max)):  equal area + inside the window
    h_dec = rngmodel.HN(rngmodel.H0(seed.t), z3.IntVal(1), n.t)    # second uniform request of the call
    y = sin(to_rad(d0)) + (sin(to_rad(d1)) - sin(to_rad(d0))) * rngmodel.OUT01(h_dec, t.t)
    ctx.check(f"{name}/post:dec_is_arcsin_of_a_variate_uniform_between_the_sines", SBool(dec == arcsin(y)),
              detail="equal-area construction: dec = arcsin(u), u uniform in [sin(dec_min), sin(dec_max))")
    # ground instances of the axioms the window proof needs
    for v in (to_rad(d0), to_rad(d1)):
        ctx.assume(z3.And(arcsin(sin(v)) == v, sin(v) >= -1, sin(v) <= 1), "realfn:arcsin/sin instance on [-pi/2, pi/2]")
    ctx.assume(z3.Implies(z3.And(y >= -1, y <= 1), z3.And(sin(arcsin(y)) == y, arcsin(y) >= -pi / 2, arcsin(y) <= pi / 2)), "realfn:arcsin instance")
    ctx.check(f"{name}/post:dec_inside_window", SBool(z3.And(dec >= to_rad(d0), dec < to_rad(d1))))
    if has_w or has_z:
        h_idx = rngmodel.HN(h_dec, z3.IntVal(1), n.t)
        idx = rngmodel.OUTI(h_idx, t.t, z3.IntVal(0), m.t)
        ctx.check(f"{name}/post:source_row_valid", SBool(z3.And(idx >= 0, idx < m.t)))
        if has_w:
            ctx.check(f"{name}/post:weight_from_source_row", SBool(chunk.fields["weights"]._elem(t.t) == w._elem(idx)))
        if has_z:
            ctx.check(f"{name}/post:redshift_from_the_same_source_row", SBool(chunk.fields["redshifts"]._elem(t.t) == z._elem(idx)),
                      detail="weights and redshifts must be drawn jointly (same source row)")


@unit(P, "HealPixRandoms._draw_coords", fuc=["yaw.randoms:HealPixRandoms._draw_coords"], cases=[dict(is_mask=False), dict(is_mask=True)])
def u_healpix(ctx, is_mask):
    """source-level (healpy stubbed by contract): every random draw comes from the generator's own seeded state"""
    RND = mod("yaw.randoms")
    seed = ctx.fresh_int("seed", lo=0)
    n = ctx.fresh_int("n", lo=0, size=True)
    npix = ctx.fresh_int("npix_unmasked", lo=1, size=True)
    g = RND.HealPixRandoms.__new__(RND.HealPixRandoms)
    g.seed = seed
    g.rng = rngmodel.default_rng(rngmodel.SeedSequence(seed).spawn(1)[0])
    g.nside = 64
    g._ipix_unmasked = SArr.fresh(ctx, "ipix_unmasked", (npix,), "i")
    g._probability = None if is_mask else SArr.fresh(ctx, "prob", (npix,), "f")

    class Healpy:
        @staticmethod
        def nside2order(nside):
            return 6

        @staticmethod
        def pix2ang(nside, ipix, nest, lonlat):
            return SArr.fresh(ctx, "lon", ipix.shape, "f"), SArr.fresh(ctx, "lat", ipix.shape, "f")
    ctx.ghost["rng_requests"] = []
    name = "C16/HealPixRandoms._draw_coords"
    with Patches() as pt:
        pt.set(RND, "healpy", Healpy)
        ctx.canary()
        res = expect_no_exception(ctx, call(RND.HealPixRandoms._draw_coords, g, n), name)
    reqs = ctx.ghost["rng_requests"]
    ctx.check(f"{name}/post:two_draws_of_n", len(reqs) == 2 and all(r[2] is n for r in reqs))
    ctx.check(f"{name}/post:all_draws_from_own_seeded_generator", all(r[0] is g.rng for r in reqs),
              detail="a draw from numpy's global generator ignores the seed")
    ctx.check(f"{name}/post:n_coordinates", bool(And(res[0].shape[0] == n, res[1].shape[0] == n)))


@unit(P, "RandomReader.reseeds", fuc=["yaw.catalog.readers:RandomReader.__init__", "yaw.catalog.readers:RandomReader.__iter__",
                                     "yaw.catalog.readers:RandomReader._reset_iter_state", "yaw.catalog.readers:RandomReader.get_probe"])
def u_reader_reseeds(ctx):
    """construction, every new pass and every probe start from the seeded state; the pass restarts at chunk 0"""
    R = mod("yaw.catalog.readers")
    D = mod("yaw.datachunk")
    events = []

    class Gen:
        def copy_chunk_info(self):
            return D.DataChunkInfo()

        def reseed(self, seed=None):
            events.append("reseed")

        def __call__(self, size):
            events.append(("draw", size))
            return SArr.fresh(ctx, "draw", (size,), "f")
    n = ctx.fresh_int("n", lo=1, size=True)
    c = ctx.fresh_int("chunksize", lo=1)
    ctx.canary()
    name = "C16/RandomReader"
    r = expect_no_exception(ctx, call(R.RandomReader, Gen(), n, c), name + ".__init__")
    ctx.check(f"{name}.__init__/post:state", And(r._num_records == n, r.chunksize == c, r._num_samples == 0))
    ctx.check(f"{name}.__init__/post:reseeded", events == ["reseed"])
    r._num_samples = ctx.fresh_int("used_before", lo=0)
    del events[:]
    it = expect_no_exception(ctx, call(R.RandomReader.__iter__, r), name + ".__iter__")
    ctx.check(f"{name}.__iter__/post:new_pass_restarts_and_reseeds", it is r and bool(r._num_samples == 0) and events == ["reseed"])
    del events[:]
    ps = ctx.fresh_int("probe_size", lo=1)
    ctx.assume(ps.t <= Min(n, c).t, "pre:probe within one chunk (larger probes: C18)")
    expect_no_exception(ctx, call(R.RandomReader.get_probe, r, ps), name + ".get_probe")
    ctx.check(f"{name}.get_probe/post:reseeded_before_the_first_draw", len(events) >= 2 and events[0] == "reseed" and events[1][0] == "draw")


@unit(P, "RandomReader.sizes", fuc=["yaw.catalog.readers:RandomReader._get_next_chunk", "yaw.catalog.readers:DataChunkReader.__next__"])
def u_reader_sizes(ctx):
    """chunk k asks for min(c, n - k*c) points (unit shared with C18); with the pass lemma the sizes add up to n"""
    _C18.u_rand(ctx)
    n = ctx.fresh_int("n2", lo=0)
    c = ctx.fresh_int("c2", lo=1)
    K = ctx.fresh_int("K", lo=0)
    # total of a pass: K-1 full chunks and one last chunk, K = ceil(n/c)
    ctx.assume(z3.And((K.t - 1) * c.t < n.t, n.t <= K.t * c.t), "lemma:number of chunks (C18 pass lemma)")
    ctx.check("C16/RandomReader/pass_total_is_num_randoms",
              SBool(z3.If(K.t == 0, z3.IntVal(0), (K.t - 1) * c.t + z3.If(c.t <= n.t - (K.t - 1) * c.t, c.t, n.t - (K.t - 1) * c.t)) == n.t))


def replay_witness(unit_name, case, ob):
    """real generators: size, window, joint draw, reproducibility after arbitrary use (BoxRandoms through the public API;
    HealPixRandoms with a stubbed healpy)"""
    import numpy as np
    import yaw.randoms as RNDr
    from yaw.catalog.readers import RandomReader
    rng = np.random.default_rng(0)
    fails = []
    wsrc, zsrc = np.arange(50) * 1.0, np.arange(50) * 1000.0
    g = RNDr.BoxRandoms(10, 30, -20, 40, weights=wsrc, redshifts=zsrc, seed=77)
    for n, c in ((1000, 300), (900, 300), (300, 300), (7, 100)):
        pts = np.concatenate(list(RandomReader(g, n, c)))
        if len(pts) != n:
            fails.append(f"size {len(pts)} != {n} (chunksize {c})")
        if len(pts) and not (np.all(pts["ra"] >= np.deg2rad(10)) and np.all(pts["ra"] < np.deg2rad(30)) and
                             np.all(pts["dec"] >= np.deg2rad(-20)) and np.all(pts["dec"] < np.deg2rad(40))):
            fails.append("points outside the window")
        if len(pts) and not np.array_equal(pts["redshifts"], pts["weights"] * 1000.0):
            fails.append("weights and redshifts not drawn jointly")
    r = RandomReader(g, 500, 200)
    a = np.concatenate(list(r))
    g(123)
    r.get_probe(50)
    b = np.concatenate(list(r))
    if not np.array_equal(a, b):
        fails.append("second pass differs from the first (not reproducible after use)")
    # healpix with stubbed healpy
    class Healpy:
        @staticmethod
        def nside2order(nside):
            return 1

        @staticmethod
        def pix2ang(nside, ipix, nest, lonlat):
            return (ipix % 360).astype(float), ((ipix // 360) % 90).astype(float)
    old = getattr(RNDr, "healpy", None)
    RNDr.healpy = Healpy
    try:
        h = RNDr.HealPixRandoms.__new__(RNDr.HealPixRandoms)
        RNDr.RandomsBase.__init__(h, seed=5)
        h.nside, h._ipix_unmasked, h._probability = 2, np.arange(48), None
        np.random.seed(1)
        p1 = h._draw_coords(20)
        h.reseed()
        np.random.seed(2)
        p2 = h._draw_coords(20)
        if not (np.array_equal(p1[0], p2[0]) and np.array_equal(p1[1], p2[1])):
            fails.append("HealPixRandoms: same seed gives different points (depends on numpy's global generator)")
    finally:
        if old is None:
            del RNDr.healpy
        else:
            RNDr.healpy = old
    # a second generator with another attribute set, built in between, must not change what the first one draws
    g1 = RNDr.BoxRandoms(10, 30, -20, 40, weights=wsrc, redshifts=zsrc, seed=7)
    first = g1(50)
    RNDr.BoxRandoms(0, 5, 0, 5, seed=1)(10)
    g1.reseed()
    again = g1(50)
    if first.dtype != again.dtype or not np.array_equal(first, again):
        fails.append("a generator built in between changes what an earlier generator draws (state shared between instances)")
    # catalogs built from a generator hold exactly the requested number of points, inside the window, for 1 and 2 workers
    import os
    import shutil
    import tempfile
    import yaw
    tmp = tempfile.mkdtemp(prefix="c16bounded")
    old_env = os.environ.get("YAW_NUM_THREADS")
    try:
        centres = yaw.AngularCoordinates(np.deg2rad([[15.0, 0.0], [25.0, 20.0]]))
        for nw in (1, 2):
            os.environ["YAW_NUM_THREADS"] = str(nw)
            for n in (999, 2500):
                gen = RNDr.BoxRandoms(10, 30, -20, 40, weights=wsrc, redshifts=zsrc, seed=5)
                try:
                    cat = yaw.Catalog.from_random(f"{tmp}/r{nw}_{n}", gen, n, patch_centers=centres, chunksize=1000, max_workers=nw, overwrite=True)
                    total = int(sum(cat.get_num_records()))
                except Exception as ex:  # noqa: BLE001
                    fails.append(f"from_random({n} points, {nw} worker(s)) raised {type(ex).__name__}: {ex}")
                    continue
                if total != n:
                    fails.append(f"from_random: catalog holds {total} points instead of {n} ({nw} worker(s), chunksize 1000)")
    finally:
        if old_env is None:
            os.environ.pop("YAW_NUM_THREADS", None)
        else:
            os.environ["YAW_NUM_THREADS"] = old_env
        shutil.rmtree(tmp, ignore_errors=True)
    return {"reproduced": bool(fails), "failed": fails, "note": "real BoxRandoms/RandomReader/Catalog.from_random, HealPixRandoms with stubbed healpy"}


def bounded(opts):
    import time
    t0 = time.time()
    r = replay_witness(None, {}, {})
    return dict(kind="bounded", bound="real BoxRandoms through RandomReader for (n, chunksize) in (1000,300), (900,300), (300,300), (7,100): size, window, joint "
                "(weight, redshift) rows, identical second pass after other use; HealPixRandoms with a stubbed healpy: same seed, same points; "
                "Catalog.from_random for 999 and 2500 points with chunks of 1000 and 1 / 2 workers: exactly the requested number of points",
                evaluations=4 * 3 + 1 + 1 + 4, distinct_nontrivial=4 * 3 + 1 + 1 + 4, violations=[dict(id="bounded:randoms", detail=f) for f in r["failed"]][:8],
                samples=["BoxRandoms(10, 30, -20, 40, seed=77)"], wall_s=round(time.time() - t0, 2), note="real library; labelled bounded, not counted as proved")


# "exactly the requested number of points" for a catalog built from a generator also depends on the creation pipeline writing
# every chunk of the random reader: the C09 / C02 units on write_patches (multiprocessing and sequential), run here as well
def _register_shared():
    from . import C09 as _C09
    from . import C02 as _C02
    unit(P, "write_patches.multiprocessing", fuc=["yaw.catalog.catalog:write_patches"])(_C09.u_mp)
    unit(P, "write_patches.parts", fuc=["yaw.catalog.catalog:write_patches"], trusted=["np.array_split", "Pool.map"])(_C02.u_write_patches)
    unit(P, "write_patches_unthreaded", fuc=["yaw.catalog.catalog:write_patches_unthreaded"])(_C09.u_unthreaded)


# _register_shared() is called by the driver after this module is fully imported (no import cycles)


# every generated point that reaches a patch writer ends up in the patch file, also a single pending record (C02 units on PatchWriter)
def _register_shared_round9():
    from . import C02 as _C02
    unit(P, "PatchWriter.process_chunk", fuc=["yaw.catalog.patch:PatchWriter.process_chunk", "yaw.catalog.patch:PatchWriter.flush"],
         cases=[dict(pending=k, flushed=f, **fs) for k in (0, 1, 2) for f in (False, True) for fs in (_C02.FIELDSETS[0],)], kind="bounded")(_C02.u_pw_process)
    unit(P, "PatchWriter.close", fuc=["yaw.catalog.patch:PatchWriter.close", "yaw.catalog.patch:PatchWriter.flush"],
         cases=[dict(pending=k, flushed=f, **fs) for k in (0, 1, 2) for f in (False, True) for fs in (_C02.FIELDSETS[0],)], kind="bounded")(_C02.u_pw_close)


# _register_shared_round9() is called by the driver after this module is fully imported (no import cycles)


# "weights and redshifts drawn jointly (same source row)" also holds for what is read back from the cache of a random catalog: the
# fields are read under the names they were written with (C02 unit on read_patch_data)
def _register_shared_round10():
    from . import C02 as _C02
    unit(P, "read_patch_data", fuc=["yaw.catalog.patch:read_patch_data", "yaw.datachunk:DataChunkInfo.get_list"], cases=_C02.FIELDSETS)(_C02.u_read)


# _register_shared_round10() is called by the driver after this module is fully imported (no import cycles)
