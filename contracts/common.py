"""Shared helpers for the sidecar contracts."""
from __future__ import annotations

import z3

from pyvc import shadow, core
from pyvc.core import SNum, SBool, Ctx, tob, to_term
from pyvc.arrays import SArr, SRec, bv, in_range, forall, dim_term
from pyvc.unit import unit, call, Raised, expect_no_exception, fail, use_loops  # noqa: F401
from pyvc.runtime import LoopSpec, Patches  # noqa: F401


def And(*xs):
    return SBool(z3.And([tob(x) for x in xs])) if xs else SBool(z3.BoolVal(True))


def Or(*xs):
    return SBool(z3.Or([tob(x) for x in xs])) if xs else SBool(z3.BoolVal(False))


def Implies(a, b):
    return SBool(z3.Implies(tob(a), tob(b)))


def Not(a):
    return SBool(z3.Not(tob(a)))


def Ite(c, a, b):
    ta, tb = core._coerce(to_term(a), to_term(b))
    return SNum(z3.If(tob(c), ta, tb))


def Min(a, b):
    ta, tb = core._coerce(to_term(a), to_term(b))
    return SNum(z3.If(ta <= tb, ta, tb))


def Max(a, b):
    ta, tb = core._coerce(to_term(a), to_term(b))
    return SNum(z3.If(ta >= tb, ta, tb))


def ForAll(n_or_names, body_fn, *ranges):
    """ForAll(('i','j'), lambda i, j: clause) with SNum bound variables"""
    names = (n_or_names,) if isinstance(n_or_names, str) else tuple(n_or_names)
    vs = [bv(n) for n in names]
    body = body_fn(*[SNum(v) for v in vs])
    return SBool(z3.ForAll(vs, tob(body)))


def Exists(n_or_names, body_fn):
    names = (n_or_names,) if isinstance(n_or_names, str) else tuple(n_or_names)
    vs = [bv(n) for n in names]
    body = body_fn(*[SNum(v) for v in vs])
    return SBool(z3.Exists(vs, tob(body)))


def InRange(i, lo, hi):
    return And(i >= lo, i < hi)


def mod(name):
    return shadow.module(name)


def new(cls):
    """instance without running __init__ (fields are filled in by the harness from the type invariant)"""
    return cls.__new__(cls)
